/-
C10 — DogStatsD aggregation conserves counts across flushes under any interleaving.

Step machine: `Model/StatsdAgg.lean` (one step = one atomic operation of `AtomicCounter::{increment, flush}` plus
the send decision of `State::flush`; PC names = yield-point ids in storage.rs).  The model is of the code after
the `fix:` commits (timestamp mode; idleness decided on the delta).  Theorems: for every increment-only
program list with ONE flusher thread (the forwarder owns `FlushState` by `&mut`), ANY number of incrementing
threads and EVERY schedule.
-/
import MetricsVerif.Proofs.StatsdAgg
import MetricsVerif.Proofs.StatsdAbs
import MetricsVerif.Props.C10Hist
import MetricsVerif.Generated.SourceFacts

namespace MetricsVerif.C10
open MetricsVerif.StatsdAgg

/-- programs: increments and flushes only, flushes only in thread `f` -/
def IncFlush (f : Nat) (progs : List (List Call)) : Prop :=
  (∀ p ∈ progs, ∀ c ∈ p, isIncFlushCall c = true)
  ∧ (∀ (i : Nat) (p : List Call), i ≠ f → progs[i]? = some p → ∀ c ∈ p, noFlush c = true)

theorem init_inv (f : Nat) (progs : List (List Call)) (h : IncFlush f progs) : Inv f (init false progs) := by
  have hplain : (init false progs).last = ((init false progs).marks.head?.getD 0) % M
      ∧ (init false progs).outcomes.map (·.1) = deltasOf (init false progs).marks := ⟨rfl, rfl⟩
  refine { legacy_off := rfl, cur := rfl, desc := trivial, marks_le := Nat.le_refl _, others := ?_, thr := ?_,
           align := ?_, align_none := fun _ => hplain, idle_eq := rfl, rule := trivial }
  · intro i t hi ht
    simp only [init, List.getElem?_map] at ht
    cases hp : progs[i]? with
    | none => simp [hp] at ht
    | some p =>
      simp only [hp, Option.map_some, Option.some.injEq] at ht
      subst ht
      exact ⟨rfl, h.2 i p hi hp⟩
  · intro i t ht
    simp only [init, List.getElem?_map] at ht
    cases hp : progs[i]? with
    | none => simp [hp] at ht
    | some p =>
      simp only [hp, Option.map_some, Option.some.injEq] at ht
      subst ht
      exact ⟨rfl, h.1 p (List.mem_of_getElem? hp)⟩
  · intro t ht
    simp only [init, List.getElem?_map] at ht
    cases hp : progs[f]? with
    | none => simp [hp] at ht
    | some p =>
      simp only [hp, Option.map_some, Option.some.injEq] at ht
      subst ht
      exact (AlignT.plain (by simp [mkThread]) (by simp [mkThread])).mpr hplain

theorem reachable_inv (f : Nat) (progs : List (List Call)) (h : IncFlush f progs) (sched : List Nat) :
    Inv f (run (init false progs) sched) := run_inv f sched _ (init_inv f progs h)

/-- `current` always holds exactly the increments whose `fetch_add` has executed (mod 2^64) -/
theorem current_is_applied (f : Nat) (progs : List (List Call)) (h : IncFlush f progs) (sched : List Nat) :
    (run (init false progs) sched).current = (run (init false progs) sched).applied % M :=
  (reachable_inv f progs h sched).cur

/-- the flusher is between two flushes (not inside one) -/
def FlusherResting (f : Nat) (s : Sys) : Prop :=
  ∀ t, s.threads[f]? = some t → t.pc ≠ .fSwapLast ∧ t.pc ≠ .fSwapUpdates

/-- **each delta is what was added between two flush loads.**  With `marks` = the number of increments that
    had reached `current` at each flush's load (newest first, non-increasing towards the past): the deltas
    computed by the flushes are exactly the differences of consecutive marks — never more than was actually
    added since the previous flush — in every interleaving. -/
theorem deltas_are_increments_between_loads (f : Nat) (progs : List (List Call)) (h : IncFlush f progs)
    (sched : List Nat) (hr : FlusherResting f (run (init false progs) sched)) :
    let s := run (init false progs) sched
    s.outcomes.map (·.1) = deltasOf s.marks ∧ Desc s.marks ∧ (s.marks.head?.getD 0) ≤ s.applied := by
  have hi := reachable_inv f progs h sched
  refine ⟨?_, hi.desc, hi.marks_le⟩
  cases ht : (run (init false progs) sched).threads[f]? with
  | none => exact (hi.align_none ht).2
  | some t =>
    have := hr t ht
    exact ((AlignT.plain this.1 this.2).mp (hi.align t ht)).2

/-- a skipped delta is always zero: **no non-zero delta is ever discarded** -/
theorem Rule.skipped_zero : ∀ (l : List (Nat × Bool)), Rule l → ∀ o ∈ l, o.2 = false → o.1 = 0 := by
  intro l
  induction l with
  | nil => intro _ o ho; cases ho
  | cons x r ih =>
    intro hr o ho hb
    obtain ⟨d, b⟩ := x
    simp only [List.mem_cons] at ho
    rcases ho with rfl | ho
    · have := hr.1
      simp only at hb
      rw [hb] at this
      cases hd : (d == 0) with
      | true => simpa using hd
      | false => simp [hd] at this
    · exact ih hr.2 o ho hb

theorem nonzero_delta_always_sent (f : Nat) (progs : List (List Call)) (h : IncFlush f progs) (sched : List Nat) :
    ∀ o ∈ (run (init false progs) sched).outcomes, o.1 ≠ 0 → o.2 = true := by
  intro o ho hne
  cases hb : o.2 with
  | true => rfl
  | false => exact absurd (Rule.skipped_zero _ (reachable_inv f progs h sched).rule o ho hb) hne

theorem sum_sent_eq_all (l : List (Nat × Bool)) (h : Rule l) :
    ((l.filter (·.2)).map (·.1)).sum = (l.map (·.1)).sum := by
  induction l with
  | nil => rfl
  | cons x r ih =>
    obtain ⟨d, b⟩ := x
    have hz := Rule.skipped_zero _ h (d, b) (by simp)
    cases b with
    | true => simp [List.filter_cons, ih h.2]
    | false =>
      have hd : d = 0 := hz rfl
      subst hd
      simp [List.filter_cons, ih h.2]

/-- **the deltas sent add up to the increments made** (telescoping): whenever the flusher is between two
    flushes, (sum of all deltas written) ≡ (increments that had reached `current` at the last flush's load)
    (mod 2^64); what is still missing is exactly `current − last`, which the next flush sends. -/
theorem deltas_telescope (f : Nat) (progs : List (List Call)) (h : IncFlush f progs) (sched : List Nat)
    (hr : FlusherResting f (run (init false progs) sched)) :
    let s := run (init false progs) sched
    sentSum s % M = (s.marks.head?.getD 0) % M ∧ s.last = (s.marks.head?.getD 0) % M := by
  have hi := reachable_inv f progs h sched
  have hd := deltas_are_increments_between_loads f progs h sched hr
  simp only at hd ⊢
  constructor
  · unfold sentSum
    rw [sum_sent_eq_all _ hi.rule, hd.1]
    exact deltasOf_sum _ hd.2.1
  · cases ht : (run (init false progs) sched).threads[f]? with
    | none => exact (hi.align_none ht).1
    | some t =>
      have := hr t ht
      exact ((AlignT.plain this.1 this.2).mp (hi.align t ht)).1

/-- **a counter that stops changing is sent as zero exactly once**: in the sequence of flush outcomes
    (newest first) a zero delta is written iff the delta before it was non-zero (or it is the first flush);
    so between two changes exactly one zero goes out, and every non-zero delta is written. -/
theorem zero_once (f : Nat) (progs : List (List Call)) (h : IncFlush f progs) (sched : List Nat) :
    Rule (run (init false progs) sched).outcomes := (reachable_inv f progs h sched).rule

theorem zero_once_unfolded (d2 d1 : Nat) (b2 b1 : Bool) (r : List (Nat × Bool)) (h : Rule ((d2, b2) :: (d1, b1) :: r)) :
    (d2 ≠ 0 → b2 = true) ∧ (d2 = 0 → d1 ≠ 0 → b2 = true) ∧ (d2 = 0 → d1 = 0 → b2 = false) := by
  have := h.1
  refine ⟨?_, ?_, ?_⟩
  · intro hd; simp [this, hd]
  · intro hd hd1; simp [this, hd, hd1]
  · intro hd hd1; simp [this, hd, hd1]

/-! ### gauges: every flush sends the most recent value -/

/-- the value in the gauge after a linearized sequence of calls -/
def lastSet : List GCall → Nat → Nat
  | [], cur => cur
  | .set v :: rest, _ => lastSet rest v
  | .flush :: rest, cur => lastSet rest cur

theorem gaugeRun_append (l rest : List GCall) : ∀ cur,
    gaugeRun (l ++ rest) cur = gaugeRun l cur ++ gaugeRun rest (lastSet l cur) := by
  induction l with
  | nil => intro cur; rfl
  | cons c r ih =>
    intro cur
    cases c with
    | set v => simp only [List.cons_append, gaugeRun, lastSet]; exact ih v
    | flush => simp only [List.cons_append, gaugeRun, lastSet, ih cur]

theorem lastSet_append (l rest : List GCall) : ∀ cur, lastSet (l ++ rest) cur = lastSet rest (lastSet l cur) := by
  induction l with
  | nil => intro cur; rfl
  | cons c r ih => intro cur; cases c <;> simp only [List.cons_append, lastSet, ih]

theorem lastSet_flushes (l : List GCall) (h : ∀ c ∈ l, c = GCall.flush) : ∀ cur, lastSet l cur = cur := by
  induction l with
  | nil => intro cur; rfl
  | cons c r ih =>
    intro cur
    have := h c (by simp); subst this
    simp only [lastSet]; exact ih (fun x hx => h x (by simp [hx])) cur

/-- in any linearization of sets and flushes, a flush sends the value of the latest `set` before it -/
theorem gauge_flush_latest (pre : List GCall) (b : Nat) (post : List GCall) (init : Nat)
    (hpost : ∀ c ∈ post, c = GCall.flush) :
    gaugeRun (pre ++ [.set b] ++ post ++ [.flush]) init
      = gaugeRun (pre ++ [.set b] ++ post) init ++ [b] := by
  rw [gaugeRun_append (pre ++ [GCall.set b] ++ post) [GCall.flush] init]
  have : lastSet (pre ++ [GCall.set b] ++ post) init = b := by
    rw [lastSet_append, lastSet_append, lastSet_flushes post hpost]
    simp [lastSet]
  rw [this]; rfl

/-- **every flush sends the gauge's most recent value, for all three update operations**: in any linearization of
    `set` / `increment` / `decrement` / `flush` a flush sends exactly the value produced by the operations before
    it (no update lost, none applied twice), whatever `add`/`sub` are -/
theorem gauge_ops_flush_latest (add sub : Nat → Nat → Nat) (pre : List GOp) : ∀ (init : Nat),
    gaugeOps add sub (pre ++ [.flush]) init = gaugeOps add sub pre init ++ [gaugeVal add sub pre init] := by
  induction pre with
  | nil => intro init; rfl
  | cons c r ih =>
    intro init
    cases c <;> simp only [List.cons_append, gaugeOps, gaugeVal, ih]

/-- and the operations after a prefix start from that value -/
theorem gauge_ops_append (add sub : Nat → Nat → Nat) (pre rest : List GOp) : ∀ (init : Nat),
    gaugeOps add sub (pre ++ rest) init
      = gaugeOps add sub pre init ++ gaugeOps add sub rest (gaugeVal add sub pre init) := by
  induction pre with
  | nil => intro init; rfl
  | cons c r ih =>
    intro init
    cases c <;> simp only [List.cons_append, gaugeOps, gaugeVal, ih]

/-- SOURCE FACT: every gauge update is ONE atomic operation on `inner` (`store` for set, a single `fetch_update`
    read-modify-write for increment/decrement — not a load followed by a store), increment adds and decrement
    subtracts, each is followed by the `updates` bump, and `flush` is one `load` -/
theorem src_gauge_shape :
    Generated.agg_gauge_set_calls = ["inner.store", "updates.fetch_add"]
    ∧ Generated.agg_gauge_increment_calls = ["inner.fetch_update", "updates.fetch_add"]
    ∧ Generated.agg_gauge_decrement_calls = ["inner.fetch_update", "updates.fetch_add"]
    ∧ Generated.agg_gauge_flush_calls = ["inner.load", "updates.swap"]
    ∧ Generated.agg_gauge_increment_arith = "+"
    ∧ Generated.agg_gauge_decrement_arith = "-" := by decide

example : gaugeOps (· + ·) (· - ·) [.set 5, .incr 3, .flush, .decr 6, .flush, .flush] 0 = [8, 2, 2] := by decide

/-! ### timestamps: sent exactly in the mode documented to send one -/

/-- the arms of `get_aggregation_timestamp` agree with the documentation of `AggregationMode`
    (both regenerated from the source on every run) -/
theorem timestamp_iff_documented :
    (Generated.agg_ts_arm_conservative = "some" ↔ Generated.agg_doc_conservative_sends_ts = "yes")
    ∧ (Generated.agg_ts_arm_aggressive = "some" ↔ Generated.agg_doc_aggressive_sends_ts = "yes")
    ∧ (Generated.agg_ts_arm_conservative = "none" ↔ Generated.agg_doc_conservative_sends_ts = "no")
    ∧ (Generated.agg_ts_arm_aggressive = "none" ↔ Generated.agg_doc_aggressive_sends_ts = "no") := by decide

/-- the source has the call order and the idle test the step machine models -/
theorem src_shape :
    Generated.agg_counter_flush_calls = ["current.load", "last.swap", "updates.swap"]
    ∧ Generated.agg_counter_increment_calls = ["is_absolute.store", "current.fetch_add", "updates.fetch_add"]
    ∧ Generated.agg_counter_absolute_calls = ["is_absolute.swap", "last.store", "current.store", "updates.fetch_add"]
    ∧ Generated.agg_counter_idle_test = "value == 0" := by decide

/-! ### absolute-only counters (sequential histories): deltas add up to last value minus first value -/

/-- sequential semantics of complete `absolute` / `flush` calls on one counter: (isAbs, last, current, deltas) -/
def seqAbs : List Call → (Bool × Nat × Nat × List Nat) → (Bool × Nat × Nat × List Nat)
  | [], st => st
  | .abs v :: rest, (isAbs, last, _, ds) =>
    seqAbs rest (true, (if isAbs then last else v % M), v % M, ds)
  | .flush :: rest, (isAbs, last, cur, ds) => seqAbs rest (isAbs, cur, cur, ds ++ [(cur + M - last) % M])
  | .inc _ :: rest, st => seqAbs rest st

/-- absolute-only, the counter already in absolute mode with `last` = the first absolute value: after any
    sequence of absolute values and flushes, (sum of the deltas sent) + (first value) ≡ (value at the last
    flush) (mod 2^64) — i.e. the deltas add up to last value minus first value -/
theorem abs_only_telescopes (calls : List Call) : ∀ (last cur : Nat) (ds : List Nat), last < M → cur < M →
    ((seqAbs calls (true, last, cur, ds)).2.2.2.sum + last) % M
        = (ds.sum + (seqAbs calls (true, last, cur, ds)).2.1) % M
      ∧ (seqAbs calls (true, last, cur, ds)).2.1 < M := by
  induction calls with
  | nil => intro last cur ds hl _; exact ⟨by simp [seqAbs, Nat.add_comm], hl⟩
  | cons c rest ih =>
    intro last cur ds hl hc
    cases c with
    | abs v =>
      simp only [seqAbs, if_true]
      exact ih last (v % M) ds hl (Nat.mod_lt _ (by decide))
    | inc n => simp only [seqAbs]; exact ih last cur ds hl hc
    | flush =>
      simp only [seqAbs]
      have := ih cur cur (ds ++ [(cur + M - last) % M]) hc hc
      refine ⟨?_, this.2⟩
      have h1 := this.1
      rw [List.sum_append, List.sum_cons, List.sum_nil] at h1
      generalize (seqAbs rest (true, cur, cur, ds ++ [(cur + M - last) % M])).2.2.2.sum = rs at h1 ⊢
      generalize (seqAbs rest (true, cur, cur, ds ++ [(cur + M - last) % M])).2.1 = rl at h1 ⊢
      simp only [M] at *
      omega

/-- SOURCE FACT: the memory orderings of the counter operations are the ones the interleaving model assumes to be
    (at least) release/acquire on the flush side: `flush` reads `current` with Acquire and swaps `last`/`updates`
    with AcqRel; `absolute` publishes with Release stores; the `fetch_add`s are single RMWs -/
theorem src_orderings :
    Generated.shape_agg_counter_flush
        = [("current.load", ["Acquire"]), ("last.swap", ["AcqRel"]), ("updates.swap", ["AcqRel"])]
    ∧ Generated.shape_agg_counter_increment
        = [("is_absolute.store", ["Release"]), ("current.fetch_add", ["Relaxed"]), ("updates.fetch_add", ["Relaxed"])]
    ∧ Generated.shape_agg_counter_absolute
        = [("is_absolute.swap", ["Release"]), ("last.store", ["Release"]), ("current.store", ["Release"]),
           ("updates.fetch_add", ["Relaxed"])] := by decide

/-- SOURCE FACT: the aggregation timestamp is in SECONDS since the epoch (what DogStatsD's `|T` field takes) -/
theorem src_timestamp_unit : Generated.agg_ts_unit = "as_secs" := by decide

/-! ### what was wrong before the fixes (kernel-evaluated witnesses on the `legacy` decision) -/

/-- legacy idle logic: an increment split around a flush while the key is idle — its delta is computed and
    DISCARDED (the 5 is never sent), and later the zero goes out twice -/
theorem legacy_loses_delta_and_repeats_zero :
    let s := run (init true [[.inc 5], [.flush, .flush, .flush, .flush]])
      [0, 1, 1, 1, 1, 0, 0, 1, 1, 1, 0, 1, 1, 1, 1, 1, 1]
    s.outcomes.reverse = [(0, true), (5, false), (0, true), (0, true)] := by decide

/-- the same schedule on the fixed decision: the 5 is sent, then one zero, then nothing -/
theorem fixed_same_schedule :
    let s := run (init false [[.inc 5], [.flush, .flush, .flush, .flush]])
      [0, 1, 1, 1, 1, 0, 0, 1, 1, 1, 0, 1, 1, 1, 1, 1, 1]
    s.outcomes.reverse = [(0, true), (5, true), (0, true), (0, false)] := by decide

/-! ### known finding K-C10-abs-race: the first `absolute` racing a flush

`absolute(v)` on a counter in incremental mode stores `last := v` and then `current := v`; a flush between the
two stores loads the OLD `current` and swaps `last`, computing a wrapped delta of about 2^64. -/

theorem first_absolute_races_flush :
    let s := run (init false [[.abs 10], [.flush]]) [0, 1, 0, 0, 1, 1, 1, 0, 0]
    s.outcomes = [(M - 10, true)] := by decide

/-! ### absolute-only counters racing the flusher: exact OUTSIDE the K-C10-abs-race window

ONE updater thread (thread 0) calling `absolute` with non-decreasing values (`AbsNondec 0 prog`: absolute calls only,
values non-decreasing and below 2^64), ONE flusher (thread 1, `AllFlush fl`), EVERY schedule without a window step
(`absRaceCount … = 0`, Model/StatsdAgg.lean: no flush's (load `current`, swap `last`) pair overlaps the (`last` store,
`current` store) pair of the `absolute` that switches the counter into absolute mode).  Unlike the increment
identities these are exact in ℕ, not modulo 2^64: no delta wraps. -/

theorem le_sum_of_mem (l : List (Nat × Bool)) (o : Nat × Bool) (h : o ∈ l) : o.1 ≤ (l.map (·.1)).sum := by
  induction l with
  | nil => cases h
  | cons x r ih =>
    simp only [List.mem_cons] at h
    simp only [List.map_cons, List.sum_cons]
    rcases h with rfl | h
    · omega
    · have := ih h; omega

theorem AInv_bounds {prog : List Call} {s : Sys} {mid : Bool} (h : AInv prog s mid) :
    Dall s ≤ s.current ∧ s.current < M := by
  obtain ⟨tu, tf, _, _, hph⟩ := h
  rcases hph with ⟨_, h0⟩ | ⟨_, h1⟩ | ⟨_, h2⟩
  · rw [h0.d, h0.cur]; exact ⟨Nat.le_refl _, M_pos⟩
  · rw [h1.d, h1.cur]; exact ⟨Nat.le_refl _, M_pos⟩
  · refine ⟨?_, h2.curlt⟩
    have hf := h2.fl
    unfold FlRel at hf
    cases hp : tf.pc <;> simp only [hp] at hf <;> omega

/-- **no wrapped delta outside the window**: every delta any flush computed is at most the value `current` holds
    (one of the values passed to `absolute`, or 0), in every schedule without a window step — "no single delta
    exceeds what was actually added".  (Inside the window a flush sends about 2^64: `first_absolute_races_flush`.) -/
theorem abs_no_wrapped_delta_outside_window (prog fl : List Call) (hnd : AbsNondec 0 prog) (hfl : AllFlush fl)
    (sched : List Nat) (hw : absRaceCount (init false [prog, fl]) false sched = 0) :
    let s := run (init false [prog, fl]) sched
    s.current < M ∧ ∀ o ∈ s.outcomes, o.1 ≤ s.current := by
  intro s
  obtain ⟨mid, h⟩ := abs_reachable prog fl hnd hfl sched hw
  have hb := AInv_bounds h
  refine ⟨hb.2, fun o ho => ?_⟩
  have := le_sum_of_mem _ o ho
  unfold Dall at hb
  exact Nat.le_trans this hb.1

/-- **the deltas sent add up to (value at the last flush) − (first value), exactly, outside the window**: whenever
    the flusher is between two flushes, either nothing has been stored into `current` yet and every delta sent was 0,
    or (sum of the deltas written) + (first absolute value) = `last` (the value the latest flush loaded) ≤ `current`;
    what is missing, `current − last`, is what the next flush computes. -/
theorem abs_deltas_sum_outside_window (prog fl : List Call) (hnd : AbsNondec 0 prog) (hfl : AllFlush fl)
    (sched : List Nat) (hw : absRaceCount (init false [prog, fl]) false sched = 0)
    (hr : FlusherResting 1 (run (init false [prog, fl]) sched)) :
    let s := run (init false [prog, fl]) sched
    (s.current = 0 ∧ sentSum s = 0) ∨ (sentSum s + firstVal prog = s.last ∧ s.last ≤ s.current) := by
  intro s
  obtain ⟨mid, tu, tf, hthr, hc, hph⟩ := abs_reachable prog fl hnd hfl sched hw
  have hs : sentSum s = Dall s := sum_sent_eq_all _ hc.rule
  have hrest := hr tf (by show s.threads[1]? = some tf; rw [hthr]; rfl)
  rw [hs]
  rcases hph with ⟨_, h0⟩ | ⟨_, h1⟩ | ⟨_, h2⟩
  · exact Or.inl ⟨h0.cur, h0.d⟩
  · exact Or.inl ⟨h1.cur, h1.d⟩
  · exact Or.inr ((FlRel.plain hrest.1 hrest.2).mp h2.fl)

/-- the same once every call has finished (`v1` = the first absolute value): the deltas sent add up to the value the
    last flush saw minus the first value -/
theorem abs_deltas_sum_at_quiescence (v1 : Nat) (rest fl : List Call) (hnd : AbsNondec 0 (.abs v1 :: rest))
    (hfl : AllFlush fl) (sched : List Nat) (hw : absRaceCount (init false [.abs v1 :: rest, fl]) false sched = 0)
    (hq : ∀ t ∈ (run (init false [.abs v1 :: rest, fl]) sched).threads, t.pc = .done) :
    let s := run (init false [.abs v1 :: rest, fl]) sched
    sentSum s + v1 = s.last ∧ s.last ≤ s.current ∧ s.current < M := by
  intro s
  obtain ⟨mid, tu, tf, hthr, hc, hph⟩ := abs_reachable _ fl hnd hfl sched hw
  have hs : sentSum s = Dall s := sum_sent_eq_all _ hc.rule
  have hu : tu.pc = .done := hq tu (by show tu ∈ s.threads; rw [hthr]; simp)
  have hf : tf.pc = .done := hq tf (by show tf ∈ s.threads; rw [hthr]; simp)
  rw [hs]
  rcases hph with ⟨_, h0⟩ | ⟨_, h1⟩ | ⟨_, h2⟩
  · have := hc.udone hu
    rw [h0.calls] at this; cases this
  · rw [h1.pc] at hu; cases hu
  · have := (FlRel.plain (by rw [hf]; simp) (by rw [hf]; simp)).mp h2.fl
    exact ⟨this.1, this.2, h2.curlt⟩

/-- the window predicate flags the known finding and nothing before it: the schedule of `first_absolute_races_flush`
    contains exactly ONE window step (the flusher's load of `current`, taken while the updater sits between its `last`
    store and its `current` store), so the hypothesis of the three theorems above is needed; the corpus schedule of
    the harness with two absolutes and two flushes contains none -/
theorem first_absolute_race_is_window :
    absRaceCount (init false [[.abs 10], [.flush]]) false [0, 1, 0, 0, 1, 1, 1, 0, 0] = 1
    ∧ absRaceCount (init false [[.abs 10], [.flush]]) false [0, 1, 0, 0] = 0
    ∧ absRaceCount (init false [[.abs 10, .abs 25], [.flush, .flush]]) false
        [0, 1, 0, 0, 0, 0, 1, 1, 1, 0, 0, 0, 1, 1, 1] = 0 := by decide

/-- the other way into the window: the `last` store lands between a flush's load and its swap -/
theorem first_absolute_race_other_entry :
    let sched := [0, 1, 0, 1, 0, 1, 1, 0, 0]
    absRaceCount (init false [[.abs 10], [.flush]]) false sched = 1
    ∧ (run (init false [[.abs 10], [.flush]]) sched).outcomes = [(M - 10, true)] := by decide

/-- non-vacuity: a flush loads between two absolutes, another one after the last; no window step; the deltas are
    10 − 10 and 25 − 10 -/
example :
    let progs : List (List Call) := [[.abs 10, .abs 25], [.flush, .flush]]
    let sched := [0, 1, 0, 0, 0, 0, 1, 1, 1, 0, 0, 0, 1, 1, 1]
    let s := run (init false progs) sched
    AbsNondec 0 [.abs 10, .abs 25] ∧ absRaceCount (init false progs) false sched = 0
    ∧ (∀ t ∈ s.threads, t.pc = .done) ∧ sent s = [0, 15] ∧ s.last = 25 := by
  refine ⟨⟨by omega, by decide, by omega, by decide, trivial⟩, by decide, by decide, by decide, by decide⟩

/-! ### absolute values that DECREASE: "no single delta exceeds what was actually added" is false of the code

`absolute(v)` in absolute mode is a plain `current.store(v)` (`src_shape`: `current.store`, not `fetch_max`); a flush computes
`current.wrapping_sub(last)`.  When the value flushed is smaller than the one flushed before, the delta wraps: the agent is
told the counter grew by about 2^64 although nothing was added.  (`CounterFn::absolute`'s contract: "a caller attempts to
set an older (smaller) value after the counter has been updated to the latest (larger) value. This method must cope with
those cases."  `metrics::atomics`' own `AtomicU64` copes with `fetch_max`; this `AtomicCounter` does not.)
The SUM identity survives (mod 2^64) for arbitrary values: `abs_only_telescopes` has no monotonicity hypothesis. -/

/-- one sequential flush of an absolute-mode counter: the delta it sends is at most the value it flushed — i.e. it did
    not wrap — EXACTLY WHEN the value did not decrease since the previous flush -/
theorem abs_flush_delta_le_iff (last cur : Nat) (hl : last < M) (hc : cur < M) :
    (cur + M - last) % M ≤ cur ↔ last ≤ cur := by
  simp only [M] at *
  omega

/-- …and when it did decrease, the delta sent is `2^64 − (decrease)`: larger than every value ever passed in -/
theorem abs_flush_decrease_wraps (last cur : Nat) (hl : last < M) (h : cur < last) :
    (cur + M - last) % M = M - (last - cur) ∧ cur < (cur + M - last) % M := by
  simp only [M] at *
  omega

/-- deltas sent by a sequential history of complete calls on a fresh counter -/
def seqDeltas (calls : List Call) : List Nat := (seqAbs calls (false, 0, 0, [])).2.2.2

/-- the largest value passed to `absolute` -/
def maxAbs : List Call → Nat
  | [] => 0
  | .abs v :: r => max v (maxAbs r)
  | _ :: r => maxAbs r

/-- absolute / flush calls only, values below 2^64 -/
def AbsFlushOnly (calls : List Call) : Prop :=
  ∀ c ∈ calls, match c with | .abs v => v < M | .flush => True | .inc _ => False

/-- **KNOWN FINDING K-C10-abs-decreasing (witness)**: `absolute(100); flush; absolute(40); flush` — the second flush sends
    2^64 − 60.  Replayed on the real code by the harness corpus (`agg run 0 a100+a40,f+f 0.0.0.0.0.1.1.1.1.0.0.0.1.1.1`
    and stream B's sequential histories). -/
theorem abs_decreasing_wraps_witness :
    seqDeltas [.abs 100, .flush, .abs 40, .flush] = [0, M - 60] := by decide

/-- no flush is needed between the two values: `absolute(24); absolute(0); flush` sends 2^64 − 24 (the mode-switching
    `absolute` stored `last := 24`).  Found by the generator on the real code (stream A, seed 1, case 106). -/
theorem abs_decreasing_wraps_witness_no_flush_between :
    seqDeltas [.abs 24, .abs 0, .flush] = [M - 24] := by decide

/-- **the clause "no single delta exceeds what was actually added" at full strength is FALSE of the code** for
    absolute-only counters (sequential histories suffice): not every delta is bounded by the largest value ever set -/
theorem abs_no_delta_exceeds_added_fails :
    ¬ (∀ calls : List Call, AbsFlushOnly calls → ∀ d ∈ seqDeltas calls, d ≤ maxAbs calls) := by
  intro h
  have := h [.abs 100, .flush, .abs 40, .flush] (by intro c hc; simp at hc; rcases hc with rfl | rfl | rfl | rfl <;> simp [M])
    (M - 60) (by rw [abs_decreasing_wraps_witness]; simp)
  simp [maxAbs, M] at this

/-- sequential histories of `absolute`/`flush` whose values never decrease (starting at `lo`) -/
def SeqNondec : Nat → List Call → Prop
  | _, [] => True
  | lo, .abs v :: r => lo ≤ v ∧ v < M ∧ SeqNondec v r
  | lo, .flush :: r => SeqNondec lo r
  | _, .inc _ :: _ => False

/-- **the provable part (sequential)**: when the values never decrease, no delta wraps — every delta any flush sends is at
    most the value the counter holds, `last ≤ current` throughout, and each flush sends exactly `current − last`.
    (Racing the flusher: `abs_no_wrapped_delta_outside_window`.) -/
theorem abs_no_delta_exceeds_added_partial (calls : List Call) : ∀ (last cur : Nat) (ds : List Nat),
    SeqNondec cur calls → last ≤ cur → cur < M → (∀ d ∈ ds, d ≤ cur) →
    let r := seqAbs calls (true, last, cur, ds)
    (∀ d ∈ r.2.2.2, d ≤ r.2.2.1) ∧ r.2.1 ≤ r.2.2.1 ∧ r.2.2.1 < M := by
  induction calls with
  | nil => intro last cur ds _ hl hc hd; exact ⟨hd, hl, hc⟩
  | cons c rest ih =>
    intro last cur ds hn hl hc hd
    cases c with
    | inc n => exact hn.elim
    | abs v =>
      obtain ⟨h1, h2, h3⟩ := hn
      simp only [seqAbs, if_true]
      rw [Nat.mod_eq_of_lt h2]
      exact ih last v ds h3 (Nat.le_trans hl h1) h2 (fun d hdm => Nat.le_trans (hd d hdm) h1)
    | flush =>
      simp only [seqAbs]
      refine ih cur cur _ hn (Nat.le_refl _) hc ?_
      intro d hdm
      simp only [List.mem_append, List.mem_singleton] at hdm
      rcases hdm with hdm | rfl
      · exact hd d hdm
      · exact (abs_flush_delta_le_iff last cur (Nat.lt_of_le_of_lt hl hc) hc).mpr hl

/-- the same finding on the step machine, in a schedule WITHOUT any K-C10-abs-race window step: the hypothesis
    `AbsNondec` of `abs_no_wrapped_delta_outside_window` cannot be dropped -/
theorem abs_decreasing_wraps_outside_window :
    let progs : List (List Call) := [[.abs 100, .abs 40], [.flush, .flush]]
    let sched := [0, 0, 0, 0, 0, 1, 1, 1, 1, 0, 0, 0, 1, 1, 1]
    absRaceCount (init false progs) false sched = 0
    ∧ (run (init false progs) sched).outcomes = [(M - 60, true), (0, true)]
    ∧ (∀ t ∈ (run (init false progs) sched).threads, t.pc = .done) := by decide

/-! ### idle bookkeeping per key: many keys (also keys sharing a name), rejected writes -/

theorem contains_congr {a b : List Nat} {k : Nat} (h : k ∈ a ↔ k ∈ b) : a.contains k = b.contains k := by
  rw [Bool.eq_iff_iff]; simpa using h

/-- a visit of ANOTHER key leaves `is_counter_idle(k)` unchanged -/
theorem visit_other (idle : List Nat) (k k' delta : Nat) (ok : Bool) (h : k' ≠ k) :
    (visit idle k' delta ok).1.contains k = idle.contains k := by
  unfold visit
  split
  · split
    · rfl
    · apply contains_congr; simp [Ne.symm h]
  · apply contains_congr; simp [List.mem_filter, Ne.symm h]

/-- a visit of `k` itself decides exactly like the one-key machine, and leaves the mark the one-key machine leaves -/
theorem visit_same (idle : List Nat) (k delta : Nat) (ok : Bool) :
    (visit idle k delta ok).2.1 = (StatsdAgg.decide false (idle.contains k) delta 0).1
    ∧ (visit idle k delta ok).2.2 = ((StatsdAgg.decide false (idle.contains k) delta 0).1 && ok)
    ∧ (visit idle k delta ok).1.contains k = (StatsdAgg.decide false (idle.contains k) delta 0).2 := by
  unfold visit StatsdAgg.decide
  cases hd : (delta == 0) <;> cases hc : idle.contains k <;> simp_all [List.mem_filter]

/-- **the idle set is per key**: whatever other keys are visited in between (any number, any deltas, any write results —
    including keys with the same NAME and other labels, which are other ids), the decisions and messages for key `k` over
    any number of flushes are exactly those of the one-key machine run on `k`'s own deltas.  Hence every one-key theorem
    (`zero_once`, `nonzero_delta_always_sent`) holds for each key of a many-key state. -/
theorem idle_bookkeeping_per_key (k : Nat) (vs : List Visit) : ∀ (idle : List Nat),
    ((visits idle vs).filter (fun o => o.1 == k)).map (fun o => (o.2.1, o.2.2.1, o.2.2.2))
      = oneKey (idle.contains k) ((vs.filter (fun v => v.k == k)).map (fun v => (v.delta, v.ok))) := by
  induction vs with
  | nil => intro idle; rfl
  | cons v r ih =>
    intro idle
    by_cases hk : v.k = k
    · have hs := visit_same idle k v.delta v.ok
      simp only [visits, hk, List.filter_cons, beq_self_eq_true, if_true, List.map_cons, oneKey]
      rw [ih, hs.2.2, hs.1, hs.2.1]
    · have hb : (v.k == k) = false := by simpa using hk
      simp only [visits, List.filter_cons, hb, Bool.false_eq_true, if_false]
      rw [ih, visit_other idle k v.k v.delta v.ok hk]

/-- SOURCE FACT: the counter loop of `State::flush` is the `visit` of the model — `counter.flush()` first (which swaps
    `last`), then the idle test / mark / clear, and the `write_counter` LAST (so a rejected write changes neither); the idle
    set is a set of whole `Key`s (name and labels), and its three functions are `insert` / `remove` / `contains` of the key
    itself -/
theorem src_idle_set :
    Generated.agg_state_counter_loop_calls
        = ["counter.flush", "is_counter_idle", "mark_counter_as_idle", "clear_counter_idle", "write_counter"]
    ∧ Generated.agg_idle_set_type = "HashSet<Key>"
    ∧ Generated.agg_idle_fns = ["{self.idle_counters.insert(key);}", "{self.idle_counters.remove(key);}",
        "{self.idle_counters.contains(key)}"] := by decide

/-- forward form of "zero exactly once": a decision is "skip" iff this delta and the previous one are both zero -/
def ZeroOnce : Bool → List (Nat × Bool × Bool) → Prop
  | _, [] => True
  | prevZero, (d, dec, _) :: r => dec = !(d == 0 && prevZero) ∧ ZeroOnce (d == 0) r

theorem oneKey_zero_once (ds : List (Nat × Bool)) : ∀ idle, ZeroOnce idle (oneKey idle ds) := by
  induction ds with
  | nil => intro _; trivial
  | cons x r ih =>
    intro idle
    obtain ⟨d, ok⟩ := x
    simp only [oneKey, ZeroOnce]
    have h2 : (StatsdAgg.decide false idle d 0).2 = (d == 0) := by
      unfold StatsdAgg.decide; cases hd : (d == 0) <;> cases idle <;> simp
    have h1 : (StatsdAgg.decide false idle d 0).1 = !(d == 0 && idle) := by
      unfold StatsdAgg.decide; cases hd : (d == 0) <;> cases idle <;> simp
    rw [h2]; exact ⟨h1, ih _⟩

/-- **zero exactly once, per key, in a many-key state** (decisions; from a fresh `FlushState`) -/
theorem multi_key_zero_once (k : Nat) (vs : List Visit) :
    ZeroOnce false (((visits [] vs).filter (fun o => o.1 == k)).map (fun o => (o.2.1, o.2.2.1, o.2.2.2))) := by
  rw [idle_bookkeeping_per_key]; exact oneKey_zero_once _ _

/-- accounting with rejected writes: a message goes out only if it was decided; what the messages carry plus what the
    rejected writes carried is everything the flushes computed (a skipped delta is zero) -/
theorem oneKey_accounting (ds : List (Nat × Bool)) : ∀ idle,
    (∀ o ∈ oneKey idle ds, o.2.2 = true → o.2.1 = true)
    ∧ (((oneKey idle ds).filter (·.2.2)).map (·.1)).sum
        + (((oneKey idle ds).filter (fun o => o.2.1 && !o.2.2)).map (·.1)).sum = (ds.map (·.1)).sum := by
  induction ds with
  | nil => intro _; exact ⟨(by intro o ho; cases ho), rfl⟩
  | cons x r ih =>
    intro idle
    obtain ⟨d, ok⟩ := x
    have := ih (StatsdAgg.decide false idle d 0).2
    refine ⟨?_, ?_⟩
    · intro o ho
      simp only [oneKey, List.mem_cons] at ho
      rcases ho with rfl | ho
      · intro h; simp only [Bool.and_eq_true] at h; exact h.1
      · exact this.1 o ho
    · simp only [oneKey, List.filter_cons, List.map_cons, List.sum_cons]
      have h2 := this.2
      unfold StatsdAgg.decide at h2 ⊢
      cases hd : (d == 0) <;> cases idle <;> cases ok <;> simp [hd] at h2 ⊢ <;> try omega
      all_goals (have : d = 0 := by simpa using hd); subst this; omega

/-- if the writer accepts every line, messages = decisions (the model of the one-key theorems, where a decided send
    always goes out) -/
theorem oneKey_all_accepted (ds : List (Nat × Bool)) (h : ∀ x ∈ ds, x.2 = true) : ∀ idle,
    ∀ o ∈ oneKey idle ds, o.2.2 = o.2.1 := by
  induction ds with
  | nil => intro _ o ho; cases ho
  | cons x r ih =>
    intro idle o ho
    obtain ⟨d, ok⟩ := x
    have hok : ok = true := h (d, ok) (by simp)
    simp only [oneKey, List.mem_cons] at ho
    rcases ho with rfl | ho
    · simp [hok]
    · exact ih (fun x hx => h x (by simp [hx])) _ o ho

/-- **a rejected write loses its delta, and a rejected zero is never sent**: key 1's line is too long twice (delta 5, then
    the zero), then fits: the 5 is decided but no message carries it (`last` was already swapped: no later flush makes up
    for it), the zero is decided, rejected, the key is marked idle all the same, and the third flush — whose line would
    fit — skips it: "sent as zero exactly once" becomes "at most once".  Key 2 (same flushes) is unaffected. -/
theorem rejected_write_loses_delta_and_zero :
    visits [] [⟨1, 5, false⟩, ⟨2, 3, true⟩, ⟨1, 0, false⟩, ⟨2, 0, true⟩, ⟨1, 0, true⟩, ⟨2, 0, true⟩]
      = [(1, 5, true, false), (2, 3, true, true), (1, 0, true, false), (2, 0, true, true),
         (1, 0, false, false), (2, 0, false, false)] := by decide

/-- two keys sharing a name (ids 1 and 2) with one idle and the other active: the idle one's zero is sent once -/
example :
    visits [] [⟨1, 0, true⟩, ⟨2, 4, true⟩, ⟨1, 0, true⟩, ⟨2, 4, true⟩, ⟨1, 0, true⟩, ⟨2, 0, true⟩]
      = [(1, 0, true, true), (2, 4, true, true), (1, 0, false, false), (2, 4, true, true),
         (1, 0, false, false), (2, 0, true, true)] := by decide

/-! ### non-vacuity -/

example : IncFlush 2 [[.inc 3, .inc 4], [.inc 5], [.flush, .flush, .flush]] := by
  refine ⟨by decide, ?_⟩
  intro i p hi hp
  match i, hi, hp with
  | 0, _, hp => simp at hp; subst hp; decide
  | 1, _, hp => simp at hp; subst hp; decide
  | 2, hi, _ => exact absurd rfl hi
  | (n + 3), _, hp => simp at hp

example :
    let s := run (init false [[.inc 3, .inc 4], [.inc 5], [.flush, .flush, .flush]])
      [0, 1, 2, 0, 0, 2, 1, 1, 2, 2, 0, 0, 0, 0, 1, 2, 2, 2, 2, 2, 2, 0]
    sent s = [3, 9, 0] ∧ s.applied = 12 := by decide

end MetricsVerif.C10
