/-
C12 — idle metrics are dropped exactly when they were idle longer than the timeout.

All theorems are about `Model/Recency.lean` with `byKind = true` (the code of this tree, after
`fix-C12.patch`), for **all** operation sequences (register / update — also value-preserving — / clock
advance / observe), all keys and kinds, all masks and timeouts.  The shape is an invariant over operation
sequences that ties `Recency`'s entries to the history (`entry_history`), from which the statements of the
property follow.  `kinds_independent_legacy_false` keeps the defect of the code before the repair as a
kernel-checked witness.
-/
import MetricsVerif.Proofs.Recency
import MetricsVerif.Proofs.GenRace
import MetricsVerif.Proofs.PromIdle
import MetricsVerif.Proofs.IdleRace
import MetricsVerif.Generated.SourceFacts
import MetricsVerif.Proofs.SrcShapes

namespace MetricsVerif.C12
open MetricsVerif.Recency

/-- the metric is in the registry -/
def registered (s : St) (i : Id) : Prop := (lookup s.metrics i).isSome = true

instance (s : St) (i : Id) : Decidable (registered s i) := by unfold registered; infer_instance

/-- the state reached from a fresh `Recency` + `Registry` by a history -/
def after (cfg : Cfg) (ops : List Op) : St := run (init cfg) ops

/-- the operation is an update (not a mere registration) of metric `i` -/
def Op.updates (i : Id) : Op → Bool
  | .upd k key _ => decide ((k, key) = i)
  | _ => false

/-- the metric is registered in every state passed while running `ops` from `s` (start and end included) -/
def regAlong (i : Id) : St → List Op → Prop
  | s, [] => registered s i
  | s, op :: rest => registered s i ∧ regAlong i (step s op) rest

instance regAlong.dec (i : Id) : ∀ (s : St) (ops : List Op), Decidable (regAlong i s ops)
  | s, [] => by unfold regAlong; infer_instance
  | s, op :: rest => by
    unfold regAlong
    exact @instDecidableAnd _ _ _ (regAlong.dec i (step s op) rest)

/-- number of updates of `i` in a history -/
def updCount (i : Id) (ops : List Op) : Nat := (ops.filter (Op.updates i)).length

/-- **The history behind a `Recency` entry.**  `IdleSince cfg i ops t`: the history `ops` contains an
    observation, made at time `t`, that found `i` registered, and from that observation to the end of the
    history `i` was never updated and never left the registry. -/
def IdleSince (cfg : Cfg) (i : Id) (ops : List Op) (t : Nat) : Prop :=
  ∃ pre mid, ops = pre ++ Op.observe :: mid ∧ (after cfg pre).now = t ∧ registered (after cfg pre) i ∧
    regAlong i (step (after cfg pre) .observe) mid ∧ ∀ op ∈ mid, Op.updates i op = false

theorem wf_after (cfg : Cfg) (h : cfg.byKind = true) (ops : List Op) : WF (after cfg ops) :=
  wf_run _ _ (wf_init cfg h)

theorem after_cfg (cfg : Cfg) (ops : List Op) : (after cfg ops).cfg = cfg := by
  simp [after, run_cfg, init]

theorem after_snoc (cfg : Cfg) (ops : List Op) (op : Op) : after cfg (ops ++ [op]) = step (after cfg ops) op := by
  simp [after, run]

theorem after_append (cfg : Cfg) (a b : List Op) : after cfg (a ++ b) = run (after cfg a) b := by
  simp [after, run_append]

theorem registered_iff (s : St) (i : Id) : registered s i ↔ ∃ m, (view s i).1 = some m := by
  unfold registered view
  cases lookup s.metrics i <;> simp

theorem updCount_eq_zero (i : Id) (ops : List Op) : updCount i ops = 0 ↔ ∀ op ∈ ops, Op.updates i op = false := by
  simp [updCount, List.filter_eq_nil_iff]

theorem updCount_snoc (i : Id) (ops : List Op) (op : Op) :
    updCount i (ops ++ [op]) = updCount i ops + (if Op.updates i op then 1 else 0) := by
  unfold updCount
  rw [List.filter_append, List.length_append]
  by_cases h : Op.updates i op = true <;> simp [List.filter, h]

theorem regAlong_snoc (i : Id) (s : St) (ops : List Op) (op : Op) :
    regAlong i s (ops ++ [op]) ↔ regAlong i s ops ∧ registered (step (run s ops) op) i := by
  induction ops generalizing s with
  | nil => simp [regAlong, run]
  | cons o os ih =>
    simp only [List.cons_append, regAlong, ih, run, List.foldl_cons]
    exact and_assoc.symm

theorem regAlong_last (i : Id) (s : St) (ops : List Op) (h : regAlong i s ops) : registered (run s ops) i := by
  induction ops generalizing s with
  | nil => exact h
  | cons o os ih => exact ih _ h.2

/-! ## the invariant: entries are sound with respect to the history -/

/-- **Invariant.**  Whenever `Recency` holds an entry `(g, t)` for a metric, the history contains an
    observation at time `t` that saw the metric, the metric has stayed in the registry ever since, and its
    current generation is `g` plus the number of updates made after that observation.  In particular the
    metric is still registered, `g` is not ahead of its generation, and equal generations mean "no update
    since that observation". -/
theorem entry_history (cfg : Cfg) (hk : cfg.byKind = true) (i : Id) (ops : List Op) (g t : Nat)
    (h : (view (after cfg ops) i).2 = some (g, t)) :
    ∃ pre mid m, ops = pre ++ Op.observe :: mid ∧ (after cfg pre).now = t ∧ registered (after cfg pre) i ∧
      regAlong i (step (after cfg pre) .observe) mid ∧
      (view (after cfg ops) i).1 = some m ∧ m.gen = g + updCount i mid := by
  -- generalised over an accumulated history so that the induction can run left to right
  suffices H : ∀ (rest acc : List Op),
      (∀ g t, (view (after cfg acc) i).2 = some (g, t) →
        ∃ pre mid m, acc = pre ++ Op.observe :: mid ∧ (after cfg pre).now = t ∧ registered (after cfg pre) i ∧
          regAlong i (step (after cfg pre) .observe) mid ∧
          (view (after cfg acc) i).1 = some m ∧ m.gen = g + updCount i mid) →
      (∀ g t, (view (after cfg (acc ++ rest)) i).2 = some (g, t) →
        ∃ pre mid m, acc ++ rest = pre ++ Op.observe :: mid ∧ (after cfg pre).now = t ∧
          registered (after cfg pre) i ∧ regAlong i (step (after cfg pre) .observe) mid ∧
          (view (after cfg (acc ++ rest)) i).1 = some m ∧ m.gen = g + updCount i mid) by
    have := H ops [] (by intro g t h; simp [after, run, init, view] at h) g t (by simpa using h)
    simpa using this
  intro rest
  induction rest with
  | nil => intro acc hacc; simpa using hacc
  | cons op rest ih =>
    intro acc hacc
    have : acc ++ op :: rest = (acc ++ [op]) ++ rest := by simp
    rw [this]
    apply ih (acc ++ [op])
    -- one step
    intro g t hgt
    have hwf := wf_after cfg hk acc
    rw [after_snoc, view_step _ hwf, after_cfg] at hgt
    rw [after_snoc, view_step _ hwf, after_cfg]
    -- the view before the step
    generalize hv : view (after cfg acc) i = v at hgt hacc ⊢
    obtain ⟨vm, ve⟩ := v
    -- common continuation: the entry is unchanged by the step and the metric stays registered
    have keep : ∀ (vm' : Option Metric), opView cfg i (after cfg acc).now (vm, ve) op = (vm', ve) →
        (∀ m, vm = some m → ∃ m', vm' = some m' ∧
          m'.gen = m.gen + (if Op.updates i op then 1 else 0)) →
        ∃ pre mid m, acc ++ [op] = pre ++ Op.observe :: mid ∧ (after cfg pre).now = t ∧
          registered (after cfg pre) i ∧ regAlong i (step (after cfg pre) .observe) mid ∧
          (opView cfg i (after cfg acc).now (vm, ve) op).1 = some m ∧ m.gen = g + updCount i mid := by
      intro vm' hop hgen
      rw [hop] at hgt ⊢
      obtain ⟨pre, mid, m, rfl, ht, hr, hal, hm, hg⟩ := hacc g t hgt
      obtain ⟨m', hm', hg'⟩ := hgen m hm
      refine ⟨pre, mid ++ [op], m', by simp, ht, hr, ?_, hm', ?_⟩
      · rw [regAlong_snoc]
        refine ⟨hal, ?_⟩
        have : step (run (step (after cfg pre) .observe) mid) op = after cfg ((pre ++ Op.observe :: mid) ++ [op]) := by
          simp [after, run, List.foldl_append]
        rw [this, registered_iff, after_snoc, view_step _ hwf, after_cfg, hv, hop]
        exact ⟨m', hm'⟩
      · rw [updCount_snoc, hg', hg]; omega
    cases op with
    | reg k key =>
      by_cases e : (k, key) = i
      · apply keep (some (vm.getD (fresh i.1))) (by simp [opView, e])
        intro m hm; exact ⟨m, by simp [hm], by simp [Op.updates]⟩
      · apply keep vm (by simp [opView, e])
        intro m hm; exact ⟨m, hm, by simp [Op.updates]⟩
    | upd k key u =>
      by_cases e : (k, key) = i
      · apply keep (some ⟨(vm.getD (fresh i.1)).gen + 1, (vm.getD (fresh i.1)).val.apply u⟩) (by simp [opView, e])
        intro m hm; exact ⟨_, rfl, by simp [hm, Op.updates, e]⟩
      · apply keep vm (by simp [opView, e])
        intro m hm; exact ⟨m, hm, by simp [Op.updates, e]⟩
    | adv n =>
      apply keep vm (by simp [opView])
      intro m hm; exact ⟨m, hm, by simp [Op.updates]⟩
    | observe =>
      cases vm with
      | none =>
        apply keep none (by simp [opView, obsView])
        intro m hm; cases hm
      | some m =>
        simp only [opView] at hgt ⊢
        rcases obsView_cases cfg i.1 (after cfg acc).now m ve with ⟨ho, _⟩ | ⟨ho, _⟩ | ⟨ho, _⟩
        · apply keep (some m) (by simp [opView, ho])
          intro m' hm'; exact ⟨m', hm', by simp [Op.updates]⟩
        · -- refreshed (or first sighting): this very observation is the witness
          rw [ho] at hgt ⊢
          simp only [Option.some.injEq, Prod.mk.injEq] at hgt
          obtain ⟨rfl, rfl⟩ := hgt
          refine ⟨acc, [], m, rfl, rfl, ?_, ?_, rfl, by simp [updCount]⟩
          · rw [registered_iff, hv]; exact ⟨m, rfl⟩
          · simp only [regAlong]
            rw [registered_iff, view_step _ hwf, after_cfg, hv]
            simp only [opView, ho]; exact ⟨m, rfl⟩
        · rw [ho] at hgt; cases hgt

/-! ## dropped exactly when idle longer than the timeout -/

theorem now_le_run (s : St) (ops : List Op) : s.now ≤ (run s ops).now := by
  induction ops generalizing s with
  | nil => exact Nat.le_refl _
  | cons op ops ih =>
    refine Nat.le_trans ?_ (ih (step s op))
    rw [step_now]; cases op <;> simp

theorem regAlong_head (i : Id) (s : St) (ops : List Op) (h : regAlong i s ops) : registered s i := by
  cases ops with
  | nil => exact h
  | cons o os => exact h.1

/-- an entry whose generation is the metric's generation survives, unchanged, any stretch of history in which
    the metric is not updated and does not leave the registry -/
theorem idle_entry_stable (cfg : Cfg) (i : Id) (m : Metric) (t' : Nat)
    (mid : List Op) (s : St) (hwf : WF s) (hcfg : s.cfg = cfg)
    (hv : view s i = (some m, some (m.gen, t'))) (hreg : regAlong i s mid)
    (hno : ∀ op ∈ mid, Op.updates i op = false) : view (run s mid) i = (some m, some (m.gen, t')) := by
  induction mid generalizing s with
  | nil => exact hv
  | cons op rest ih =>
    have hreg' := regAlong_head i _ _ hreg.2
    have hop := hno op List.mem_cons_self
    have hstep : view (step s op) i = (some m, some (m.gen, t')) := by
      rw [view_step _ hwf, hcfg, hv]
      cases op with
      | reg k key => by_cases e : (k, key) = i <;> simp [opView, e]
      | upd k key u =>
        by_cases e : (k, key) = i
        · simp [Op.updates, e] at hop
        · simp [opView, e]
      | adv n => rfl
      | observe =>
        simp only [opView]
        rcases obsView_cases cfg i.1 s.now m (some (m.gen, t')) with ⟨ho, _⟩ | ⟨_, _, _, h⟩ | ⟨ho, _⟩
        · exact ho
        · rcases h with h | ⟨lg, lu, h, hne⟩
          · cases h
          · simp only [Option.some.injEq, Prod.mk.injEq] at h
            exact absurd h.1.symm hne
        · rw [registered_iff, view_step _ hwf, hcfg, hv] at hreg'
          simp only [opView, ho] at hreg'
          obtain ⟨_, h⟩ := hreg'; cases h
    exact ih (step s op) (wf_step s op hwf) (by rw [step_cfg, hcfg]) hstep hreg.2
      (fun o ho => hno o (List.mem_cons_of_mem _ ho))

/-- **dropped_iff.**  An observation removes a registered metric from the registry **iff** the metric's
    kind is covered by the idle timeout `T` and the history contains an earlier observation, made at a time
    `t` with `now − t > T` (strictly), that saw the metric, since which the metric was never updated
    (value-preserving updates count as updates) and never left the registry. -/
theorem dropped_iff (cfg : Cfg) (hk : cfg.byKind = true) (i : Id) (ops : List Op)
    (hreg : registered (after cfg ops) i) :
    ¬ registered (step (after cfg ops) .observe) i ↔
      ∃ T t, Covered cfg i.1 T ∧ IdleSince cfg i ops t ∧ T < (after cfg ops).now - t := by
  have hwf := wf_after cfg hk ops
  obtain ⟨m, hm⟩ := (registered_iff _ _).mp hreg
  have hview : view (after cfg ops) i = (some m, (view (after cfg ops) i).2) := by
    rw [← hm]
  constructor
  · intro hdrop
    rw [registered_iff, view_step _ hwf, after_cfg, hview] at hdrop
    simp only [opView] at hdrop
    rcases obsView_cases cfg i.1 (after cfg ops).now m (view (after cfg ops) i).2 with ⟨ho, _⟩ | ⟨ho, _⟩ | ⟨_, T, lu, hc, he, ht⟩
    · exact absurd ⟨m, by rw [ho]⟩ hdrop
    · exact absurd ⟨m, by rw [ho]⟩ hdrop
    · obtain ⟨pre, mid, m', hops, hnow, hr, hal, hm', hg⟩ := entry_history cfg hk i ops m.gen lu he
      rw [hm] at hm'
      cases hm'
      refine ⟨T, lu, hc, ⟨pre, mid, hops, hnow, hr, hal, ?_⟩, ht⟩
      exact (updCount_eq_zero i mid).mp (by omega)
  · rintro ⟨T, t, hc, ⟨pre, mid, hops, hnow, hr, hal, hno⟩, ht⟩
    -- the observation at `pre` leaves an entry (gen, lu) with lu ≤ t
    have hwfp := wf_after cfg hk pre
    obtain ⟨m0, hm0⟩ := (registered_iff _ _).mp hr
    have hr1 := regAlong_head i _ _ hal
    have hv1 : ∃ lu, lu ≤ t ∧ view (step (after cfg pre) .observe) i = (some m0, some (m0.gen, lu)) := by
      have hvp : view (after cfg pre) i = (some m0, (view (after cfg pre) i).2) := by rw [← hm0]
      rw [registered_iff, view_step _ hwfp, after_cfg, hvp] at hr1
      rw [view_step _ hwfp, after_cfg, hvp]
      simp only [opView] at hr1 ⊢
      rcases obsView_cases cfg i.1 (after cfg pre).now m0 (view (after cfg pre) i).2 with ⟨ho, h⟩ | ⟨ho, _⟩ | ⟨ho, _⟩
      · rcases h with h | h | ⟨T', lu, _, he, _⟩
        · rw [hc.1] at h; cases h
        · rw [hc.2] at h; cases h
        · refine ⟨lu, ?_, by rw [ho, he]⟩
          obtain ⟨pre0, mid0, _, hp, hn0, _⟩ := entry_history cfg hk i pre m0.gen lu he
          rw [← hnow, ← hn0, hp, after_append]
          exact now_le_run _ _
      · exact ⟨t, Nat.le_refl _, by rw [ho, hnow]⟩
      · rw [ho] at hr1; obtain ⟨_, h⟩ := hr1; cases h
    obtain ⟨lu, hlu, hv1⟩ := hv1
    have hstable := idle_entry_stable cfg i m0 lu mid (step (after cfg pre) .observe)
      (wf_step _ _ hwfp) (by rw [step_cfg, after_cfg]) hv1 hal hno
    have hrun : run (step (after cfg pre) .observe) mid = after cfg ops := by
      rw [hops]; simp [after, run, List.foldl_append]
    rw [hrun] at hstable
    rw [registered_iff, view_step _ hwf, after_cfg, hstable]
    simp only [opView]
    rw [obsView_expired cfg i.1 _ T m0 lu hc (by omega)]
    rintro ⟨_, h⟩; cases h

/-- **kept_within_timeout.**  If no earlier observation that saw the metric unchanged lies more than the
    timeout back (`now − t ≤ T` for every such `t`; exactly the timeout keeps), the observation keeps the
    metric with its full value and generation. -/
theorem kept_within_timeout (cfg : Cfg) (hk : cfg.byKind = true) (i : Id) (ops : List Op) (T : Nat)
    (hT : cfg.timeout = some T) (hreg : registered (after cfg ops) i)
    (hidle : ∀ t, IdleSince cfg i ops t → (after cfg ops).now - t ≤ T) :
    lookup (step (after cfg ops) .observe).metrics i = lookup (after cfg ops).metrics i := by
  have hwf := wf_after cfg hk ops
  obtain ⟨m, hm⟩ := (registered_iff _ _).mp hreg
  have hkeep : registered (step (after cfg ops) .observe) i := by
    apply Classical.byContradiction
    intro hdrop
    obtain ⟨T', t, hc, hi, ht⟩ := (dropped_iff cfg hk i ops hreg).mp hdrop
    have := hidle t hi
    rw [hc.1] at hT; cases hT; omega
  have hview : view (after cfg ops) i = (some m, (view (after cfg ops) i).2) := by rw [← hm]
  have h1 : (view (step (after cfg ops) .observe) i).1 = (view (after cfg ops) i).1 := by
    rw [registered_iff, view_step _ hwf, after_cfg, hview] at hkeep
    rw [view_step _ hwf, after_cfg, hview]
    simp only [opView] at hkeep ⊢
    rcases obsView_cases cfg i.1 (after cfg ops).now m (view (after cfg ops) i).2 with ⟨ho, _⟩ | ⟨ho, _⟩ | ⟨ho, _⟩
    · rw [ho]
    · rw [ho]
    · rw [ho] at hkeep; obtain ⟨_, h⟩ := hkeep; cases h
  exact h1

/-- **kept_if_updated.**  A metric updated (by any update, value-preserving or not) since the previous
    observation is kept by the next observation, with its full value and generation — whatever the clock did
    in between. -/
theorem kept_if_updated (cfg : Cfg) (hk : cfg.byKind = true) (k : Kind) (key : Key) (u : Upd)
    (pre mid : List Op) (hmid : ∀ op ∈ mid, op.target.isSome ∨ ∃ n, op = .adv n) :
    let s := after cfg (pre ++ Op.upd k key u :: mid)
    registered s (k, key) ∧ lookup (step s .observe).metrics (k, key) = lookup s.metrics (k, key) := by
  intro s
  -- after the update the entry's generation (if any) is behind the metric's
  let P : St → Prop := fun s => ∃ m, (view s (k, key)).1 = some m ∧ ∀ g t, (view s (k, key)).2 = some (g, t) → g < m.gen
  have h1 : P (after cfg (pre ++ [Op.upd k key u])) := by
    have hwf := wf_after cfg hk pre
    show ∃ m, _
    rw [after_snoc, view_step _ hwf, after_cfg]
    simp only [opView, if_true]
    refine ⟨_, rfl, ?_⟩
    intro g t hgt
    obtain ⟨_, mid0, m, _, _, _, _, hm, hg⟩ := entry_history cfg hk (k, key) pre g t hgt
    simp [hm, hg]; omega
  have h2 : ∀ (mid : List Op) (s : St), WF s → s.cfg = cfg → P s →
      (∀ op ∈ mid, op.target.isSome ∨ ∃ n, op = .adv n) → P (run s mid) := by
    intro mid
    induction mid with
    | nil => intro s _ _ h _; exact h
    | cons op rest ih =>
      intro s hwf hcfg hP hall
      apply ih (step s op) (wf_step s op hwf) (by rw [step_cfg, hcfg]) _ (fun o ho => hall o (List.mem_cons_of_mem _ ho))
      obtain ⟨m, hm, hlt⟩ := hP
      show ∃ m, _
      rw [view_step _ hwf, hcfg]
      generalize view s (k, key) = v at hm hlt
      obtain ⟨vm, ve⟩ := v
      simp only at hm hlt
      subst hm
      cases op with
      | reg k' key' => by_cases e : (k', key') = (k, key) <;> simp [opView, e] <;> exact hlt
      | upd k' key' u' =>
        by_cases e : (k', key') = (k, key)
        · simp only [opView, e, if_true, Option.getD_some]
          refine ⟨_, rfl, ?_⟩
          intro g t hgt
          exact Nat.lt_succ_of_lt (hlt g t hgt)
        · simp [opView, e]; exact hlt
      | adv n => exact ⟨m, rfl, hlt⟩
      | observe =>
        rcases hall .observe List.mem_cons_self with h | ⟨n, h⟩
        · simp [Op.target] at h
        · cases h
  have hs : s = run (after cfg (pre ++ [Op.upd k key u])) mid := by
    show after cfg _ = _
    rw [← after_append]; simp
  have hwfs : WF s := wf_after cfg hk _
  have hP : P s := by
    rw [hs]
    exact h2 mid _ (wf_after cfg hk _) (after_cfg _ _) h1 hmid
  obtain ⟨m, hm, hlt⟩ := hP
  refine ⟨(registered_iff _ _).mpr ⟨m, hm⟩, ?_⟩
  have hview : view s (k, key) = (some m, (view s (k, key)).2) := by rw [← hm]
  show (view (step s .observe) (k, key)).1 = (view s (k, key)).1
  rw [view_step _ hwfs, hview]
  simp only [opView]
  rcases obsView_cases s.cfg k s.now m (view s (k, key)).2 with ⟨ho, _⟩ | ⟨ho, _⟩ | ⟨_, T, lu, _, he, _⟩
  · rw [ho]
  · rw [ho]
  · exact absurd (hlt _ _ he) (Nat.lt_irrefl _)

/-- **never_dropped_outside_mask.**  A metric whose kind is not in the mask is never removed, however long
    it is idle. -/
theorem never_dropped_outside_mask (cfg : Cfg) (hk : cfg.byKind = true) (i : Id) (ops : List Op)
    (hmask : maskMatches cfg.mask i.1 = false) :
    lookup (step (after cfg ops) .observe).metrics i = lookup (after cfg ops).metrics i := by
  show (view (step (after cfg ops) .observe) i).1 = (view (after cfg ops) i).1
  rw [view_step _ (wf_after cfg hk ops), after_cfg]
  simp only [opView, obsView_outside_mask _ _ _ _ hmask]

/-- **never_dropped_without_timeout.**  Without an idle timeout an observation removes nothing: the whole
    registry is unchanged. -/
theorem never_dropped_without_timeout (cfg : Cfg) (hk : cfg.byKind = true) (i : Id) (ops : List Op)
    (hT : cfg.timeout = none) :
    lookup (step (after cfg ops) .observe).metrics i = lookup (after cfg ops).metrics i := by
  show (view (step (after cfg ops) .observe) i).1 = (view (after cfg ops) i).1
  rw [view_step _ (wf_after cfg hk ops), after_cfg]
  simp only [opView, obsView_no_timeout _ _ _ _ hT]

/-! ## a dropped metric comes back as a fresh series -/

/-- a drop removes the metric from the registry *and* its entry from `Recency` -/
theorem dropped_clears_entry (cfg : Cfg) (hk : cfg.byKind = true) (i : Id) (ops : List Op)
    (hreg : registered (after cfg ops) i) (hdrop : ¬ registered (step (after cfg ops) .observe) i) :
    view (step (after cfg ops) .observe) i = (none, none) := by
  have hwf := wf_after cfg hk ops
  obtain ⟨m, hm⟩ := (registered_iff _ _).mp hreg
  have hview : view (after cfg ops) i = (some m, (view (after cfg ops) i).2) := by rw [← hm]
  rw [registered_iff, view_step _ hwf, after_cfg, hview] at hdrop
  rw [view_step _ hwf, after_cfg, hview]
  simp only [opView] at hdrop ⊢
  rcases obsView_cases cfg i.1 (after cfg ops).now m (view (after cfg ops) i).2 with ⟨ho, _⟩ | ⟨ho, _⟩ | ⟨ho, _⟩
  · exact absurd ⟨m, by rw [ho]⟩ hdrop
  · exact absurd ⟨m, by rw [ho]⟩ hdrop
  · exact ho

/-- a metric that is neither registered nor tracked stays so as long as no operation is aimed at it -/
theorem absent_stable (cfg : Cfg) (i : Id) (mid : List Op) (s : St) (hwf : WF s) (hcfg : s.cfg = cfg)
    (hv : view s i = (none, none)) (hmid : ∀ op ∈ mid, op.target ≠ some i) : view (run s mid) i = (none, none) := by
  induction mid generalizing s with
  | nil => exact hv
  | cons op rest ih =>
    apply ih (step s op) (wf_step s op hwf) (by rw [step_cfg, hcfg]) _ (fun o ho => hmid o (List.mem_cons_of_mem _ ho))
    have hop := hmid op List.mem_cons_self
    rw [view_step _ hwf, hv]
    cases op with
    | reg k key =>
      have : ¬ (k, key) = i := fun e => hop (by simp [Op.target, e])
      simp [opView, this]
    | upd k key u =>
      have : ¬ (k, key) = i := fun e => hop (by simp [Op.target, e])
      simp [opView, this]
    | adv n => rfl
    | observe => rfl

/-- **fresh_after_drop.**  A metric dropped by an observation and later registered and emitted again
    (nothing aimed at it in between) reappears with generation 1 and the value of a brand-new metric after
    that one update — nothing of its former value survives — and the next observation keeps it. -/
theorem fresh_after_drop (cfg : Cfg) (hk : cfg.byKind = true) (k : Kind) (key : Key) (ops mid : List Op) (u : Upd)
    (hreg : registered (after cfg ops) (k, key))
    (hdrop : ¬ registered (step (after cfg ops) .observe) (k, key))
    (hmid : ∀ op ∈ mid, op.target ≠ some (k, key)) :
    let s := after cfg ((ops ++ Op.observe :: mid) ++ [Op.upd k key u])
    lookup s.metrics (k, key) = some ⟨1, (Val.zero k).apply u⟩ ∧
    lookup (step s .observe).metrics (k, key) = some ⟨1, (Val.zero k).apply u⟩ := by
  intro s
  have h0 := dropped_clears_entry cfg hk (k, key) ops hreg hdrop
  have hwf1 : WF (step (after cfg ops) .observe) := wf_step _ _ (wf_after cfg hk ops)
  have h1 := absent_stable cfg (k, key) mid _ hwf1 (by rw [step_cfg, after_cfg]) h0 hmid
  have hrun : run (step (after cfg ops) .observe) mid = after cfg (ops ++ Op.observe :: mid) := by
    simp [after, run, List.foldl_append]
  rw [hrun] at h1
  have hs : lookup s.metrics (k, key) = some ⟨1, (Val.zero k).apply u⟩ := by
    show (view s (k, key)).1 = _
    show (view (after cfg _) (k, key)).1 = _
    rw [after_snoc, view_step _ (wf_after cfg hk _), h1]
    simp [opView, fresh]
  refine ⟨hs, ?_⟩
  have := (kept_if_updated cfg hk k key u (ops ++ Op.observe :: mid) [] (by simp)).2
  rw [← hs]
  exact this

/-! ## kinds (and keys) are independent -/

/-- the operation concerns metric `i`: it is aimed at `i`, or it is global (clock advance, observation) -/
def Op.relevant (i : Id) (op : Op) : Bool :=
  match op.target with
  | some j => decide (j = i)
  | none => true

theorem noninterference_aux (cfg : Cfg) (i : Id) (ops : List Op) (s s' : St) (hwf : WF s) (hwf' : WF s')
    (hc : s.cfg = cfg) (hc' : s'.cfg = cfg) (hn : s.now = s'.now) (hv : view s i = view s' i) :
    view (run s ops) i = view (run s' (ops.filter (Op.relevant i))) i ∧
      (run s ops).now = (run s' (ops.filter (Op.relevant i))).now := by
  induction ops generalizing s s' with
  | nil => exact ⟨hv, hn⟩
  | cons op rest ih =>
    by_cases hr : Op.relevant i op = true
    · simp only [List.filter, hr]
      apply ih (step s op) (step s' op) (wf_step _ _ hwf) (wf_step _ _ hwf') (by rw [step_cfg, hc])
        (by rw [step_cfg, hc'])
      · rw [step_now, step_now, hn]
      · rw [view_step _ hwf, view_step _ hwf', hc, hc', hn, hv]
    · simp only [List.filter, hr]
      apply ih (step s op) s' (wf_step _ _ hwf) hwf' (by rw [step_cfg, hc]) hc'
      · rw [step_now, ← hn]
        cases op <;> simp [Op.relevant, Op.target] at hr ⊢
      · rw [view_step _ hwf, ← hv]
        cases op with
        | reg k key =>
          have : ¬ (k, key) = i := by simpa [Op.relevant, Op.target] using hr
          simp [opView, this]
        | upd k key u =>
          have : ¬ (k, key) = i := by simpa [Op.relevant, Op.target] using hr
          simp [opView, this]
        | adv n => simp [Op.relevant, Op.target] at hr
        | observe => simp [Op.relevant, Op.target] at hr

/-- **noninterference.**  What happens to a metric — registry entry, value, generation, `Recency` entry,
    hence every keep/drop decision — is determined by the operations aimed at it, the clock and the
    observations alone: all operations aimed at other metrics can be deleted from the history. -/
theorem noninterference (cfg : Cfg) (hk : cfg.byKind = true) (i : Id) (ops : List Op) :
    view (after cfg ops) i = view (after cfg (ops.filter (Op.relevant i))) i :=
  (noninterference_aux cfg i ops _ _ (wf_init cfg hk) (wf_init cfg hk) rfl rfl rfl rfl).1

/-- **kinds_independent.**  An operation on `(k₁, key)` never affects `(k₂, key)` for `k₁ ≠ k₂`: inserting it
    anywhere in any history leaves the other kind's metric under the same key exactly as it was.  (This is
    the statement that was false before `fix-C12.patch`: `kinds_independent_legacy_false`.) -/
theorem kinds_independent (cfg : Cfg) (hk : cfg.byKind = true) (k₁ k₂ : Kind) (key : Key) (hne : k₁ ≠ k₂)
    (op : Op) (hop : op.target = some (k₁, key)) (a b : List Op) :
    lookup (after cfg (a ++ op :: b)).metrics (k₂, key) = lookup (after cfg (a ++ b)).metrics (k₂, key) := by
  show (view (after cfg (a ++ op :: b)) (k₂, key)).1 = (view (after cfg (a ++ b)) (k₂, key)).1
  rw [noninterference cfg hk _ (a ++ op :: b), noninterference cfg hk _ (a ++ b)]
  have : Op.relevant (k₂, key) op = false := by simp [Op.relevant, hop, hne]
  simp [List.filter_append, List.filter, this]

/-- the history on which the code before the repair breaks independence: counter and gauge `same` -/
def legacyWitnessA : List Op := [.upd .counter ['s'] (.inc 5), .upd .gauge ['s'] (.set 1)]
def legacyWitnessB : List Op := [.observe, .upd .counter ['s'] (.inc 1), .adv 11, .observe]

/-- **The defect of the code before the repair**, kernel-evaluated: with `Recency` keyed by the key only, a
    second `set` of gauge `s` decides whether counter `s` — incremented since the previous observation —
    survives the next observation (it is deleted with its value 6). -/
theorem kinds_independent_legacy_false :
    let cfg : Cfg := { mask := 7, timeout := some 10, byKind := false }
    lookup (after cfg (legacyWitnessA ++ Op.upd .gauge ['s'] (.set 2) :: legacyWitnessB)).metrics (.counter, ['s']) = none ∧
    lookup (after cfg (legacyWitnessA ++ legacyWitnessB)).metrics (.counter, ['s']) = some ⟨2, .c 6⟩ := by
  decide

/-! ## non-vacuity -/

/-- the same history on the repaired model: the counter is kept with its full value either way -/
example :
    let cfg : Cfg := { mask := 7, timeout := some 10 }
    lookup (after cfg (legacyWitnessA ++ Op.upd .gauge ['s'] (.set 2) :: legacyWitnessB)).metrics (.counter, ['s']) = some ⟨2, .c 6⟩ ∧
    lookup (after cfg (legacyWitnessA ++ legacyWitnessB)).metrics (.counter, ['s']) = some ⟨2, .c 6⟩ := by
  decide

/-- exactly the timeout keeps, one tick more drops; the gauge (outside the mask) stays -/
example :
    let cfg : Cfg := { mask := 1, timeout := some 10 }
    let h := [Op.upd .counter ['a'] (.inc 3), .upd .gauge ['a'] (.set 4), .observe, .adv 10]
    registered (after cfg (h ++ [.observe])) (.counter, ['a']) ∧
    ¬ registered (after cfg (h ++ [.adv 1, .observe])) (.counter, ['a']) ∧
    registered (after cfg (h ++ [.adv 1000, .observe, .adv 1000, .observe])) (.gauge, ['a']) := by
  decide

/-- `dropped_iff`'s right-hand side is inhabited: an `IdleSince` witness with `now − t > T` -/
example :
    let cfg : Cfg := { mask := 7, timeout := some 10 }
    let ops := [Op.upd .counter ['a'] (.inc 3), .observe, .adv 5, .observe, .adv 6]
    registered (after cfg ops) (.counter, ['a']) ∧ IdleSince cfg (.counter, ['a']) ops 0 ∧
      10 < (after cfg ops).now - 0 ∧ ¬ registered (step (after cfg ops) .observe) (.counter, ['a']) := by
  refine ⟨by decide, ⟨[Op.upd .counter ['a'] (.inc 3)], [.adv 5, .observe, .adv 6], rfl, by decide, by decide,
    by decide, by decide⟩, by decide, by decide⟩

/-- a value-preserving update (`increment(0)`) keeps the metric alive; re-registration after a drop starts
    from zero -/
example :
    let cfg : Cfg := { mask := 7, timeout := some 10 }
    lookup (after cfg [Op.upd .counter ['a'] (.inc 3), .observe, .adv 11, .upd .counter ['a'] (.inc 0), .observe]).metrics
        (.counter, ['a']) = some ⟨2, .c 3⟩ ∧
    lookup (after cfg [Op.upd .counter ['a'] (.inc 3), .observe, .adv 11, .observe, .upd .counter ['a'] (.inc 2), .observe]).metrics
        (.counter, ['a']) = some ⟨1, .c 2⟩ := by
  decide

/-! ### updates racing an observation: the generation stamp never runs ahead of the value

`Recency` decides "unchanged since the last observation" from the generation alone.  That is sound under
concurrency only if an observation never pairs a generation with a value older than that generation — step
machine `Model/GenRace.lean` (updater: value write, then generation bump; observer: generation read, then value
read), any number of updaters and observers, EVERY interleaving. -/

open MetricsVerif.GenRace in
/-- every observation `(g, v)` recorded in any interleaving has `g ≤ v`: the value read already contains the
    first `g` updates, and nothing beyond what was applied -/
theorem stamp_never_ahead_of_value (updates observations : List Nat) (sched : List Nat)
    (o : Obs) (ho : o ∈ (GenRace.run (GenRace.init false updates observations) sched).obss) (p : Nat × Nat) (hp : p ∈ o.seen) :
    p.1 ≤ p.2 ∧ p.2 ≤ (GenRace.run (GenRace.init false updates observations) sched).applied :=
  (run_inv (total updates) sched _ (init_inv updates observations)).seen o ho p hp

open MetricsVerif.GenRace in
/-- once the updaters are done: an observation stamped with the final generation has read the final value — so a
    later observation that finds the generation unchanged may rightly conclude that nothing changed since -/
theorem final_stamp_means_final_value (updates observations : List Nat) (sched : List Nat)
    (hq : quiescent (GenRace.run (GenRace.init false updates observations) sched) = true)
    (o : Obs) (ho : o ∈ (GenRace.run (GenRace.init false updates observations) sched).obss) (p : Nat × Nat) (hp : p ∈ o.seen)
    (hg : p.1 = (GenRace.run (GenRace.init false updates observations) sched).gen) :
    p.2 = (GenRace.run (GenRace.init false updates observations) sched).applied
      ∧ (GenRace.run (GenRace.init false updates observations) sched).applied = total updates := by
  have hI := run_inv (total updates) sched _ (init_inv updates observations)
  obtain ⟨h1, h2⟩ := hI.seen o ho p hp
  obtain ⟨q1, q2⟩ := quiescent_sums _ hq
  have ha := hI.acct
  have hl := hI.left
  omega

/-- the order is what this rests on: with the generation bumped BEFORE the value write, one updater and one
    observer reach an observation stamped with the final generation that shows the old value -/
theorem bump_first_breaks :
    let s := GenRace.run (GenRace.init true [1] [1]) [0, 1, 1, 0]
    GenRace.quiescent s = true ∧ s.gen = 1 ∧ s.applied = 1 ∧ (s.obss.map (·.seen)) = [[(1, 0)]] := by decide

/-- non-vacuity: two updaters and an observer that reads between a value write and its generation bump -/
example :
    let s := GenRace.run (GenRace.init false [2, 1] [2]) [0, 2, 1, 2, 0, 1, 0, 0, 2, 2]
    GenRace.quiescent s = true ∧ (s.obss.map (·.seen)) = [[(0, 2), (3, 3)]] := by decide

/-- source facts (regenerated from /repo on every run): `with_increment` applies the closure and only then bumps
    the generation; the exporter reads the generation before the value, for counters and for gauges -/
theorem src_generation_order :
    Generated.gen_with_increment_steps = ["apply", "bump:fetch_add"]
    ∧ Generated.prom_counter_read_order = ["generation", "value:load"]
    ∧ Generated.prom_gauge_read_order = ["generation", "value:load"] := by decide


open MetricsVerif.Src in
/-- SOURCE FACT: the generation bump is a Release RMW and the exporter's generation read an Acquire load, so an
    observer that sees the bumped generation also sees the value update that preceded the bump -/
theorem src_generation_orderings :
    names Generated.shape_generational_with_increment = ["gen.fetch_add"]
    ∧ allRelease Generated.shape_generational_with_increment "gen.fetch_add" = true
    ∧ names Generated.shape_generational_get_generation = ["gen.load"]
    ∧ allAcquire Generated.shape_generational_get_generation "gen.load" = true := by decide

/-- SOURCE FACT: every update method of `Generational<T>` (the three `impl …Fn for Generational<T>` blocks) is
    exactly `self.with_increment(|x| x.<same method>(…))` — no method bumps the generation by hand (in another
    order) or skips the bump, and `record_many` is not overridden, so it is the trait's default `n × record`
    (the `recMany` operation of `Model/PromIdle.lean`, `Upd` of `Model/Recency.lean`). -/
theorem src_generational_update_methods :
    Generated.gen_update_methods =
      ["CounterFn.increment:with_increment:increment", "CounterFn.absolute:with_increment:absolute",
       "GaugeFn.increment:with_increment:increment", "GaugeFn.decrement:with_increment:decrement",
       "GaugeFn.set:with_increment:set", "HistogramFn.record:with_increment:record"] := by decide

/-- SOURCE FACT: the exporter derives the key of `distributions` the same way wherever it stores, shows or
    removes a series: every `key_to_parts` call of `recorder.rs` passes `Some(&self.global_labels)` (the single
    function `parts` of `Model/PromIdle.lean`; `prom_dropped_leaves_output` rests on the removal using it). -/
theorem src_prom_key_to_parts_uniform :
    Generated.prom_key_to_parts_defaults =
      ["Some(&self.global_labels)", "Some(&self.global_labels)", "Some(&self.global_labels)",
       "Some(&self.global_labels)"] := by decide

/-! ## the exporter: an expired histogram leaves the OUTPUT as well (`Model/PromIdle.lean`)

The Prometheus exporter keeps the drained samples of a histogram in its own map `distributions`, keyed by
`key_to_parts(key, Some(global_labels))`; the registry entry is only the not-yet-drained bucket.  What a
scrape shows for histograms is that map. -/

open MetricsVerif.PromIdle in
/-- **prom_base_sim.**  Whatever the exporter does (register, update, `record_many`, upkeep, render), its
    registry and its `Recency` are in the state the `Recency` model reaches on the corresponding operations
    (`record_many(v, n)` = register + n × `record`; upkeep = nothing; render = one observation).  Hence every
    theorem above (`dropped_iff`, `kept_if_updated`, `kept_within_timeout`, `never_dropped_*`,
    `fresh_after_drop`) holds of the exporter's registry, for every `key_to_parts` and all global labels. -/
theorem prom_base_sim (parts : Key → DKey) (cfg : Cfg) (ops : List POp) :
    (prun parts (PromIdle.init cfg) ops).base = after cfg (ops.flatMap POp.toOps) :=
  prun_base parts _ ops

open MetricsVerif.PromIdle in
/-- **prom_dropped_leaves_output.**  In any state of the exporter: if a render removes a registered histogram
    from the registry (which happens exactly in the situation of `dropped_iff`), then after that render the
    exporter's `distributions` hold nothing under `key_to_parts(key)` — the histogram is gone from the scrape
    output, whatever the global labels, and whatever else shares its family.  Consequently a later
    re-registration starts from an absent distribution (`drainOne` then creates it from zero). -/
theorem prom_dropped_leaves_output (parts : Key → DKey) (ps : PSt) (hk : ps.base.cfg.byKind = true) (key : Key)
    (hreg : registered ps.base (.histogram, key))
    (hdrop : ¬ registered (PromIdle.render parts ps).base (.histogram, key)) :
    lookup (PromIdle.render parts ps).dists (parts key) = none := by
  have hn : lookup (PromIdle.render parts ps).base.metrics (Kind.histogram, key) = none := by
    unfold registered at hdrop
    cases h : lookup (PromIdle.render parts ps).base.metrics (Kind.histogram, key) with
    | none => rfl
    | some m => rw [h] at hdrop; exact absurd rfl hdrop
  -- the counter and gauge loops leave the histogram registered
  have h1 : lookup (drain parts (afterCG ps)).base.metrics (Kind.histogram, key) = lookup ps.base.metrics (.histogram, key) := by
    rw [drain_base]
    show (view (observeKind (observeKind ps.base .counter) .gauge) (.histogram, key)).1 = (view ps.base (.histogram, key)).1
    rw [view_observeKind_other _ (by rw [observeKind_cfg]; exact hk) .gauge _ (by simp),
        view_observeKind_other _ hk .counter _ (by simp)]
  exact foldl_visitH_drop parts _ (drain parts (afterCG ps)) (.histogram, key) (by rw [h1]; exact hreg) hn

/-- the same, for every history of the exporter from a fresh recorder -/
theorem prom_expired_histogram_leaves_output (parts : Key → PromIdle.DKey) (cfg : Cfg) (hk : cfg.byKind = true)
    (ops : List PromIdle.POp) (key : Key)
    (hreg : registered (PromIdle.prun parts (PromIdle.init cfg) ops).base (.histogram, key))
    (hdrop : ¬ registered (PromIdle.prun parts (PromIdle.init cfg) (ops ++ [.render])).base (.histogram, key)) :
    lookup (PromIdle.prun parts (PromIdle.init cfg) (ops ++ [.render])).dists (parts key) = none := by
  have e : PromIdle.prun parts (PromIdle.init cfg) (ops ++ [.render])
      = PromIdle.render parts (PromIdle.prun parts (PromIdle.init cfg) ops) := by
    simp [PromIdle.prun, PromIdle.pstep]
  rw [e] at hdrop ⊢
  apply prom_dropped_leaves_output parts _ _ key hreg hdrop
  rw [prom_base_sim, after_cfg]; exact hk

/-- all keys under one family / label set: what `key_to_parts` does to `hst.x` and `hst_x` -/
def collideParts : Key → PromIdle.DKey := fun _ => (['h'], [])

/-- **FINDING, kernel-evaluated (replayed on the real exporter by the harness: `prom-collision`).**
    `distributions` is keyed by the *sanitised* name, so two histograms whose `key_to_parts` coincide share
    one distribution.  When the idle one (`a`) expires, the shared distribution is removed although `b` is
    alive and was updated since the previous render: `b`'s full value is 3 samples summing to 8 (registry side,
    never dropped), the output shows 1 sample, sum 2.  So "kept with its full value" fails in the output for
    colliding names; `prom_dropped_leaves_output` (which needs no injectivity) is the part that holds. -/
theorem prom_collision_wipes_live :
    let cfg : Cfg := { mask := 4, timeout := some 2 }
    let ops : List PromIdle.POp :=
      [.upd .histogram ['a'] (.record 7), .upd .histogram ['b'] (.record 5), .render, .adv 3,
       .upd .histogram ['b'] (.record 1), .render, .upd .histogram ['b'] (.record 2), .render]
    let s := PromIdle.prun collideParts (PromIdle.init cfg) ops
    lookup s.base.metrics (.histogram, ['b']) = some ⟨3, .h 3 8⟩ ∧
    lookup s.dists (collideParts ['b']) = some (1, 2) := by
  decide

/-- non-vacuity (injective parts, a "global label" in every label set): the idle histogram is dropped and
    leaves the output; recorded again it shows the new sample only; `record_many(9, 0)` is not an update;
    a histogram drained by upkeep still expires -/
example :
    let cfg : Cfg := { mask := 7, timeout := some 2 }
    let parts : Key → PromIdle.DKey := fun k => (k, [['e', '=', 'p']])
    let h : List PromIdle.POp := [.upd .histogram ['a'] (.record 5), .recMany ['a'] 6 2, .upkeep, .render, .adv 3]
    lookup (PromIdle.prun parts (PromIdle.init cfg) (h ++ [.recMany ['a'] 9 0])).dists (parts ['a']) = some (3, 17) ∧
    registered (PromIdle.prun parts (PromIdle.init cfg) (h ++ [.recMany ['a'] 9 0])).base (.histogram, ['a']) ∧
    ¬ registered (PromIdle.prun parts (PromIdle.init cfg) (h ++ [.recMany ['a'] 9 0, .render])).base (.histogram, ['a']) ∧
    lookup (PromIdle.prun parts (PromIdle.init cfg) (h ++ [.render])).dists (parts ['a']) = none ∧
    lookup (PromIdle.prun parts (PromIdle.init cfg) (h ++ [.render, .upd .histogram ['a'] (.record 1), .render])).dists
      (parts ['a']) = some (1, 1) := by
  decide

/-! ## an update racing the idle deletion (`Model/IdleRace.lean`)

The clause "anything updated since the previous observation is kept with its full value", for updater threads racing
the observer at the granularity of the yield points.  `lost` counts the updates that can never reach the output any
more: updates of a storage cell not yet shown when the cell is deleted, and updates written to orphaned storage. -/

/-- the configuration of the witnesses: timeout 10, one update before the first render (at time 0), the race takes
    place at time 11; one updater making one update, one render -/
def raceCfg (fresh : Bool) : IdleRace.Cfg :=
  { timeout := some 10, covered := true, tick := 0, adv := 11, pre := 1, upds := [(fresh, 1)], renders := 1 }

/-- **FINDING, kernel-evaluated (replayed on the real exporter under the deterministic scheduler: `idle-race witness
    W1`).**  The full-strength clause is FALSE of the code, even when every update goes through a freshly obtained
    handle: the observer reads the generation (grant 1), a complete update — look-up, value write, generation bump —
    follows (grants 0 0 0), then the observer finds the generation it holds unchanged since an observation made more
    than the timeout ago and `Registry::delete_*` removes the storage without looking at its generation again
    (grants 1 1).  The update is lost: nothing is registered, and no later render shows it. -/
theorem idle_race_loses_update :
    let s := IdleRace.run (IdleRace.init (raceCfg true)) [1, 0, 0, 0, 1, 1]
    s.lost = 1 ∧ s.dirtyDrops = 1 ∧ s.orphanWrites = 0 ∧ s.reg = none ∧ s.obs.shown = [none]
    ∧ (s.upds.map (·.pc)) = [IdleRace.UPc.done]
    ∧ (IdleRace.observeQuiet s).obs.shown = [none, none] := by decide

/-- the negation of the full-strength statement, as a statement about all configurations and schedules -/
theorem idle_race_no_update_lost_false :
    ¬ (∀ (c : IdleRace.Cfg) (sched : List Nat), (∀ p ∈ c.upds, p.1 = true) →
        (IdleRace.run (IdleRace.init c) sched).lost = 0) := by
  intro h
  have := h (raceCfg true) [1, 0, 0, 0, 1, 1] (by decide)
  revert this
  decide

/-- **FINDING, kernel-evaluated (replayed: `idle-race witness W2`).**  No race is needed when a handle is kept across
    an idle drop: the observation deletes the idle metric (grants 1 1 1), the update through the handle obtained
    before goes to the orphaned storage (grants 0 0) and is never shown.  No update step lies inside the read→delete
    window of this schedule — which is why `idle_race_lossless_partial` is about freshly obtained handles. -/
theorem stale_handle_loses_update :
    let s := IdleRace.run (IdleRace.init (raceCfg false)) [1, 1, 1, 0, 0]
    s.lost = 1 ∧ s.dirtyDrops = 0 ∧ s.orphanWrites = 1 ∧ s.reg = none
    ∧ IdleRace.windowFree (IdleRace.init (raceCfg false)) [1, 1, 1, 0, 0] = true
    ∧ (IdleRace.observeQuiet s).obs.shown = [none, none] := by decide

/-- **idle_race_lossless_partial.**  For any timeout, mask, clock advances, number of updater threads, updates and
    renders, and EVERY schedule in which no update step lies inside a read→delete window of the observer (no updater
    is granted while the observer holds a generation on which `should_store` deletes or is on its way into
    `Registry::delete_*`, and no updater is between its value write and its generation bump when such a window
    opens): if every update goes through a freshly obtained handle, no update is lost — every deletion removes a
    storage cell all of whose updates have been shown, and no update is written to orphaned storage. -/
theorem idle_race_lossless_partial (c : IdleRace.Cfg) (hfresh : ∀ p ∈ c.upds, p.1 = true) (sched : List Nat)
    (hw : IdleRace.windowFree (IdleRace.init c) sched = true) :
    (IdleRace.run (IdleRace.init c) sched).lost = 0
    ∧ (IdleRace.run (IdleRace.init c) sched).dirtyDrops = 0
    ∧ (IdleRace.run (IdleRace.init c) sched).orphanWrites = 0 := by
  have h := IdleRace.run_lossless sched (IdleRace.init c) (IdleRace.init_inv c) (IdleRace.init_K c)
    (IdleRace.init_allFresh c hfresh) hw
  exact ⟨h.lost, h.dirty, h.orphan⟩

/-- **idle_race_never_due_lossless.**  Without a timeout, or for a kind outside the mask, no window ever opens: with
    freshly obtained handles no update is lost in ANY schedule. -/
theorem idle_race_never_due_lossless (c : IdleRace.Cfg) (hfresh : ∀ p ∈ c.upds, p.1 = true)
    (hn : c.timeout = none ∨ c.covered = false) (sched : List Nat) :
    (IdleRace.run (IdleRace.init c) sched).lost = 0 :=
  (idle_race_lossless_partial c hfresh sched
    (IdleRace.windowFree_of_neverDue sched _ (IdleRace.init_inv c) hn)).1

/-- **never_dropped_while_fresh_quiescent.**  In every state reachable under ANY schedule (kept handles included): a
    quiescent observation — no updater between its value write and its generation bump, nobody else moving while the
    observer runs — of a registered metric that has updates not yet shown keeps the metric and shows its full value;
    afterwards all its updates are shown, and nothing was lost. -/
theorem never_dropped_while_fresh_quiescent (c : IdleRace.Cfg) (sched : List Nat) (cell : Nat) :
    let s := IdleRace.run (IdleRace.init c) sched
    s.obs.pc = .idle → s.obs.todo ≠ 0 → s.reg = some cell → IdleRace.anyMid s = false → 0 < s.unshown cell →
    (IdleRace.stepObs (IdleRace.stepObs s)).obs.pc = .idle
    ∧ (IdleRace.stepObs (IdleRace.stepObs s)).reg = some cell
    ∧ (IdleRace.stepObs (IdleRace.stepObs s)).obs.shown = s.obs.shown ++ [some (s.val cell)]
    ∧ (IdleRace.stepObs (IdleRace.stepObs s)).unshown cell = 0
    ∧ (IdleRace.stepObs (IdleRace.stepObs s)).lost = s.lost := by
  intro s hidle htodo hreg hmid hfresh
  have h := IdleRace.quiet_keeps_fresh s (IdleRace.run_inv sched _ (IdleRace.init_inv c)) hidle htodo cell hreg hmid hfresh
  exact ⟨h.1, h.2.1, h.2.2.1, h.2.2.2.1, h.2.2.2.2.lost⟩

/-- **idle_race_invariant.**  In EVERY interleaving: whenever `Recency`'s entry carries the current generation of the
    registered storage and no updater is between its value write and its bump on it, every update written to that
    storage has been shown (so a deletion decided on that entry loses nothing); the stamp of the entry never exceeds
    the generation; and an observer on its way into `Registry::delete_*` has decided on an entry whose stamp is the
    generation it read. -/
theorem idle_race_invariant (c : IdleRace.Cfg) (sched : List Nat) :
    IdleRace.Inv (IdleRace.run (IdleRace.init c) sched) :=
  IdleRace.run_inv sched _ (IdleRace.init_inv c)

/-- non-vacuity of `idle_race_lossless_partial`: the same threads as in the witness, the update made before the
    observer reads the generation — kept and shown with its full value 2; and made after the deletion — the dropped
    series (last shown 1) is followed by a fresh one starting from zero (value 1) -/
example :
    IdleRace.windowFree (IdleRace.init (raceCfg true)) [0, 0, 0, 1, 1] = true
    ∧ (IdleRace.run (IdleRace.init (raceCfg true)) [0, 0, 0, 1, 1]).obs.shown = [some 2]
    ∧ IdleRace.windowFree (IdleRace.init (raceCfg true)) [1, 1, 1, 0, 0, 0, 0] = true
    ∧ (IdleRace.run (IdleRace.init (raceCfg true)) [1, 1, 1, 0, 0, 0, 0]).obs.shown = [none]
    ∧ (IdleRace.observeQuiet (IdleRace.run (IdleRace.init (raceCfg true)) [1, 1, 1, 0, 0, 0, 0])).obs.shown = [none, some 1]
    ∧ IdleRace.windowFree (IdleRace.init (raceCfg true)) [1, 0, 0, 0, 1, 1] = false := by decide

/-! ## the registry changed behind `Recency`'s back (`Registry::delete_*`, `Registry::clear`, a second observer's
stale handle snapshot): `Model/Recency.lean: XOp` -/

/-- the state reached by an extended history -/
def xafter (cfg : Cfg) (xs : List XOp) : St := xrun (init cfg) xs

/-- the extended operation can leave `Recency`'s entry for `i` out of step with the registry: an outside delete of
    `i`, a `clear`, or a second observer's `should_store_*` for `i` -/
def XOp.hits (i : Id) : XOp → Bool
  | .del k key => decide ((k, key) = i)
  | .clear => true
  | .stale k key _ => decide ((k, key) = i)
  | .base _ => false

theorem wf_xafter (cfg : Cfg) (h : cfg.byKind = true) (xs : List XOp) : WF (xafter cfg xs) :=
  wf_xrun _ _ (wf_init cfg h)

theorem xafter_cfg (cfg : Cfg) (xs : List XOp) : (xafter cfg xs).cfg = cfg := by
  simp [xafter, xrun_cfg, init]

theorem xafter_snoc (cfg : Cfg) (xs : List XOp) (x : XOp) : xafter cfg (xs ++ [x]) = xstep (xafter cfg xs) x := by
  simp [xafter, xrun]

/-- **orphan_entry_survives_delete.**  `Registry::delete_*` and `Registry::clear` called from outside remove the metric
    and leave `Recency`'s entry for it exactly as it was — in every (well-formed) state.  `Recency` offers no operation
    that forgets an entry, and an observation never visits a key that is not registered (`obsView_unregistered`), so
    the entry stays until the key is registered again. -/
theorem orphan_entry_survives_delete (s : St) (h : WF s) (i : Id) :
    view (xstep s (.del i.1 i.2)) i = (none, (view s i).2) ∧ view (xstep s .clear) i = (none, (view s i).2) ∧
    view (step (xstep s (.del i.1 i.2)) .observe) i = (none, (view s i).2) := by
  refine ⟨by rw [view_xstep _ h]; simp [xopView], by rw [view_xstep _ h]; simp [xopView], ?_⟩
  rw [view_step _ (wf_xstep _ _ h), view_xstep _ h]
  simp [xopView, opView, obsView]

theorem outside_ops_invisible_aux (cfg : Cfg) (i : Id) (xs : List XOp) (s s' : St) (hwf : WF s) (hwf' : WF s')
    (hc : s.cfg = cfg) (hc' : s'.cfg = cfg) (hn : s.now = s'.now) (hv : view s i = view s' i)
    (hx : ∀ x ∈ xs, XOp.hits i x = false) :
    view (xrun s xs) i = view (run s' (strip xs)) i ∧ (xrun s xs).now = (run s' (strip xs)).now := by
  induction xs generalizing s s' with
  | nil => exact ⟨hv, hn⟩
  | cons x rest ih =>
    have hrest : ∀ y ∈ rest, XOp.hits i y = false := fun y hy => hx y (List.mem_cons_of_mem _ hy)
    have hhit := hx x List.mem_cons_self
    cases x with
    | base op =>
      apply ih (xstep s (.base op)) (step s' op) (wf_xstep _ _ hwf) (wf_step _ _ hwf') (by rw [xstep_cfg, hc])
        (by rw [step_cfg, hc']) _ _ hrest
      · show (step s op).now = _
        rw [step_now, step_now, hn]
      · show view (step s op) i = _
        rw [view_step _ hwf, view_step _ hwf', hc, hc', hn, hv]
    | del k key =>
      apply ih (xstep s (.del k key)) s' (wf_xstep _ _ hwf) hwf' (by rw [xstep_cfg, hc]) hc' (by rw [xstep_now]; exact hn)
        _ hrest
      have : ¬ (k, key) = i := by simpa [XOp.hits] using hhit
      rw [view_xstep _ hwf, ← hv]; simp [xopView, this]
    | clear => simp [XOp.hits] at hhit
    | stale k key g =>
      apply ih (xstep s (.stale k key g)) s' (wf_xstep _ _ hwf) hwf' (by rw [xstep_cfg, hc]) hc'
        (by rw [xstep_now]; exact hn) _ hrest
      have : ¬ (k, key) = i := by simpa [XOp.hits] using hhit
      rw [view_xstep _ hwf, ← hv]; simp [xopView, this]

/-- **outside_ops_on_others_invisible.**  Outside deletes and second-observer visits aimed at OTHER metrics cannot be
    seen from metric `i`: in every extended history without a `clear`, an outside delete of `i` or a stale visit of
    `i`, the registry entry, value, generation and `Recency` entry of `i` (and the clock) are those of the history
    with these operations removed — so every theorem above (`dropped_iff`, `kept_within_timeout`, `kept_if_updated`,
    `fresh_after_drop`, …) holds for `i` in such histories. -/
theorem outside_ops_on_others_invisible (cfg : Cfg) (hk : cfg.byKind = true) (i : Id) (xs : List XOp)
    (hx : ∀ x ∈ xs, XOp.hits i x = false) :
    view (xafter cfg xs) i = view (after cfg (strip xs)) i ∧ (xafter cfg xs).now = (after cfg (strip xs)).now :=
  outside_ops_invisible_aux cfg i xs _ _ (wf_init cfg hk) (wf_init cfg hk) rfl rfl rfl rfl hx

/-- **dropped_iff_del_partial.**  `dropped_iff` for extended histories that never delete `i` from outside (deletes of
    other metrics, and second-observer visits of other metrics, anywhere). -/
theorem dropped_iff_del_partial (cfg : Cfg) (hk : cfg.byKind = true) (i : Id) (xs : List XOp)
    (hx : ∀ x ∈ xs, XOp.hits i x = false) (hreg : registered (xafter cfg xs) i) :
    ¬ registered (xstep (xafter cfg xs) (.base .observe)) i ↔
      ∃ T t, Covered cfg i.1 T ∧ IdleSince cfg i (strip xs) t ∧ T < (xafter cfg xs).now - t := by
  have h1 := outside_ops_on_others_invisible cfg hk i xs hx
  have h2 := outside_ops_on_others_invisible cfg hk i (xs ++ [.base .observe])
    (by intro x hxm; rcases List.mem_append.mp hxm with h | h
        · exact hx x h
        · simp at h; subst h; rfl)
  rw [xafter_snoc, strip_append] at h2
  have hs : strip [XOp.base Op.observe] = [Op.observe] := rfl
  rw [hs, after_snoc] at h2
  have hreg' : registered (after cfg (strip xs)) i := by
    unfold registered at hreg ⊢
    have : lookup (xafter cfg xs).metrics i = lookup (after cfg (strip xs)).metrics i := congrArg Prod.fst h1.1
    rw [← this]; exact hreg
  have := dropped_iff cfg hk i (strip xs) hreg'
  rw [← h1.2] at this
  rw [← this]
  have e : lookup (xstep (xafter cfg xs) (.base .observe)).metrics i
      = lookup (step (after cfg (strip xs)) .observe).metrics i := congrArg Prod.fst h2.1
  unfold registered
  rw [e]

/-- **kept_if_updated_del_partial.**  `kept_if_updated` for extended histories: a metric updated since the previous
    observation is kept with its full value and generation by the next observation, whatever else was deleted from
    outside — provided the history never removed THIS metric behind `Recency`'s back (no `clear`, no outside delete of
    it, no second-observer visit of it).  Without the proviso the statement is false: `kept_if_updated_del_false`. -/
theorem kept_if_updated_del_partial (cfg : Cfg) (hk : cfg.byKind = true) (k : Kind) (key : Key) (u : Upd)
    (pre mid : List XOp) (hpre : ∀ x ∈ pre, XOp.hits (k, key) x = false)
    (hmid : ∀ x ∈ mid, XOp.hits (k, key) x = false ∧ x ≠ .base .observe) :
    let s := xafter cfg (pre ++ XOp.base (.upd k key u) :: mid)
    registered s (k, key) ∧ lookup (xstep s (.base .observe)).metrics (k, key) = lookup s.metrics (k, key) := by
  intro s
  have hx : ∀ x ∈ pre ++ XOp.base (.upd k key u) :: mid, XOp.hits (k, key) x = false := by
    intro x hxm
    rcases List.mem_append.mp hxm with h | h
    · exact hpre x h
    · rcases List.mem_cons.mp h with h | h
      · subst h; rfl
      · exact (hmid x h).1
  have h1 := outside_ops_on_others_invisible cfg hk (k, key) _ hx
  have h2 := outside_ops_on_others_invisible cfg hk (k, key) ((pre ++ XOp.base (.upd k key u) :: mid) ++ [.base .observe])
    (by intro x hxm; rcases List.mem_append.mp hxm with h | h
        · exact hx x h
        · simp at h; subst h; rfl)
  rw [xafter_snoc, strip_append] at h2
  have hs : strip [XOp.base Op.observe] = [Op.observe] := rfl
  rw [hs, after_snoc] at h2
  have hst : strip (pre ++ XOp.base (.upd k key u) :: mid) = strip pre ++ Op.upd k key u :: strip mid := by
    rw [strip_append]; rfl
  rw [hst] at h1 h2
  have hmid' : ∀ op ∈ strip mid, op.target.isSome ∨ ∃ n, op = .adv n := by
    intro op hop
    have hm := (mem_strip op mid).mp hop
    have hne := (hmid _ hm).2
    cases op with
    | reg k' key' => left; rfl
    | upd k' key' u' => left; rfl
    | adv n => right; exact ⟨n, rfl⟩
    | observe => exact absurd rfl hne
  have hb := kept_if_updated cfg hk k key u (strip pre) (strip mid) hmid'
  have e1 : lookup s.metrics (k, key) = lookup (after cfg (strip pre ++ Op.upd k key u :: strip mid)).metrics (k, key) :=
    congrArg Prod.fst h1.1
  have e2 : lookup (xstep s (.base .observe)).metrics (k, key)
      = lookup (step (after cfg (strip pre ++ Op.upd k key u :: strip mid)) .observe).metrics (k, key) :=
    congrArg Prod.fst h2.1
  refine ⟨?_, ?_⟩
  · unfold registered; rw [e1]; exact hb.1
  · rw [e1, e2]; exact hb.2

/-- **never_dropped_uncovered_del.**  In EVERY extended history (outside deletes, clears and stale visits of the metric
    itself included): without a timeout, or for a kind outside the mask, no observation removes anything. -/
theorem never_dropped_uncovered_del (cfg : Cfg) (hk : cfg.byKind = true) (i : Id) (xs : List XOp)
    (h : cfg.timeout = none ∨ maskMatches cfg.mask i.1 = false) :
    lookup (xstep (xafter cfg xs) (.base .observe)).metrics i = lookup (xafter cfg xs).metrics i := by
  show (view (step (xafter cfg xs) .observe) i).1 = (view (xafter cfg xs) i).1
  rw [view_step _ (wf_xafter cfg hk xs), xafter_cfg]
  rcases h with h | h
  · simp only [opView, obsView_no_timeout _ _ _ _ h]
  · simp only [opView, obsView_outside_mask _ _ _ _ h]

/-- the history of the finding: one update, an observation (entry `(1, 0)`), the metric deleted from outside and
    created again by one update (generation 1 again), the clock past the timeout -/
def orphanHistory (k : Kind) (key : Key) (u u' : Upd) (T : Nat) : List XOp :=
  [.base (.upd k key u), .base .observe, .del k key, .base (.upd k key u'), .base (.adv (T + 1))]

/-- **orphan_entry_drops_updated_metric — FINDING (K-C12-orphan-entry).**  For EVERY timeout `T`, covered kind, key and
    updates: after `update; observe; Registry::delete_*; update; clock + (T+1)` the metric is registered as a brand-new
    series (generation 1, value = zero + the one update) that was created AND updated after the previous observation —
    and the next observation deletes it: the entry `(1, 0)` that outlived the outside delete carries the new storage's
    generation.  Replayed on the real `Recency` + `Registry` (harness corpus-del=0). -/
theorem orphan_entry_drops_updated_metric (cfg : Cfg) (hk : cfg.byKind = true) (T : Nat) (k : Kind) (key : Key)
    (u u' : Upd) (hc : Covered cfg k T) :
    let s := xafter cfg (orphanHistory k key u u' T)
    lookup s.metrics (k, key) = some ⟨1, (Val.zero k).apply u'⟩ ∧
    ¬ registered (xstep s (.base .observe)) (k, key) := by
  intro s
  have hview : view s (k, key) = (some ⟨1, (Val.zero k).apply u'⟩, some (1, 0)) ∧ s.now = T + 1 := by
    let s1 := xstep (init cfg) (.base (.upd k key u))
    let s2 := xstep s1 (.base .observe)
    let s3 := xstep s2 (.del k key)
    let s4 := xstep s3 (.base (.upd k key u'))
    let s5 := xstep s4 (.base (.adv (T + 1)))
    have w0 : WF (init cfg) := wf_init cfg hk
    have w1 : WF s1 := wf_xstep _ _ w0
    have w2 : WF s2 := wf_xstep _ _ w1
    have w3 : WF s3 := wf_xstep _ _ w2
    have w4 : WF s4 := wf_xstep _ _ w3
    have c1 : s1.cfg = cfg := xstep_cfg _ _
    have c2 : s2.cfg = cfg := (xstep_cfg _ _).trans c1
    have c3 : s3.cfg = cfg := (xstep_cfg _ _).trans c2
    have c4 : s4.cfg = cfg := (xstep_cfg _ _).trans c3
    have n1 : s1.now = 0 := rfl
    have n2 : s2.now = 0 := (xstep_now _ _).trans n1
    have n3 : s3.now = 0 := (xstep_now _ _).trans n2
    have n4 : s4.now = 0 := (xstep_now _ _).trans n3
    have n5 : s5.now = T + 1 := by
      have := xstep_now s4 (.base (.adv (T + 1)))
      simp only [n4] at this
      simpa using this
    have v0 : view (init cfg) (k, key) = (none, none) := by simp [view, init]
    have v1 : view s1 (k, key) = (some ⟨1, (Val.zero k).apply u⟩, none) := by
      show view (xstep (init cfg) _) _ = _
      rw [view_xstep _ w0, v0]; simp [xopView, opView, fresh]
    have v2 : view s2 (k, key) = (some ⟨1, (Val.zero k).apply u⟩, some (1, 0)) := by
      show view (xstep s1 _) _ = _
      rw [view_xstep _ w1, v1, n1, c1]
      simp only [xopView, opView]
      exact obsView_first cfg k 0 T _ hc
    have v3 : view s3 (k, key) = (none, some (1, 0)) := by
      show view (xstep s2 _) _ = _
      rw [view_xstep _ w2, v2]; simp [xopView]
    have v4 : view s4 (k, key) = (some ⟨1, (Val.zero k).apply u'⟩, some (1, 0)) := by
      show view (xstep s3 _) _ = _
      rw [view_xstep _ w3, v3]; simp [xopView, opView, fresh]
    have v5 : view s5 (k, key) = (some ⟨1, (Val.zero k).apply u'⟩, some (1, 0)) := by
      show view (xstep s4 _) _ = _
      rw [view_xstep _ w4, v4]; simp [xopView, opView]
    exact ⟨v5, n5⟩
  refine ⟨congrArg Prod.fst hview.1, ?_⟩
  rw [registered_iff]
  show ¬ ∃ m, (view (step s .observe) (k, key)).1 = some m
  rw [view_step _ (wf_xafter cfg hk _), xafter_cfg, hview.1, hview.2]
  simp only [opView]
  have := obsView_expired cfg k (T + 1) T ⟨1, (Val.zero k).apply u'⟩ 0 hc (by omega)
  rw [this]
  rintro ⟨_, h⟩; cases h

/-- **kept_if_updated_del_false.**  "A metric updated since the previous observation is always kept" is FALSE of the
    code once the public `Registry::delete_*` is part of the histories (the negation of `kept_if_updated_del_partial`
    without its proviso). -/
theorem kept_if_updated_del_false :
    ¬ ∀ (cfg : Cfg), cfg.byKind = true → ∀ (k : Kind) (key : Key) (u : Upd) (pre mid : List XOp),
      (∀ x ∈ mid, x ≠ .base .observe) →
      registered (xstep (xafter cfg (pre ++ XOp.base (.upd k key u) :: mid)) (.base .observe)) (k, key) := by
  intro h
  have hc : Covered ({ mask := 7, timeout := some 10 } : Cfg) .counter 10 := ⟨rfl, by decide⟩
  have := (orphan_entry_drops_updated_metric { mask := 7, timeout := some 10 } rfl 10 .counter ['a'] (.inc 1) (.inc 1) hc).2
  apply this
  exact h { mask := 7, timeout := some 10 } rfl .counter ['a'] (.inc 1)
    [.base (.upd .counter ['a'] (.inc 1)), .base .observe, .del .counter ['a']] [.base (.adv 11)]
    (by intro x hx; simp at hx; subst hx; intro e; cases e)

/-- the same through two overlapping renders of the shipped exporter, at loop-iteration granularity: R2 takes its
    handle snapshot; R1 (the observation) drops the idle metric and removes its entry; R2's iteration for the key calls
    `should_store_*` with the old handle's generation -/
def overlapHistory (k : Kind) (key : Key) (u u' : Upd) (T : Nat) : List XOp :=
  [.base (.upd k key u), .base .observe, .base (.adv (T + 1)), .base .observe, .stale k key 1,
   .base (.adv (T + 1)), .base (.upd k key u')]

/-- **overlapping_render_orphans_entry — FINDING (K-C12-orphan-entry, second route).**  Kernel-evaluated witness
    (timeout 10, counter): after R1 dropped the idle counter, R2's `should_store_counter` with the generation of its
    snapshot handle answers "keep" for a metric that is no longer registered and re-creates the entry `(1, 11)`; the
    counter registered and incremented anew at t = 22 is deleted by the next observation.  Without R2's visit it is
    kept. -/
theorem overlapping_render_orphans_entry :
    let cfg : Cfg := { mask := 7, timeout := some 10 }
    let i : Id := (.counter, ['a'])
    view (xafter cfg ((overlapHistory .counter ['a'] (.inc 1) (.inc 1) 10).take 5)) i = (none, some (1, 11))
    ∧ lookup (xafter cfg (overlapHistory .counter ['a'] (.inc 1) (.inc 1) 10)).metrics i = some ⟨1, .c 1⟩
    ∧ ¬ registered (xstep (xafter cfg (overlapHistory .counter ['a'] (.inc 1) (.inc 1) 10)) (.base .observe)) i
    ∧ registered (xstep (xafter cfg ((overlapHistory .counter ['a'] (.inc 1) (.inc 1) 10).eraseIdx 4)) (.base .observe)) i := by
  decide

/-- non-vacuity of the partial theorems: the delete of ANOTHER metric (gauge under the same key, counter under
    another key) and a clear BEFORE the metric first exists... the latter hits; here only the former: kept -/
example :
    let cfg : Cfg := { mask := 7, timeout := some 10 }
    let xs : List XOp := [.base (.upd .gauge ['a'] (.set 1)), .base (.upd .counter ['a'] (.inc 1)), .base .observe,
      .del .gauge ['a'], .del .counter ['b'], .base (.upd .counter ['a'] (.inc 1)), .base (.adv 11)]
    (∀ x ∈ xs, XOp.hits (.counter, ['a']) x = false) ∧
    lookup (xstep (xafter cfg xs) (.base .observe)).metrics (.counter, ['a']) = some ⟨2, .c 2⟩ ∧
    lookup (xstep (xafter cfg xs) (.base .observe)).metrics (.gauge, ['a']) = none := by
  decide

/-- the early drop: re-created at t = 8, first seen at t = 9 (kept, the orphan's stamp 0 stays), deleted at t = 11
    after 2 ≤ 10 idle ticks; with two updates after the re-creation (generation 2 ≠ 1) the entry is refreshed and the
    metric is kept -/
example :
    let cfg : Cfg := { mask := 1, timeout := some 10 }
    let h (n : List XOp) : List XOp := [.base (.upd .counter ['a'] (.inc 1)), .base .observe, .del .counter ['a'],
      .base (.adv 8)] ++ n ++ [.base (.adv 1), .base .observe, .base (.adv 2)]
    ¬ registered (xstep (xafter cfg (h [.base (.upd .counter ['a'] (.inc 7))])) (.base .observe)) (.counter, ['a']) ∧
    registered (xstep (xafter cfg (h [.base (.upd .counter ['a'] (.inc 7)), .base (.upd .counter ['a'] (.inc 0))]))
      (.base .observe)) (.counter, ['a']) := by
  decide

/-- SOURCE FACT (regenerated from the repository on every run): `should_store` compares the stored generation with
    the generation its CALLER read earlier, and then deletes through a closure that is given the key only;
    `Registry::delete_counter/gauge/histogram` take the key only and do not look at a generation; the exporter's
    loops read the generation, then ask `should_store_*`, then read the value.  This is the read→delete window of
    `Model/IdleRace.lean`; a change that re-checks the generation under the shard lock changes these facts. -/
theorem src_idle_delete_unconditional :
    Generated.recency_should_store_same_gen = "*last_gen==gen"
    ∧ Generated.recency_should_store_delete_cond = "(now-*last_update)>idle_timeout&&delete_op(registry,key)"
    ∧ Generated.recency_should_store_calls =
        ["key,gen,registry,MetricKind::Counter,|registry,key|{registry.delete_counter(key)}",
         "key,gen,registry,MetricKind::Gauge,|registry,key|{registry.delete_gauge(key)}",
         "key,gen,registry,MetricKind::Histogram,|registry,key|{registry.delete_histogram(key)}"]
    ∧ Generated.registry_delete_sigs =
        ["&self,key:&K->bool:unconditional", "&self,key:&K->bool:unconditional", "&self,key:&K->bool:unconditional"]
    ∧ Generated.prom_counter_store_order = ["generation", "should_store", "value"]
    ∧ Generated.prom_gauge_store_order = ["generation", "should_store", "value"] := by decide

/-- SOURCE FACT (regenerated on every run) behind `XOp`: with no entry for the key `should_store` inserts
    `(gen, now)` and keeps — it never asks whether the key is still registered (`XOp.stale` on an absent metric);
    `Recency`'s public operations are `new` and the three `should_store_*`: none forgets an entry (`XOp.del` / `XOp.clear`
    leave `entries` alone); `Registry::clear` empties exactly the three metric maps. -/
theorem src_orphan_entry_shape :
    Generated.recency_should_store_none_arm = "entries.insert(key.clone(),(gen,now));false"
    ∧ Generated.recency_pub_fns = ["new", "should_store_counter", "should_store_gauge", "should_store_histogram"]
    ∧ Generated.registry_clear_fields = ["counters", "gauges", "histograms"] := by decide

/-- SOURCE FACT: every public constructor of the exporter reaches `Recency::new(clock, self.recency_mask,
    self.idle_timeout)` through `build_recorder` → `build_with_clock`, and none of `install`, `install_recorder`,
    `build`, `build_recorder` assigns the mask or the timeout on the way — the configuration driven through the
    `verif_build_with_clock` hook and `build_recorder()` is the one the HTTP-listener / push-gateway constructors use. -/
theorem src_prom_constructors_share_recency :
    Generated.prom_builder_recency_new_args = "clock,self.recency_mask,self.idle_timeout"
    ∧ Generated.prom_builder_constructors =
        ["install:build():as-configured", "install_recorder:build_recorder():as-configured",
         "build:build_recorder():as-configured", "build_recorder:build_with_clock(Clock::new()):as-configured"] := by decide

end MetricsVerif.C12
