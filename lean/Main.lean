/-
mvdriver — the executable side of the models.  Reads one op per line on stdin, answers one line per op.
Lines starting with `#` are echoed (case delimiters; they also reset per-case model state).
Unknown or malformed ops answer `bad-op` (never defaulted).
-/
import MetricsVerif.Driver.C08
import MetricsVerif.Driver.Prom
import MetricsVerif.Driver.OnceCell
import MetricsVerif.Driver.Recoverable
import MetricsVerif.Driver.GenRace
import MetricsVerif.Driver.IdleRace
import MetricsVerif.Driver.Layers
import MetricsVerif.Driver.Tracing
import MetricsVerif.Driver.Recency
import MetricsVerif.Driver.PromIdle
import MetricsVerif.Driver.Key
import MetricsVerif.Driver.Cow
import MetricsVerif.Driver.Bucket
import MetricsVerif.Driver.Reservoir
import MetricsVerif.Driver.Statsd
import MetricsVerif.Driver.StatsdFwd
import MetricsVerif.Driver.Registry
import MetricsVerif.Driver.Debugging
import MetricsVerif.Driver.Allowlist
import MetricsVerif.Driver.LocalRec
import MetricsVerif.Driver.Atomics
import MetricsVerif.Driver.StatsdAgg
import MetricsVerif.Driver.C15
import MetricsVerif.Driver.Tcp
import MetricsVerif.Driver.TcpProd
import MetricsVerif.Driver.PromConc

open MetricsVerif.Driver

structure DState where
  tcp : Option MetricsVerif.Tcp.State := none
  tcpq : Option TcpProd.St := none
  c15 : C15.St := {}
  localrec : Option LocalRec.DSt := none
  allow : Allowlist.DSt := none
  debug : Option Debugging.DSt := none
  registry : Option Registry.St := none
  reservoir : Option MetricsVerif.Reservoir.ASR := none
  cow : Cow.DSt := {}
  recency : Option MetricsVerif.Recency.St := none
  promidle : Option PromIdle.DSt := none
  prom : Option MetricsVerif.Prom.St := none
  layers : Option Layers.St := none
  tracing : Option Tracing.DSt := none
  statsd : Statsd.St := none
  sfwd : Option StatsdFwd.St := none

def step (st : DState) (line : String) : DState × String :=
  -- a new case starts from fresh states; only the process-wide global recorder of `debug` (C19) lives on
  if line.startsWith "#" then ({ debug := Debugging.carry st.debug }, line) else
  match line.splitOn " " with
  | "c08" :: args => (st, (C08.handle args).getD "bad-op")
  | "key" :: args => (st, (Key.handle args).getD "bad-op")
  | "prom" :: args =>
    match Prom.handle st.prom args with
    | some (p, o) => ({ st with prom := p }, o)
    | none => (st, "bad-op")
  | "layers" :: args =>
    match Layers.handle st.layers args with
    | some (l, o) => ({ st with layers := l }, o)
    | none => (st, "bad-op")
  | "tracing" :: args =>
    match Tracing.handle st.tracing args with
    | some (p, o) => ({ st with tracing := p }, o)
    | none => (st, "bad-op")
  | "recover" :: args => (st, (Recoverable.handle args).getD "bad-op")
  | "genrace" :: args => (st, (GenRace.handle args).getD "bad-op")
  | "idlerace" :: args => (st, (IdleRace.handle args).getD "bad-op")
  | "cell" :: args => (st, (OnceCell.handle args).getD "bad-op")
  | "recency" :: args =>
    match Recency.handle st.recency args with
    | some (p, o) => ({ st with recency := p }, o)
    | none => (st, "bad-op")
  | "promidle" :: args =>
    match PromIdle.handle st.promidle args with
    | some (p, o) => ({ st with promidle := p }, o)
    | none => (st, "bad-op")
  | "cow" :: args =>
    match Cow.handle st.cow args with
    | some (c, o) => ({ st with cow := c }, o)
    | none => (st, "bad-op")
  | "bucket" :: args => (st, (Bucket.handle args).getD "bad-op")
  | "promconc" :: args => (st, (PromConc.handle args).getD "bad-op")
  | "reservoir" :: args =>
    match Reservoir.handle st.reservoir args with
    | some (r, o) => ({ st with reservoir := r }, o)
    | none => (st, "bad-op")
  | "statsd" :: args =>
    match Statsd.handle st.statsd args with
    | some (w, o) => ({ st with statsd := w }, o)
    | none => (st, "bad-op")
  | "sfwd" :: args =>
    match StatsdFwd.handle st.sfwd args with
    | some (w, o) => ({ st with sfwd := w }, o)
    | none => (st, "bad-op")
  | "registry" :: args =>
    match Registry.handle st.registry args with
    | some (r, o) => ({ st with registry := r }, o)
    | none => (st, "bad-op")
  | "debug" :: args =>
    match Debugging.handle st.debug args with
    | some (p, o) => ({ st with debug := p }, o)
    | none => (st, "bad-op")
  | "allow" :: args =>
    match Allowlist.handle st.allow args with
    | some (a, o) => ({ st with allow := a }, o)
    | none => (st, "bad-op")
  | "localrec" :: args =>
    match LocalRec.handle st.localrec args with
    | some (p, o) => ({ st with localrec := p }, o)
    | none => (st, "bad-op")
  | "atomics" :: args => (st, (Atomics.handle args).getD "bad-op")
  | "agg" :: args => (st, (StatsdAgg.handle args).getD "bad-op")
  | "c15" :: args =>
    match C15.handle st.c15 args with
    | some (c, o) => ({ st with c15 := c }, o)
    | none => (st, "bad-op")
  | "tcp" :: args =>
    match Tcp.handle st.tcp args with
    | some (t, o) => ({ st with tcp := t }, o)
    | none => (st, "bad-op")
  | "tcpq" :: args =>
    match TcpProd.handle st.tcpq args with
    | some (t, o) => ({ st with tcpq := t }, o)
    | none => (st, "bad-op")
  | _ => (st, "bad-op")

partial def loop (h : IO.FS.Stream) (out : IO.FS.Stream) (st : DState) : IO Unit := do
  let line ← h.getLine
  if line.isEmpty then return ()
  let line := if line.endsWith "\n" then (line.dropEnd 1).toString else line
  let (st', o) := step st line
  out.putStrLn o
  loop h out st'

def main : IO Unit := do
  let stdin ← IO.getStdin
  let stdout ← IO.getStdout
  loop stdin stdout {}
