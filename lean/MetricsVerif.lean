-- Root of the `MetricsVerif` library: models, proofs and property theorems.
import MetricsVerif.Model.PromFmt
import MetricsVerif.Model.Exposition
import MetricsVerif.Model.PromRender
import MetricsVerif.Model.Layers
