// SAFE program: Cow<[G]> is Sync for G: Sync + !Send (a MutexGuard inside), so `&Cow` crosses into another thread, which
// clones the Shared value (Arc::increment_strong_count) and ends up dropping the LAST reference: a !Send value made on
// the main thread is destroyed on the other one (a MutexGuard unlocked by a thread that does not hold the lock).
use metrics::verif_cow::Cow;
use std::cell::RefCell;
use std::sync::{mpsc, Arc, Mutex, MutexGuard};
static M: Mutex<()> = Mutex::new(());
pub struct G(Option<MutexGuard<'static, ()>>, std::thread::ThreadId);
impl Clone for G {
    fn clone(&self) -> G { G(None, std::thread::current().id()) }
}
impl Drop for G {
    fn drop(&mut self) {
        if self.1 != std::thread::current().id() {
            println!("!Send value (holds a MutexGuard: {}) made on {:?} is dropped on {:?}", self.0.is_some(), self.1, std::thread::current().id());
        }
    }
}
struct Keeper(Option<Cow<'static, [G]>>, Option<mpsc::Receiver<()>>);
impl Drop for Keeper {
    fn drop(&mut self) {
        if let Some(rx) = self.1.take() { let _ = rx.recv(); }
        self.0.take();
    }
}
thread_local! { static KEEP: RefCell<Keeper> = RefCell::new(Keeper(None, None)); }
fn main() {
    let arc: Arc<[G]> = vec![G(Some(M.lock().unwrap()), std::thread::current().id())].into();
    let c: Cow<'static, [G]> = Cow::from_shared(arc);
    let (tx, rx) = mpsc::channel::<()>();
    std::thread::scope(|s| {
        let c = &c; // needs Cow<[G]>: Sync
        s.spawn(move || {
            let mine = c.clone();
            KEEP.with(|k| *k.borrow_mut() = Keeper(Some(mine), Some(rx)));
        });
    });
    drop(c); // not the last reference
    tx.send(()).unwrap();
    std::thread::sleep(std::time::Duration::from_millis(300));
    println!("main: mutex is {}", if M.try_lock().is_ok() { "unlocked (by the other thread)" } else { "still locked" });
}
