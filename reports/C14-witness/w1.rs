// SAFE program (no `unsafe`): Cow<[Cell<u64>]> / Cow<[RefCell<String>]> cross threads although the elements are not Sync
use metrics::verif_cow::Cow;
use std::cell::{Cell, RefCell};
use std::sync::{Arc, Barrier};

fn main() {
    // (1) by logic, deterministic: two threads hold `&Cell<u64>` to the SAME cell at the same time and talk through it
    let arc: Arc<[Cell<u64>]> = (0..4u64).map(Cell::new).collect();
    let a = Cow::<[Cell<u64>]>::from_shared(arc);
    let b = a.clone(); // same ArcInner: Arc::increment_strong_count
    assert_eq!(a.as_ptr(), b.as_ptr());
    let bar = Arc::new(Barrier::new(2));
    let bar2 = bar.clone();
    let t = std::thread::spawn(move || {
        // `b` was MOVED here: needs Cow<[Cell<u64>]>: Send
        b[0].set(41);
        bar2.wait(); // main reads 41 through ITS handle
        bar2.wait();
        b[0].get() // sees what main wrote through `&Cell`
    });
    bar.wait();
    let seen_by_main = a[0].get();
    a[0].set(seen_by_main + 1);
    bar.wait();
    let seen_by_thread = t.join().unwrap();
    println!("shared: main saw {} written by the other thread through &Cell; the thread saw {} written by main", seen_by_main, seen_by_thread);
    assert_eq!((seen_by_main, seen_by_thread), (41, 42));

    // (2) data race made visible: unsynchronised read-modify-write of one Cell from two threads loses updates
    const N: u64 = 2_000_000;
    let arc: Arc<[Cell<u64>]> = vec![Cell::new(0u64)].into();
    let a = Cow::<[Cell<u64>]>::from_shared(arc);
    let b = a.clone();
    let t = std::thread::spawn(move || {
        for _ in 0..N {
            let c = std::hint::black_box(&b[0]);
            c.set(c.get() + 1);
        }
    });
    for _ in 0..N {
        let c = std::hint::black_box(&a[0]);
        c.set(c.get() + 1);
    }
    t.join().unwrap();
    println!("shared: {} increments by two threads, counter = {} (lost {})", 2 * N, a[0].get(), 2 * N - a[0].get());

    // (3) the Borrowed kind: `&'a [Cell]` crosses into a scoped thread
    let cells = vec![Cell::new(0u64)];
    let c = Cow::<[Cell<u64>]>::from_borrowed(&cells[..]);
    std::thread::scope(|s| {
        s.spawn(move || {
            for _ in 0..N {
                let x = std::hint::black_box(&c[0]);
                x.set(x.get() + 1);
            }
        });
        for _ in 0..N {
            let x = std::hint::black_box(&cells[0]);
            x.set(x.get() + 1);
        }
    });
    println!("borrowed: {} increments by two threads, counter = {} (lost {})", 2 * N, cells[0].get(), 2 * N - cells[0].get());

    // (4) memory unsafety: RefCell<String> — both threads obtain `&mut String` (the borrow flag is not atomic)
    if std::env::args().any(|a| a == "--refcell") {
        let arc: Arc<[RefCell<String>]> = vec![RefCell::new(String::new())].into();
        let a = Cow::<[RefCell<String>]>::from_shared(arc);
        let b = a.clone();
        let t = std::thread::spawn(move || {
            for i in 0..N {
                if let Ok(mut s) = b[0].try_borrow_mut() {
                    if i % 64 == 0 { *s = String::new(); } else { s.push('x'); }
                }
            }
        });
        for i in 0..N {
            if let Ok(mut s) = a[0].try_borrow_mut() {
                if i % 64 == 0 { *s = String::new(); } else { s.push('y'); }
            }
        }
        t.join().unwrap();
        println!("refcell: survived, len {}", a[0].borrow().len());
    }
}
