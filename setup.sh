#!/bin/sh
# Builds the framework from files on disk only (offline): Lean project (models, proofs, driver) and the Rust harness.
set -e
cd "$(dirname "$0")"
mkdir -p .cache/run evidence/replays
(cd lean && lake build MetricsVerif mvdriver)
cp /repo/Cargo.lock harness/Cargo.lock
(cd harness && CARGO_NET_OFFLINE=true RUSTFLAGS="--cfg metrics_verif" CARGO_TARGET_DIR=/verif/.cache/target cargo build --offline)
