//! Detects optional verification hooks in the repository under test, so that the harness builds with or
//! without them:  `has_key_hook`  ⇔  metrics/src/key.rs carries `pub mod verif_key_hook` (yield points of
//! `Key::get_hash`, C03's deterministic schedules).
fn main() {
    let manifest = std::fs::read_to_string("Cargo.toml").expect("Cargo.toml");
    let path = manifest
        .lines()
        .find(|l| l.starts_with("metrics = "))
        .and_then(|l| l.split('"').nth(1))
        .expect("path of the metrics crate")
        .to_string();
    let key_rs = format!("{}/src/key.rs", path);
    println!("cargo:rerun-if-changed={}", key_rs);
    println!("cargo:rerun-if-changed=Cargo.toml");
    println!("cargo:rerun-if-changed=build.rs");
    let has = std::fs::read_to_string(&key_rs).map(|s| s.contains("pub mod verif_key_hook")).unwrap_or(false);
    if has {
        println!("cargo:rustc-cfg=has_key_hook");
    }
    // `has_cow_hook` ⇔ metrics/src/cow.rs reports `Cow::clone` to the same hook (yield points inside `Key::clone`,
    // C03's clone-vs-first-get_hash schedules)
    let cow_rs = format!("{}/src/cow.rs", path);
    println!("cargo:rerun-if-changed={}", cow_rs);
    let has_cow = std::fs::read_to_string(&cow_rs).map(|s| s.contains("verif_key_hook::point(\"cow-clone\")")).unwrap_or(false);
    if has && has_cow {
        println!("cargo:rustc-cfg=has_cow_hook");
    }
}
