//! C05 — the lock-free bucket never loses, duplicates or invents a sample.
//!
//! Real `AtomicBucket<u64>`s driven by pusher / snapshot / clear / is_empty threads under the deterministic
//! scheduler (one shared-memory operation per grant, yield points in bucket.rs); every executed schedule is
//! replayed on the Lean step machine (`bucket run 64 …`), which must take the same steps and return the
//! same values. Implementation-side oracles check conservation directly on what the real code returned.
//! One grant = one model step for every PC: the detaching compare-exchange of `clear_with` has its own yield point
//! `bkt.clear.cas` (between the tail load and the CAS), so a hand-over can be placed between the two (failed detach).

use crate::sched;
use crate::util::*;
use metrics_util::storage::AtomicBucket;
use std::collections::{BTreeMap, BTreeSet};
use std::sync::atomic::{AtomicIsize, AtomicUsize, Ordering};
use std::sync::{Arc, Mutex};

pub const B: usize = 64;

// ---------------------------------------------------------------------------------------------
// value type with a destructor: every value pushed into a bucket is a `Tv` registered in a `Reg`; its `Drop`
// records the drop (so "dropped exactly once, eventually" is checked for every value of every run) and
// overwrites a magic word (so a callback that is handed a slot whose value was already dropped sees it).

const MAGIC: u64 = 0x5AFE_C0DE_5AFE_C0DE;
const DEAD: u64 = 0xDEAD_DEAD_DEAD_DEAD;

#[derive(Default)]
pub struct Reg {
    drops: Mutex<BTreeMap<u64, u32>>,
    created: Mutex<Vec<u64>>,
    live: AtomicIsize,
    bad_magic_on_drop: AtomicUsize,
    bad_magic_on_read: AtomicUsize,
    // ---- ONLINE reclamation oracle (scheduled runs): a logical clock ticked at call entries, at every value a clear
    // callback is handed, and at every destructor run; `in_call[t]` = clock value at which managed thread t entered the
    // bucket call it is executing (every bucket call pins the epoch for its whole duration: `epoch_pin()` is the first
    // statement of push / data_with / clear_with / is_empty); `taken[v]` = clock value at which a clear_with callback was
    // handed v (the block is retired only after that).  `premature` = destructor runs that crossbeam-epoch's contract
    // excludes: see `Tv::drop`.
    clock: std::sync::atomic::AtomicU64,
    in_call: Mutex<Vec<Option<(u64, &'static str)>>>,
    taken: Mutex<BTreeMap<u64, u64>>,
    premature: Mutex<Vec<String>>,
}

thread_local! {
    /// index of the managed thread (scheduled runs) the current OS thread is; `None` outside scheduled bodies
    static CUR_T: std::cell::Cell<Option<usize>> = std::cell::Cell::new(None);
}

impl Reg {
    fn tick(&self) -> u64 {
        self.clock.fetch_add(1, Ordering::SeqCst) + 1
    }
    /// managed thread `t` is about to enter a bucket call (same grant as the call's `epoch_pin()`)
    fn enter(&self, t: usize, what: &'static str) {
        let now = self.tick();
        let mut ic = self.in_call.lock().unwrap();
        if ic.len() <= t {
            ic.resize(t + 1, None);
        }
        ic[t] = Some((now, what));
    }
    /// the call returned (the guard was dropped in the same grant)
    fn leave(&self, t: usize) {
        if let Some(x) = self.in_call.lock().unwrap().get_mut(t) {
            *x = None;
        }
    }
}

pub struct Tv {
    magic: u64,
    v: u64,
    clone: bool,
    reg: Arc<Reg>,
}

impl Tv {
    fn new(reg: &Arc<Reg>, v: u64) -> Tv {
        reg.live.fetch_add(1, Ordering::SeqCst);
        reg.created.lock().unwrap().push(v);
        Tv { magic: MAGIC, v, clone: false, reg: reg.clone() }
    }
    /// value as seen by a reader callback (records a read of an already dropped value)
    fn read(&self) -> u64 {
        let m = unsafe { std::ptr::read_volatile(&self.magic) };
        if m != MAGIC {
            self.reg.bad_magic_on_read.fetch_add(1, Ordering::SeqCst);
        }
        self.v
    }
    /// `read` for the callback of a clearing read: additionally records WHEN the clear was handed the value (the block
    /// holding it is retired — `defer_unchecked` — only after the callback returned)
    fn take(&self) -> u64 {
        let v = self.read();
        let now = self.reg.tick();
        self.reg.taken.lock().unwrap().entry(v).or_insert(now);
        v
    }
}

impl Clone for Tv {
    // `AtomicBucket::data()` clones; clones are not pushed values and their drops are not counted
    fn clone(&self) -> Tv {
        Tv { magic: self.magic, v: self.v, clone: true, reg: self.reg.clone() }
    }
}

impl Drop for Tv {
    fn drop(&mut self) {
        if self.magic != MAGIC {
            self.reg.bad_magic_on_drop.fetch_add(1, Ordering::SeqCst);
        }
        unsafe { std::ptr::write_volatile(&mut self.magic, DEAD) };
        if !self.clone {
            // ONLINE reclamation oracle. A pushed value is destroyed only through the deferred destruction of its block,
            // queued by the clear_with that took it, after its callback had been handed the value (clock `d`).  A managed
            // thread u that entered a bucket call at clock s < d and is still inside that call has been pinned since before
            // the block was retired: the global epoch can have advanced at most once since u pinned, a retired block needs
            // two advances after its retirement — so under crossbeam-epoch's contract this destructor CANNOT run now,
            // whatever the schedule.  If it does, the block was freed under a thread that may still walk it (data_with /
            // clear_with that loaded the tail before the detach) or touch it (a pusher holding it as its tail): use after
            // free.  The run is given up at once (sched::ABORT_RUN): the parked threads are never resumed into freed memory,
            // so the verdict does not depend on what the allocator did with the block (a crash or an endless spin on garbage).
            // The destroying thread itself is not counted (freeing in one's own call harms nobody by itself).
            let me = CUR_T.with(|c| c.get());
            if let Some(d) = self.reg.taken.lock().unwrap().get(&self.v).copied() {
                let now = self.reg.tick();
                let ic = self.reg.in_call.lock().unwrap();
                for (u, e) in ic.iter().enumerate() {
                    if let Some((s, what)) = e {
                        if Some(u) != me && *s < d {
                            let mut p = self.reg.premature.lock().unwrap();
                            if p.len() < 4 {
                                p.push(format!(
                                    "value {} destroyed at clock {} by thread {:?}; a clear_with callback was handed it at clock {}; thread {} has been inside `{}` (pinned) since clock {}",
                                    self.v, now, me, d, u, what, s
                                ));
                            }
                            crate::sched::ABORT_RUN.store(true, Ordering::SeqCst);
                        }
                    }
                }
            }
            *self.reg.drops.lock().unwrap().entry(self.v).or_insert(0) += 1;
            self.reg.live.fetch_sub(1, Ordering::SeqCst);
        }
    }
}

/// Drives crossbeam-epoch's collector from this thread until every registered value has been dropped (or a
/// generous bound is hit): `clear()` on a non-empty scratch bucket ends with `guard.flush()`, which advances the
/// global epoch (no other thread is pinned: all managed threads have been joined) and runs expired deferred
/// functions. Purely logical: no sleeping, no timing.
fn flush_epoch(reg: &Reg) -> usize {
    // The end state (everything dropped) is deterministic; only WHEN it is reached can vary: a thread that has been
    // joined through `thread::scope` may still be running its thread-local destructors (crossbeam's per-thread
    // handle hands its pending bag to the global queue there). So after the first rounds the loop yields, and it
    // gives up only after 20 000 rounds AND 15 s — three orders of magnitude above what was ever observed (< 10
    // rounds, < 1 ms).
    // (Once one run has really leaked, later runs skip the time floor so that a leaking tree does not cost 15 s per case.)
    static LEAK_SEEN: std::sync::atomic::AtomicBool = std::sync::atomic::AtomicBool::new(false);
    let t0 = std::time::Instant::now();
    let mut rounds = 0;
    while reg.live.load(Ordering::SeqCst) != 0
        && (rounds < 20_000 || (!LEAK_SEEN.load(Ordering::Relaxed) && t0.elapsed().as_secs() < 15))
    {
        let scratch: AtomicBucket<u8> = AtomicBucket::new();
        scratch.push(0);
        scratch.clear();
        rounds += 1;
        if rounds > 200 {
            std::thread::yield_now();
        }
        if rounds > 20_000 {
            std::thread::sleep(std::time::Duration::from_millis(1));
        }
    }
    if reg.live.load(Ordering::SeqCst) != 0 {
        LEAK_SEEN.store(true, Ordering::Relaxed);
    }
    rounds
}

#[derive(Clone, Debug, Default)]
pub struct DropReport {
    pub created: usize,
    pub never_dropped: Vec<u64>,
    pub dropped_twice: Vec<u64>,
    pub bad_magic_on_drop: usize,
    pub bad_magic_on_read: usize,
    pub flush_rounds: usize,
    /// destructor runs while another managed thread was pinned since before the value's block was retired (`Tv::drop`)
    pub premature: Vec<String>,
}

fn drop_report(reg: &Reg, flush_rounds: usize) -> DropReport {
    let drops = reg.drops.lock().unwrap();
    let created = reg.created.lock().unwrap();
    DropReport {
        created: created.len(),
        never_dropped: created.iter().copied().filter(|v| !drops.contains_key(v)).collect(),
        dropped_twice: drops.iter().filter(|(_, n)| **n > 1).map(|(v, _)| *v).collect(),
        bad_magic_on_drop: reg.bad_magic_on_drop.load(Ordering::SeqCst),
        bad_magic_on_read: reg.bad_magic_on_read.load(Ordering::SeqCst),
        flush_rounds,
        premature: reg.premature.lock().unwrap().clone(),
    }
}

#[derive(Clone, Copy, Debug, PartialEq)]
pub enum Call {
    Push(u64),
    Data,
    /// `data()` (the cloning convenience wrapper over `data_with`); same model call as `Data`
    DataV,
    Clear,
    IsEmpty,
    /// `clear_with` whose callback UNWINDS (panics) in its k-th invocation (k ≥ 1), after it has read the slice it was
    /// handed; the unwind is caught around the call.  Model: a `clear` plus a marked grant (`Model/BucketUnwind.lean`).
    ClearPanic(usize),
}

pub fn prog_tok(p: &[Call]) -> String {
    if p.is_empty() {
        return "-".into();
    }
    // run-length shorthand is not used: programs are short except the prefill, which is explicit
    p.iter()
        .map(|c| match c {
            Call::Push(v) => format!("p{}", v),
            Call::Data | Call::DataV => "d".into(),
            Call::Clear | Call::ClearPanic(_) => "c".into(),
            Call::IsEmpty => "e".into(),
        })
        .collect::<Vec<_>>()
        .join("+")
}

#[derive(Clone, Debug, PartialEq)]
pub enum Res {
    Pushed,
    Snap(Vec<u64>),
    Clr(Vec<u64>),
    Empty(bool),
}

fn vals(v: &[u64]) -> String {
    if v.is_empty() {
        "[]".into()
    } else {
        format!("[{}]", v.iter().map(|x| x.to_string()).collect::<Vec<_>>().join("/"))
    }
}

pub struct Outcome {
    pub results: Vec<Vec<Res>>,
    /// per thread, per completed call: lengths of the slices handed to the callback (empty for push / is_empty / data())
    pub cbs: Vec<Vec<Vec<usize>>>,
    pub final_visible: Vec<u64>,
    pub empty_after_clear: bool,
    pub drops: DropReport,
    pub run: sched::RunResult,
}

pub fn execute(progs: &[Vec<Call>], schedule: &[usize]) -> Outcome {
    let reg: Arc<Reg> = Arc::new(Reg::default());
    let bucket: Arc<AtomicBucket<Tv>> = Arc::new(AtomicBucket::new());
    let results: Arc<Mutex<Vec<Vec<(Res, Vec<usize>)>>>> = Arc::new(Mutex::new(vec![vec![]; progs.len()]));
    let mut bodies: Vec<Box<dyn FnOnce() + Send + 'static>> = vec![];
    for (t, prog) in progs.iter().enumerate() {
        let prog = prog.clone();
        let bucket = bucket.clone();
        let results = results.clone();
        let reg = reg.clone();
        bodies.push(Box::new(move || {
            CUR_T.with(|c| c.set(Some(t)));
            for c in prog {
                let mut lens = vec![];
                // a value is created BEFORE the call is entered (its creation is not part of the pinned section)
                let pv = if let Call::Push(v) = c { Some(Tv::new(&reg, v)) } else { None };
                reg.enter(
                    t,
                    match c {
                        Call::Push(_) => "push",
                        Call::Data => "data_with",
                        Call::DataV => "data",
                        Call::Clear | Call::ClearPanic(_) => "clear_with",
                        Call::IsEmpty => "is_empty",
                    },
                );
                let r = match c {
                    Call::Push(_) => {
                        bucket.push(pv.unwrap());
                        Res::Pushed
                    }
                    Call::Data => {
                        let mut acc = vec![];
                        bucket.data_with(|b| {
                            lens.push(b.len());
                            acc.extend(b.iter().map(|x| x.read()))
                        });
                        Res::Snap(acc)
                    }
                    Call::DataV => Res::Snap(bucket.data().iter().map(|x| x.read()).collect()),
                    Call::Clear => {
                        let mut acc = vec![];
                        bucket.clear_with(|b| {
                            lens.push(b.len());
                            acc.extend(b.iter().map(|x| x.take()))
                        });
                        Res::Clr(acc)
                    }
                    Call::IsEmpty => Res::Empty(bucket.is_empty()),
                    Call::ClearPanic(k) => {
                        let mut acc = vec![];
                        let mut n = 0usize;
                        let _ = std::panic::catch_unwind(std::panic::AssertUnwindSafe(|| {
                            bucket.clear_with(|b| {
                                lens.push(b.len());
                                acc.extend(b.iter().map(|x| x.take()));
                                n += 1;
                                if n == k {
                                    // (resume_unwind: a plain unwind, without the panic hook's message on stderr)
                                    std::panic::resume_unwind(Box::new("the clear_with callback unwinds"));
                                }
                            })
                        }));
                        Res::Clr(acc)
                    }
                };
                reg.leave(t);
                results.lock().unwrap()[t].push((r, lens));
            }
        }));
    }
    let run = sched::run(bodies, schedule);
    // the managed threads are gone (joined, or unwound out of a run that was given up): nobody is inside a call any more —
    // values of this run that the collector destroys later (during another run) must not be judged against stale entries
    reg.in_call.lock().unwrap().clear();
    // (a run given up by the online reclamation oracle is `timed_out`: nothing of the bucket is touched any more)
    let stuck = run.deadlock || run.timed_out;
    let mut final_visible = vec![];
    let mut empty_after_clear = true;
    let mut rounds = 0;
    if !stuck {
        bucket.data_with(|b| final_visible.extend(b.iter().map(|x| x.read())));
        // reclamation: clear() (no callback) hands every remaining block to the collector; then the bucket goes
        // away and the collector is driven until every value has been dropped
        bucket.clear();
        empty_after_clear = bucket.is_empty() && bucket.data().is_empty();
        drop(bucket);
        rounds = flush_epoch(&reg);
    }
    let drops = drop_report(&reg, rounds);
    let res = results.lock().unwrap().clone();
    Outcome {
        results: res.iter().map(|rs| rs.iter().map(|x| x.0.clone()).collect()).collect(),
        cbs: res.iter().map(|rs| rs.iter().map(|x| x.1.clone()).collect()).collect(),
        final_visible,
        empty_after_clear,
        drops,
        run,
    }
}

pub fn answer(o: &Outcome) -> String {
    let labels: Vec<&str> = o.run.trace.iter().map(|(_, id)| *id).collect();
    let res = list(o.results.iter().map(|rs| {
        if rs.is_empty() {
            ".".to_string()
        } else {
            rs.iter()
                .map(|r| match r {
                    Res::Pushed => "pushed".to_string(),
                    Res::Snap(v) => format!("snap{}", vals(v)),
                    Res::Clr(v) => format!("clr{}", vals(v)),
                    Res::Empty(b) => format!("empty:{}", b),
                })
                .collect::<Vec<_>>()
                .join("+")
        }
    }));
    format!("{} | {} | visible={}", labels.join("."), res, vals(&o.final_visible))
}

/// grant indices of the k-th call of each thread: (first grant of the call, last grant of the call)
fn call_spans(progs: &[Vec<Call>], o: &Outcome) -> Vec<Vec<(usize, usize)>> {
    let first_ids = ["bkt.push.load_tail", "bkt.data.load_tail", "bkt.clear.load_tail", "bkt.empty.load_tail"];
    let mut spans: Vec<Vec<(usize, usize)>> = progs.iter().map(|_| vec![]).collect();
    for (gi, (t, id)) in o.run.trace.iter().enumerate() {
        if *id == "start" {
            continue;
        }
        // a call begins at its load_tail point when the previous call of that thread is complete; a push can
        // come back to load_tail (retry) — those belong to the same call
        let is_first = first_ids.contains(id);
        let cur = spans[*t].len();
        let begins_new = is_first
            && (cur == 0 || {
                // previous call complete? complete calls == results recorded so far is not known per grant;
                // use the program: a retry load_tail only happens for pushes, right after a claim/cas_new grant
                let prev_id = o.run.trace[..gi].iter().rev().find(|(t2, _)| t2 == t).map(|x| x.1).unwrap_or("");
                // … and a clear comes back to its load_tail right after a failed detach CAS (fix: "clear_with retries its
                // detach when the tail moved under it"; a successful CAS is followed by `bkt.clear.quiesced`)
                !(*id == "bkt.push.load_tail" && (prev_id == "blk.push.claim" || prev_id == "bkt.push.cas_new"))
                    && !(*id == "bkt.clear.load_tail" && prev_id == "bkt.clear.cas")
            });
        if begins_new {
            spans[*t].push((gi, gi));
        } else if let Some(last) = spans[*t].last_mut() {
            last.1 = gi;
        }
    }
    spans
}

#[derive(Default)]
pub struct Sig {
    pub k1: bool, // a clear's detach CAS (`bkt.clear.cas`, failed or not) lies between a pusher's tail load and its slot claim
    pub k2: bool, // a reader loaded tail while a pusher was between its tail CAS and the link of `next`
    pub k3: bool, // is_empty evaluated while another pusher was between claim and publish
    /// EXACT count of K1 steps = the Lean predicate `k1Step` (Model/BucketGhost.lean; theorems `C05.conservation_except_K1`,
    /// `C05.K1_has_detach_between`): slot claims that succeed on a block a clear has detached since the pusher obtained it.
    /// `k1` above is the older, coarser trace signature (any clear's CAS step between a pusher's tail load and its claim).
    pub k1_exact: usize,
    /// grant indices of the `bkt.clear.cas` steps whose compare-exchange FAILED (the thread's next point is not
    /// `bkt.clear.quiesced`): that `clear_with` goes back to its tail load and retries, nothing changed
    /// (`C05.failed_detach_delivers_nothing_and_loses_nothing`, `C05.detach_cas_all_or_nothing`)
    pub failed_detaches: Vec<usize>,
}

pub fn signatures(o: &Outcome) -> Sig {
    signatures_of_trace(&o.run.trace)
}

pub fn signatures_of_trace(tr: &[(usize, &'static str)]) -> Sig {
    let mut sig = Sig::default();
    let n_threads = tr.iter().map(|(t, _)| *t).max().map_or(0, |m| m + 1);
    // per thread state while scanning
    let mut loaded_tail_at: Vec<Option<usize>> = vec![None; n_threads];
    let mut in_window: Vec<bool> = vec![false; n_threads]; // between cas_new grant and link grant
    let mut in_flight: Vec<bool> = vec![false; n_threads]; // between claim grant and publish grant
    let mut clears: Vec<usize> = vec![];
    // ---- exact K1. A pusher obtains the block of its claim in its PREVIOUS grant (tail load with a non-null tail, the
    // first-block CAS, or the won hand-over CAS: the only steps that lead to the claim point; Lean:
    // `C05.pusher_claims_on_the_tail_it_saw`). A clear detaches the chain in the grant of `bkt.clear.cas` (the yield point
    // between its tail load and its CAS; reached only when the loaded tail was non-null) iff the CAS succeeds, i.e. iff
    // that thread's next point is `bkt.clear.quiesced` (a failed CAS leads back to `bkt.clear.load_tail`:
    // `C05.detach_cas_all_or_nothing`).
    // The claim really takes a slot iff the pusher's next point is the publish step.
    let next_of = |gi: usize, t: usize| tr[gi + 1..].iter().find(|(t2, _)| *t2 == t).map(|x| x.1);
    let detaches: Vec<usize> = tr
        .iter()
        .enumerate()
        .filter(|(gi, (t, id))| *id == "bkt.clear.cas" && next_of(*gi, *t) == Some("bkt.clear.quiesced"))
        .map(|x| x.0)
        .collect();
    sig.failed_detaches = tr
        .iter()
        .enumerate()
        .filter(|(gi, (t, id))| *id == "bkt.clear.cas" && next_of(*gi, *t) != Some("bkt.clear.quiesced"))
        .map(|x| x.0)
        .collect();
    if !detaches.is_empty() {
        for (gi, (t, id)) in tr.iter().enumerate() {
            if *id == "blk.push.claim" && next_of(gi, *t) == Some("blk.push.publish") {
                if let Some(p) = tr[..gi].iter().rposition(|(t2, _)| t2 == t) {
                    if detaches.iter().any(|c| *c > p && *c < gi) {
                        sig.k1_exact += 1;
                    }
                }
            }
        }
    }
    for (gi, (t, id)) in tr.iter().enumerate() {
        match *id {
            "bkt.push.load_tail" => loaded_tail_at[*t] = Some(gi),
            "bkt.clear.cas" => clears.push(gi),
            "blk.push.claim" => {
                if let Some(l) = loaded_tail_at[*t] {
                    if clears.iter().any(|c| *c > l && *c < gi) {
                        sig.k1 = true;
                    }
                }
                in_window[*t] = false;
            }
            _ => {}
        }
        // state after this grant
        match *id {
            "bkt.push.cas_new" => in_window[*t] = true, // (if the CAS failed the next point is load_tail, handled below)
            "bkt.push.link" => in_window[*t] = false,
            "bkt.push.load_tail" => in_window[*t] = false,
            _ => {}
        }
        // was the claim in range? the next point of that thread tells: publish ⇒ in flight
        if *id == "blk.push.publish" {
            in_flight[*t] = false;
        }
        if *id == "blk.push.claim" {
            let next = tr[gi + 1..].iter().find(|(t2, _)| t2 == t).map(|x| x.1);
            in_flight[*t] = next == Some("blk.push.publish");
        }
        if matches!(*id, "bkt.data.load_tail" | "bkt.clear.load_tail" | "bkt.empty.load_tail") {
            // a cas_new that failed leaves in_window set until the thread's next grant; check the thread's next point
            for u in 0..n_threads {
                if u != *t && in_window[u] {
                    let next = tr[gi..].iter().find(|(t2, _)| *t2 == u).map(|x| x.1);
                    if next == Some("bkt.push.link") {
                        sig.k2 = true;
                    }
                }
            }
        }
        if *id == "bkt.empty.len" && (0..n_threads).any(|u| u != *t && in_flight[u]) {
            sig.k3 = true;
        }
    }
    sig
}

pub fn oracle(out: &mut Out, progs: &[Vec<Call>], o: &Outcome) {
    if !o.drops.premature.is_empty() {
        // the run was given up at the grant in which this happened; the trace is the failing schedule
        out.oracle_fail(
            "a value was destroyed while another thread, pinned since before the clear took it, was still inside its bucket call (block freed under a reader / pusher: use after free)",
            &format!("{} :: progs {} :: trace {:?}", o.drops.premature.join(" ;; "), list(progs.iter().map(|p| prog_tok(p))), o.run.trace),
        );
        return;
    }
    if o.run.deadlock || o.run.timed_out || !o.run.panicked.is_empty() {
        out.oracle_fail("bucket: deadlock, timeout or panic", &format!("{:?}", o.run.trace));
        return;
    }
    let sig = signatures(o);
    let tag = |s: &Sig| -> String {
        let mut v = vec![];
        if s.k1_exact > 0 {
            v.push("K1:straggler-push-on-detached-block");
        }
        if s.k2 {
            v.push("K2:reader-in-hand-over-window");
        }
        if s.k3 {
            v.push("K3:is_empty-behind-in-flight-slot");
        }
        if v.is_empty() {
            "no-known-signature".to_string()
        } else {
            v.join(",")
        }
    };
    let spans = call_spans(progs, o);
    let mut pushed: BTreeMap<u64, usize> = BTreeMap::new(); // value -> grant index at which its push completed
    let mut delivered: BTreeMap<u64, usize> = BTreeMap::new();
    let mut delivered_began: BTreeMap<u64, usize> = BTreeMap::new(); // value -> first grant of the clear that delivered it
    let mut dup = vec![];
    for (t, prog) in progs.iter().enumerate() {
        for (i, c) in prog.iter().enumerate() {
            let (Some(r), Some(sp)) = (o.results[t].get(i), spans[t].get(i)) else { continue };
            match (c, r) {
                (Call::Push(v), Res::Pushed) => {
                    pushed.insert(*v, sp.1);
                }
                (Call::Clear, Res::Clr(vs)) => {
                    for v in vs {
                        if delivered.insert(*v, sp.1).is_some() {
                            dup.push(*v);
                        }
                        delivered_began.entry(*v).or_insert(sp.0);
                    }
                }
                _ => {}
            }
        }
    }
    let detail = |what: &str| {
        // long traces (hundreds of prefill grants) are abbreviated in the middle; the op line replays them exactly
        let tr = &o.run.trace;
        let trs = if tr.len() > 400 { format!("{:?} … {:?}", &tr[..150], &tr[tr.len() - 250..]) } else { format!("{:?}", tr) };
        let rs: Vec<Vec<&Res>> = o.results.iter().map(|r| r.iter().filter(|x| **x != Res::Pushed).collect()).collect();
        format!("{} :: trace {} results(non-push) {:?}", what, trs, rs)
    };
    // ---- a clear whose detach CAS failed (the tail changed between its load and its CAS: a pusher's hand-over or another
    // clear's detach). Since the fix "clear_with retries its detach when the tail moved under it" the clearer goes back to
    // its tail load inside the SAME call (`C05.detach_cas_all_or_nothing`: a failed CAS changes nothing and leads to
    // `cLoadTail`); before the fix the call ended there with nothing delivered.
    let next_of = |gi: usize, t: usize| o.run.trace[gi + 1..].iter().find(|(t2, _)| *t2 == t).map(|x| x.1);
    for g in &sig.failed_detaches {
        let t = o.run.trace[*g].0;
        out.count("clear: detach CAS failed (clear_with loads the tail again and retries)");
        if !matches!(next_of(*g, t), Some("bkt.clear.load_tail") | None) {
            out.oracle_fail(
                "clear_with whose detach compare-exchange failed did not load the tail again (it gave up without draining)",
                &detail(&format!("thread {} grant {} next point {:?}", t, g, next_of(*g, t))),
            );
        }
        let Some(k) = spans[t].iter().position(|sp| sp.0 <= *g && *g <= sp.1) else { continue };
        match (progs[t].get(k), o.results[t].get(k)) {
            (Some(Call::Clear), Some(Res::Clr(vs))) => {
                if !vs.is_empty() {
                    out.count("clear: detach retried after a failed CAS, and the same call delivered values");
                    out.nontrivial();
                }
            }
            (Some(Call::Clear), None) => {} // the run ended before the call returned
            other => out.oracle_fail("trace/program mismatch: a bkt.clear.cas grant inside a call that is not a clear", &detail(&format!("{:?}", other.0))),
        }
    }
    // ---- completeness of clears (Lean: `C05.delivered_once_clear_returned`, schedules without a K1 step): a push that
    // COMPLETED before a clear_with began is, once that clear has returned, no longer reachable from the tail — it has been
    // detached by this clear or by one that began before this one returned. So the clear that delivers it (if the run
    // completed, every detached value is delivered) must have begun before this clear returned; a value still visible at the
    // end, or delivered only by a clear that began later, was left behind by a clear that returned (pre-fix: the failed detach).
    if sig.k1_exact == 0 && o.results.iter().zip(progs.iter()).all(|(r, p)| r.len() == p.len()) {
        let mut checked = 0u64;
        'outer: for (t, prog) in progs.iter().enumerate() {
            for (k, c) in prog.iter().enumerate() {
                if *c != Call::Clear {
                    continue;
                }
                let Some(sp) = spans[t].get(k) else { continue };
                for (v, done_at) in pushed.iter().filter(|(_, d)| **d < sp.0) {
                    checked += 1;
                    let ok = matches!(delivered_began.get(v), Some(b) if *b <= sp.1);
                    if !ok {
                        out.oracle_fail(
                            "a clear_with that began after a push had completed returned, and the value was still in the bucket (left for a later clear) [no-known-signature]",
                            &detail(&format!(
                                "value {} push completed at grant {}, clear of thread {} call {} spans grants {}..{}, delivered by a clear that began at {:?} (signature {})",
                                v, done_at, t, k, sp.0, sp.1, delivered_began.get(v), tag(&sig)
                            )),
                        );
                        break 'outer;
                    }
                }
            }
        }
        if checked > 0 {
            out.count_n("clear completeness: (completed push, later clear that returned) pairs checked", checked);
        }
    }
    // ---- destructors / reclamation: every value handed to push() is dropped exactly once after the final clear(),
    // the drop of the bucket and a drive of the collector; no callback ever saw a dropped value
    if !o.drops.never_dropped.is_empty() {
        out.oracle_fail(
            "value never dropped: leaked by clear()/reclamation (destructor not run after clear + bucket drop + collector flush)",
            &detail(&format!("{} of {} values, first {:?}, flush rounds {}", o.drops.never_dropped.len(), o.drops.created, &o.drops.never_dropped[..o.drops.never_dropped.len().min(8)], o.drops.flush_rounds)),
        );
    }
    if !o.drops.dropped_twice.is_empty() || o.drops.bad_magic_on_drop > 0 {
        out.oracle_fail("value dropped more than once (double free of a block / slot)", &detail(&format!("{:?} bad-magic-drops={}", o.drops.dropped_twice, o.drops.bad_magic_on_drop)));
    }
    if o.drops.bad_magic_on_read > 0 {
        out.oracle_fail("a reader callback was handed a value that had already been dropped (block freed under a reader)", &detail(&o.drops.bad_magic_on_read.to_string()));
    }
    if !o.empty_after_clear {
        out.oracle_fail("bucket not empty right after clear() with no concurrent pusher", &detail(""));
    }
    // grant index of the successful slot claim of every push (a claim is successful iff that thread's next point is
    // the publish step)
    let mut claim_at: BTreeMap<u64, usize> = BTreeMap::new();
    for (t, prog) in progs.iter().enumerate() {
        let mine: Vec<(usize, &str)> = o.run.trace.iter().enumerate().filter(|(_, (t2, _))| *t2 == t).map(|(gi, (_, id))| (gi, *id)).collect();
        let mut k = 0;
        for w in mine.windows(2) {
            while k < spans[t].len() && spans[t][k].1 < w[0].0 {
                k += 1;
            }
            if w[0].1 == "blk.push.claim" && w[1].1 == "blk.push.publish" {
                if let Some(Call::Push(v)) = prog.get(k) {
                    claim_at.insert(*v, w[0].0);
                }
            }
        }
    }
    // ---- callback protocol: one callback per block walked (= per `read` point of that call), slices of at most B,
    // and the concatenation is what the call reported
    for (t, prog) in progs.iter().enumerate() {
        let mut reads_per_call: Vec<usize> = vec![0; spans[t].len()];
        for (gi, (t2, id)) in o.run.trace.iter().enumerate() {
            if *t2 == t && (*id == "bkt.data.read" || *id == "bkt.clear.read") {
                if let Some(k) = spans[t].iter().position(|sp| sp.0 <= gi && gi <= sp.1) {
                    reads_per_call[k] += 1;
                }
            }
        }
        for (i, c) in prog.iter().enumerate() {
            let (Some(r), Some(lens)) = (o.results[t].get(i), o.cbs[t].get(i)) else { continue };
            if !matches!(c, Call::Data | Call::Clear) {
                continue;
            }
            let n = match r {
                Res::Snap(v) | Res::Clr(v) => v.len(),
                _ => 0,
            };
            // values of one block appear in push (= slot claim) order
            if let Res::Snap(v) | Res::Clr(v) = r {
                let mut at = 0;
                for l in lens {
                    let sl = &v[at.min(v.len())..(at + l).min(v.len())];
                    at += l;
                    let idx: Vec<Option<&usize>> = sl.iter().map(|x| claim_at.get(x)).collect();
                    if idx.iter().any(|x| x.is_none()) || idx.windows(2).any(|w| w[0] >= w[1]) {
                        out.oracle_fail("values of one block are not in push (slot claim) order", &detail(&format!("thread {} call {} slice {:?}", t, i, sl)));
                    }
                }
            }
            if lens.iter().any(|l| *l > B) || lens.iter().sum::<usize>() != n || reads_per_call.get(i).copied() != Some(lens.len()) {
                out.oracle_fail(
                    "callback protocol: not exactly one callback (slice ≤ block size) per block walked",
                    &detail(&format!("thread {} call {} slice lengths {:?} blocks read {:?}", t, i, lens, reads_per_call.get(i))),
                );
            }
        }
    }
    if !dup.is_empty() {
        out.oracle_fail(&format!("value delivered to more than one clearing read [{}]", tag(&sig)), &detail(&format!("{:?}", dup)));
    }
    let all_seen: BTreeSet<u64> = delivered
        .keys()
        .copied()
        .chain(o.final_visible.iter().copied())
        .chain(o.results.iter().flatten().flat_map(|r| match r {
            Res::Snap(v) => v.clone(),
            _ => vec![],
        }))
        .collect();
    let ever_pushed: BTreeSet<u64> = progs.iter().flatten().filter_map(|c| if let Call::Push(v) = c { Some(*v) } else { None }).collect();
    if let Some(f) = all_seen.iter().find(|v| !ever_pushed.contains(v)) {
        out.oracle_fail("a value was observed that was never pushed (fabricated / read before written)", &detail(&f.to_string()));
    }
    // conservation at the end: every completed push is delivered exactly once or still visible
    let mut fin: BTreeMap<u64, usize> = BTreeMap::new();
    for v in &o.final_visible {
        *fin.entry(*v).or_insert(0) += 1;
    }
    for (v, _) in &pushed {
        let d = delivered.contains_key(v) as usize;
        let f = fin.get(v).copied().unwrap_or(0);
        if d + f == 0 {
            out.oracle_fail(&format!("pushed value lost: neither delivered to a clear nor visible afterwards [{}]", tag(&sig)), &detail(&v.to_string()));
        } else if d + f > 1 {
            out.oracle_fail(&format!("pushed value duplicated (delivered and still visible, or visible twice) [{}]", tag(&sig)), &detail(&v.to_string()));
        }
    }
    // snapshots and is_empty account for every push completed before they began that no clear has taken
    for (t, prog) in progs.iter().enumerate() {
        for (i, c) in prog.iter().enumerate() {
            let (Some(r), Some(sp)) = (o.results[t].get(i), spans[t].get(i)) else { continue };
            if matches!(c, Call::Push(_) | Call::Clear) {
                continue;
            }
            let must: Vec<u64> = pushed
                .iter()
                .filter(|(v, done_at)| **done_at < sp.0 && !delivered.contains_key(v))
                .map(|(v, _)| *v)
                .collect();
            match (c, r) {
                (Call::Data | Call::DataV, Res::Snap(vs)) => {
                    if let Some(m) = must.iter().find(|m| !vs.contains(m)) {
                        out.oracle_fail(
                            &format!("snapshot misses a value whose push completed before it began and that no clear took [{}]", tag(&sig)),
                            &detail(&m.to_string()),
                        );
                    }
                    let mut s2 = vs.clone();
                    s2.sort();
                    if s2.windows(2).any(|w| w[0] == w[1]) {
                        out.oracle_fail("snapshot contains a value twice", &detail(""));
                    }
                }
                (Call::IsEmpty, Res::Empty(true)) => {
                    if !must.is_empty() {
                        out.oracle_fail(
                            &format!("is_empty answered true although a completed push had not been cleared [{}]", tag(&sig)),
                            &detail(&format!("{:?}", must)),
                        );
                    }
                }
                _ => {}
            }
        }
    }
}

fn gen_progs(r: &mut Rng) -> (Vec<Vec<Call>>, Vec<usize>) {
    // thread 0 may be a prefill thread that brings the tail block close to full (hand-over region)
    let mut progs: Vec<Vec<Call>> = vec![];
    let mut next_val = 1u64;
    let mut sch: Vec<usize> = vec![];
    let prefill = match r.below(4) {
        0 => 0,
        1 => B - 2,
        2 => B - 1,
        _ => B,
    };
    if prefill > 0 {
        let mut p = vec![];
        for _ in 0..prefill {
            p.push(Call::Push(next_val));
            next_val += 1;
        }
        progs.push(p);
        // run the prefill thread to completion first: start + 3 grants per push (+1 for the first block)
        for _ in 0..(prefill * 3 + 4) {
            sch.push(0);
        }
    }
    let base = progs.len();
    let n = r.range(2, 3);
    for _ in 0..n {
        let mut p = vec![];
        for _ in 0..r.range(1, 2) {
            let c = match r.weighted(&[5, 2, 3, 2]) {
                0 => {
                    next_val += 1;
                    Call::Push(next_val * 1000)
                }
                1 => {
                    if r.chance(1, 4) {
                        Call::DataV
                    } else {
                        Call::Data
                    }
                }
                2 => Call::Clear,
                _ => Call::IsEmpty,
            };
            p.push(c);
        }
        progs.push(p);
    }
    let mut cur = base + r.below(n);
    for _ in 0..60 {
        if r.chance(2, 5) {
            cur = base + r.below(n);
        }
        sch.push(cur);
    }
    (progs, sch)
}

/// `bucket k1`: the model evaluates the K1 predicate (`k1Step`, counted by `k1Fold`) on the schedule that was executed;
/// the implementation side answers with the count read off its own trace (`Sig::k1_exact`)
fn k1_op(out: &mut Out, progs: &[Vec<Call>], taken: &[usize], sig: &Sig) {
    out.op(
        &format!("bucket k1 {} {} {}", B, list(progs.iter().map(|p| prog_tok(p))), sched::sched_tok(taken)),
        &format!("k1={}", sig.k1_exact),
    );
}

fn one(out: &mut Out, progs: &[Vec<Call>], sch: &[usize]) {
    let o = execute(progs, sch);
    let taken: Vec<usize> = o.run.trace.iter().map(|(t, _)| *t).collect();
    out.op(
        &format!("bucket run {} {} {}", B, list(progs.iter().map(|p| prog_tok(p))), sched::sched_tok(&taken)),
        &answer(&o),
    );
    let sig = signatures(&o);
    // the K1 predicate of the Lean development, evaluated by the model on this very schedule, against the count read off
    // the implementation's trace: ties the trace signature that downgrades a loss to the known finding K-C05-K1 to the
    // hypothesis of `C05.conservation_except_K1`
    k1_op(out, progs, &taken, &sig);
    if sig.k1 {
        out.count("sig.K1");
    }
    if sig.k1_exact > 0 {
        out.count("sig.K1 exact (Lean k1Step)");
    }
    if sig.k1 && sig.k1_exact == 0 {
        out.count("sig.K1 coarse only (a clear's CAS step between a pusher's load and claim, but no claim on a detached block)");
    }
    if sig.k2 {
        out.count("sig.K2");
    }
    if sig.k3 {
        out.count("sig.K3");
    }
    if o.run.trace.iter().any(|(_, id)| *id == "bkt.push.cas_new") {
        out.count("hand-over reached");
        out.nontrivial();
    }
    if o.run.trace.iter().any(|(_, id)| id.starts_with("spin:")) {
        out.count("reader waited for quiescence");
        out.nontrivial();
    }
    // longest wait of one reader call on one block (grants at the spin point without leaving it)
    let mut longest = 0usize;
    let mut cur: BTreeMap<usize, usize> = BTreeMap::new();
    for (t, id) in &o.run.trace {
        if id.starts_with("spin:") {
            let c = cur.entry(*t).or_insert(0);
            *c += 1;
            longest = longest.max(*c);
        } else {
            cur.insert(*t, 0);
        }
    }
    if longest >= 12 {
        out.count("reader waited ≥12 rounds (beyond any Backoff completion)");
    }
    if longest >= 40 {
        out.count("reader waited ≥40 rounds");
    }
    // the pusher that installed a new block found it already full when it claimed (push retry path)
    let tr = &o.run.trace;
    for (gi, (t, id)) in tr.iter().enumerate() {
        if *id == "bkt.push.cas_new" {
            let mine: Vec<&str> = tr[gi + 1..].iter().filter(|(t2, _)| t2 == t).map(|x| x.1).take(2).collect();
            if mine.len() == 2 && mine[0] == "blk.push.claim" && mine[1] == "bkt.push.load_tail" {
                out.count("push: own new block already full (retry path)");
                out.nontrivial();
            }
        }
    }
    let blocks_cleared = o.cbs.iter().flatten().map(|l| l.len()).max().unwrap_or(0);
    if blocks_cleared >= 32 {
        out.count("walk of ≥32 blocks (deferred-destroy batch branch)");
        out.nontrivial();
    }
    out.count_n("values dropped exactly once (destructor accounting)", (o.drops.created - o.drops.never_dropped.len()) as u64);
    oracle(out, progs, &o);
}

/// Stalled-writer generator: one or two pushers are parked somewhere inside their push (before the claim, between
/// slot write and publish, or at the hand-over CAS) for a LONG time — far longer than any bounded back-off —
/// while a busy pusher completes pushes above the stalled slot and readers (snapshot / is_empty / clear) run and
/// wait. Then the stalled pushers are released.
fn gen_stalled(r: &mut Rng) -> (Vec<Vec<Call>>, Vec<usize>) {
    let mut progs: Vec<Vec<Call>> = vec![];
    let mut sch: Vec<usize> = vec![];
    let prefill = *r.pick(&[0usize, 0, 1, 5, 30, 61, 62, 63, 64]);
    if prefill > 0 {
        progs.push(pf(prefill));
        sch.extend(rep(0, prefill * 3 + 4));
    }
    let n_stalled = r.range(1, 2);
    let first_stalled = progs.len();
    for k in 0..n_stalled {
        progs.push(vec![Call::Push(900_001 + k as u64)]);
    }
    let busy = progs.len();
    let m = match r.below(4) {
        0 => r.range(60, 70),
        _ => r.range(8, 20),
    };
    progs.push((0..m as u64).map(|x| Call::Push(10_000 + x)).collect());
    let n_readers = r.range(1, 2);
    let first_reader = progs.len();
    for _ in 0..n_readers {
        let mut p = vec![];
        for _ in 0..r.range(1, 3) {
            p.push(match r.weighted(&[5, 2, 2, 3]) {
                0 => Call::Data,
                1 => Call::DataV,
                2 => Call::Clear,
                _ => Call::IsEmpty,
            });
        }
        progs.push(p);
    }
    // park the stalled pushers: 2 grants = before the claim (tail loaded), 3 = after the slot write / at the
    // hand-over CAS, 4 = (empty bucket) after the slot write / (full tail) after the hand-over CAS
    for k in 0..n_stalled {
        let g = *r.pick(&[2usize, 3, 3, 3, 4]);
        sch.extend(rep(first_stalled + k, g));
    }
    // the busy pusher completes some pushes before any reader starts
    let head = r.below(m - 5);
    sch.extend(rep(busy, 1 + head * 3));
    // long interleaving of the busy pusher and the readers; the stalled pushers are not scheduled
    let others: Vec<usize> = std::iter::once(busy).chain(first_reader..first_reader + n_readers).collect();
    let mut cur = *r.pick(&others);
    for _ in 0..(3 * m + 60) {
        if r.chance(1, 2) {
            cur = *r.pick(&others);
        }
        sch.push(cur);
    }
    // release
    for k in 0..n_stalled {
        sch.extend(rep(first_stalled + k, 8));
    }
    (progs, sch)
}

fn pf(n: usize) -> Vec<Call> {
    (1..=n as u64).map(Call::Push).collect()
}
fn rep(t: usize, n: usize) -> Vec<usize> {
    vec![t; n]
}

pub fn run(cfg: &Cfg, out: &mut Out) {
    let root = Rng::new(cfg.seed);
    // corpus: the known-finding witnesses and the classic shapes
    let mut corpus: Vec<(Vec<Vec<Call>>, Vec<usize>)> = vec![];
    // K1: pusher loads tail, clearer detaches and finishes, pusher claims on the detached block
    corpus.push((
        vec![vec![Call::Push(1)], vec![Call::Push(2)], vec![Call::Clear]],
        [rep(0, 5), vec![1, 1], rep(2, 8), rep(1, 4)].concat(),
    ));
    // K2: 64 pushes, the 65th parked between tail CAS and link; is_empty / data see nothing
    corpus.push((
        vec![pf(B), vec![Call::Push(9000)], vec![Call::IsEmpty, Call::Data]],
        [rep(0, B * 3 + 3), rep(1, 4), rep(2, 8), rep(1, 6)].concat(),
    ));
    // K2 with a clear: the old chain is lost
    corpus.push((
        vec![pf(B), vec![Call::Push(9000)], vec![Call::Clear]],
        [rep(0, B * 3 + 3), rep(1, 4), rep(2, 8), rep(1, 6)].concat(),
    ));
    // K3: slot 0 in flight, slot 1 complete, is_empty
    corpus.push((
        vec![vec![Call::Push(1)], vec![Call::Push(2)], vec![Call::IsEmpty]],
        [rep(0, 4), rep(1, 5), rep(2, 4), rep(0, 3)].concat(),
    ));
    // plain hand-over
    corpus.push((vec![pf(B + 2), vec![Call::Data, Call::Clear, Call::Data]], [rep(0, (B + 2) * 3 + 8), rep(1, 60)].concat()));
    // FAILED DETACH, RETRIED (Lean: C05.failed_detach_witness / detach_cas_all_or_nothing / delivered_once_clear_returned;
    // the pre-fix behaviour is C05.legacy_failed_detach_witness, the bucket-level form of the repaired K-C07-K2): 64 pushes
    // have COMPLETED and fill the tail block; the clearer loads the tail and is parked at its CAS (`bkt.clear.cas`); the
    // 65th push finds the block full, installs a new tail and completes; the clearer's CAS fails: `clear_with` loads the
    // tail again, detaches and delivers all 65 (before the fix it returned having delivered nothing). The snapshot after
    // it sees nothing, the next clear delivers nothing.
    corpus.push((
        vec![pf(B), vec![Call::Push(9000)], vec![Call::Clear, Call::Data, Call::Clear, Call::Data, Call::IsEmpty]],
        [rep(0, B * 3 + 3), rep(2, 2), rep(1, 6), rep(2, 40)].concat(),
    ));
    // the same with the clearer parked at its CAS through TWO hand-overs (the tail it loaded is two blocks back)
    corpus.push((
        vec![pf(B), (0..(B as u64 + 1)).map(|x| Call::Push(9000 + x)).collect(), vec![Call::Clear, Call::DataV, Call::Clear]],
        [rep(0, B * 3 + 3), rep(2, 2), rep(1, 3 * (B + 1) + 6), rep(2, 40)].concat(),
    ));
    // failed detach caused by ANOTHER CLEAR: A loads the tail, B detaches and delivers everything, A's CAS fails (the
    // tail is null): A loads the tail again, finds it null and delivers nothing, nothing is delivered twice
    corpus.push((
        vec![pf(3), vec![Call::Clear, Call::IsEmpty], vec![Call::Clear, Call::Data]],
        [rep(0, 3 * 3 + 3), rep(1, 2), rep(2, 7), rep(1, 6), rep(2, 6)].concat(),
    ));
    // … and with a push re-installing a first block between B's detach and A's CAS (the tail is non-null again, but it is
    // another block than the one A loaded — blocks are never reused while a reader is pinned): A's retry detaches that block
    corpus.push((
        vec![pf(3), vec![Call::Clear, Call::Data], vec![Call::Clear], vec![Call::Push(777)]],
        [rep(0, 3 * 3 + 3), rep(1, 2), rep(2, 7), rep(3, 5), rep(1, 8)].concat(),
    ));
    for (progs, sch) in corpus {
        out.case("corpus");
        one(out, &progs, &sch);
    }
    for i in 0..cfg.cases {
        let mut r = root.fork(i as u64);
        out.case(&format!("seed={} i={}", cfg.seed, i));
        let (progs, sch) = gen_progs(&mut r);
        one(out, &progs, &sch);
    }
    // deep hand-over grid: pusher A (thread 1) is held either just before its hand-over CAS or just after that
    // CAS failed (before it re-loads the tail) while pusher B (thread 2) pushes j more values — through zero, one
    // or two further hand-overs — then A finishes, then B, then a reader snapshots and clears.
    for pre in [B - 1, B] {
        for after_failed_cas in [false, true] {
            for j in [1usize, B - 2, B - 1, B, B + 1, 2 * B - 2, 2 * B - 1, 2 * B, 2 * B + 1] {
                out.case(&format!("deep-handover pre={} after_failed_cas={} j={}", pre, after_failed_cas, j));
                let t0: Vec<Call> = pf(pre);
                let t1 = vec![Call::Push(900_001)];
                let nb = 1 + j + 2;
                let t2: Vec<Call> = (0..nb as u64).map(|x| Call::Push(10_000 + x)).collect();
                let t3 = vec![Call::Data, Call::Clear, Call::Data];
                // A: start, load_tail, claim → parked at cas_new (pre = B) or at publish/claim (pre = B-1)
                let mut sch = [rep(0, pre * 3 + 4), rep(1, 3)].concat();
                // B's first push (with pre = B this performs the hand-over A is about to lose)
                sch.extend(rep(2, 7));
                if after_failed_cas {
                    sch.extend(rep(1, 1)); // A's CAS (fails when B handed over) → parked at load_tail
                }
                sch.extend(rep(2, j * 3 + (j / B + 1) * 3));
                sch.extend(rep(1, 12));
                sch.extend(rep(2, nb * 3 + 12));
                sch.extend(rep(3, 600));
                out.count("deep-handover");
                one(out, &[t0, t1, t2, t3], &sch);
            }
        }
    }
    // ---- failed-detach grid: the clearer (T2) has loaded the tail and is parked at its detach CAS (`bkt.clear.cas`)
    // while the pusher T1 completes j pushes — crossing the hand-over when pre + j > B, which makes the CAS fail —
    // optionally a second clearer (T3) runs a whole clear meanwhile; then T2 goes on (CAS, retry, snapshot, second clear).
    for pre in [1usize, B - 1, B] {
        for j in [1usize, 2, B + 1] {
            for second_clearer in [false, true] {
                out.case(&format!("failed-detach grid pre={} j={} second_clearer={}", pre, j, second_clearer));
                let mut progs = vec![pf(pre), (0..j as u64).map(|x| Call::Push(10_000 + x)).collect(), vec![Call::Clear, Call::Data, Call::Clear, Call::Data]];
                let mut sch = [rep(0, pre * 3 + 4), rep(2, 2), rep(1, 3 * j + 12)].concat();
                if second_clearer {
                    progs.push(vec![Call::Clear]);
                    sch.extend(rep(3, 5 + 3 * 3));
                }
                sch.extend(rep(2, 80));
                out.count("failed-detach grid");
                one(out, &progs, &sch);
            }
        }
    }
    // ---- stalled-writer cases (random): a third as many as the plain random cases
    for i in 0..(cfg.cases / 3).max(20) {
        let mut r = root.fork(1_000_000 + i as u64);
        out.case(&format!("stalled seed={} i={}", cfg.seed, i));
        let (progs, sch) = gen_stalled(&mut r);
        out.count("stalled-writer case");
        one(out, &progs, &sch);
    }
    // ---- stalled-writer grid (deterministic): T1 is parked between its slot write and its publish in slot `s`
    // (s values prefilled by T0); T2 then completes j pushes above it — up to filling the block, optionally going on
    // to install the next block and parking right after that CAS (fresh empty tail in front of a full block with
    // an unpublished low slot), or crossing the hand-over completely; only then the reader T3 starts and waits,
    // for 50 rounds, while the ticker T4 keeps pushing; T1 is released last.
    for s in [0usize, 1, 62] {
        for (j, park_after_cas) in [(1usize, false), (B - 1 - s, false), (B - 1 - s, true), (B - s + 6, false)] {
            if j == 0 {
                continue;
            }
            for reader in [vec![Call::IsEmpty, Call::Data, Call::IsEmpty], vec![Call::DataV, Call::Clear, Call::Data]] {
                out.case(&format!("stall-grid s={} j={} park_after_cas={} reader={}", s, j, park_after_cas, prog_tok(&reader)));
                let mut progs: Vec<Vec<Call>> = vec![];
                let mut sch: Vec<usize> = vec![];
                if s > 0 {
                    progs.push(pf(s));
                    sch.extend(rep(0, s * 3 + 4));
                }
                let t1 = progs.len();
                progs.push(vec![Call::Push(900_001)]);
                sch.extend(rep(t1, if s == 0 { 4 } else { 3 })); // start, load_tail, [cas_first,] claim → parked at publish
                let t2 = progs.len();
                let extra = if park_after_cas { 1 } else { 0 };
                progs.push((0..(j + extra) as u64).map(|x| Call::Push(10_000 + x)).collect());
                let handovers = if s + 1 + j > B { 1 } else { 0 };
                if park_after_cas {
                    sch.extend(rep(t2, 1 + 3 * j + 3)); // j complete pushes, then load_tail, claim (full), cas_new → parked at claim
                } else {
                    sch.extend(rep(t2, 1 + 3 * j + 2 * handovers));
                }
                let t3 = progs.len();
                progs.push(reader.clone());
                let t4 = progs.len();
                progs.push((0..20u64).map(|x| Call::Push(20_000 + x)).collect());
                for _ in 0..50 {
                    sch.push(t3);
                    sch.push(t4);
                }
                sch.extend(rep(t1, 4));
                sch.extend(rep(t3, 400));
                sch.extend(rep(t2, 20));
                sch.extend(rep(t4, 100));
                out.count("stall-grid");
                one(out, &progs, &sch);
            }
        }
    }
    // ---- hand-over WINNER grid: 64 prefilled; A (T1) fails its claim, wins the hand-over CAS and is parked before
    // claiming in its own new block; B (T2) then pushes j values into that block (j ≥ 64: A finds its own block
    // full and starts over — bucket.rs "The block was full, so just loop and start over"; j ≥ 65: through one more
    // hand-over; 129: two more). Optionally a reader (T3) is parked in the middle of its walk (after reading the fresh
    // tail, before following `next`) while all that happens.
    for j in [B - 1, B, B + 1, 2 * B + 1] {
        for reader_mid in [false, true] {
            out.case(&format!("handover-winner j={} reader_mid={}", j, reader_mid));
            let t0 = pf(B);
            let t1 = vec![Call::Push(900_001)];
            let t2: Vec<Call> = (0..j as u64).map(|x| Call::Push(10_000 + x)).collect();
            let t3 = vec![Call::Data, Call::Clear, Call::Data, Call::IsEmpty];
            let mut sch = [rep(0, B * 3 + 4), rep(1, 4)].concat(); // A: start, load_tail, claim (full), cas_new (wins) → parked at claim
            if reader_mid {
                sch.extend(rep(3, 4)); // start, load_tail, quiesced, read → parked at next
            }
            sch.extend(rep(2, 1 + 3 * j + 2 * (j / B) + 4));
            sch.extend(rep(1, 12));
            sch.extend(rep(3, 600));
            out.count("handover-winner");
            one(out, &[t0, t1, t2, t3], &sch);
        }
    }
    // ---- PARKED-WALKER grid (reclamation under a pinned thread): a chain of nb full blocks (+ r values in a newer, partly
    // filled one); the victim T1 — a snapshot reader (data_with / data()) or a pusher that has loaded the full tail — is
    // parked g1 grants into its call (tail loaded / first block read, before following `next` / second block loaded / second
    // block read); optionally T3 hands the tail over first (so that every block T1 knows is an OLDER block of the chain);
    // then the clearer T2 detaches and walks the whole chain and returns, T4 pushes into fresh blocks (allocations that may
    // re-use whatever was freed), and only then T1 goes on through the blocks the clear has retired.  Every block of a
    // detached chain — not only the detached tail — must outlive every thread pinned before the detach; the online oracle
    // in `Tv::drop` decides this at the grant in which a destructor runs, before T1 is resumed.
    for nb in [2usize, 3] {
        for r in [0usize, 5] {
            for victim in [Call::Data, Call::DataV, Call::Push(900_001)] {
                for g1 in [2usize, 4, 5, 7] {
                    for pre_push in [false, true] {
                        if matches!(victim, Call::Push(_)) && (g1 != 2 || r != 0) {
                            continue;
                        }
                        out.case(&format!("parked-walker nb={} r={} victim={} g1={} pre_push={}", nb, r, prog_tok(&[victim]), g1, pre_push));
                        let n = nb * B + r;
                        let progs = vec![
                            pf(n),
                            vec![victim],
                            vec![Call::Clear, Call::Data],
                            vec![Call::Push(800_001)],
                            vec![Call::Push(800_002), Call::Push(800_003)],
                        ];
                        let mut sch = rep(0, 3 * n + 2 * (nb + 1) + 8);
                        sch.extend(rep(1, g1));
                        if pre_push {
                            sch.extend(rep(3, 8));
                        }
                        sch.extend(rep(2, 3 + 3 * (nb + 2) + 2)); // the whole clear_with (the Data call of T2 comes last)
                        sch.extend(rep(4, 12));
                        sch.extend(rep(1, 40 + 3 * (nb + 2)));
                        sch.extend(rep(3, 8));
                        sch.extend(rep(2, 60));
                        out.count("parked-walker grid");
                        out.nontrivial();
                        one(out, &progs, &sch);
                    }
                }
            }
        }
    }
    // ---- long chains: more than DEFERRED_BLOCK_BATCH_SIZE (32) blocks in one clear — the deferred-destroy batch
    // branch of clear_with — with a push arriving while the clear walks the detached chain
    let chain_sizes: Vec<usize> = if cfg.thorough { vec![32 * B, 33 * B + 7, 65 * B + 1] } else { vec![32 * B, 33 * B + 7] };
    for n in chain_sizes {
        out.case(&format!("long-chain n={}", n));
        let t0 = pf(n);
        let t1 = vec![Call::Data, Call::Clear, Call::Data, Call::IsEmpty];
        let t2 = vec![Call::Push(900_001), Call::Push(900_002)];
        let blocks = (n + B - 1) / B;
        let mut sch = rep(0, 3 * n + 2 * blocks + 8);
        sch.extend(rep(1, 3 * blocks + 4)); // the snapshot
        sch.extend(rep(1, 2 + 3 * 12)); // the clear: tail load, detach CAS, then 12 blocks into the walk
        sch.extend(rep(2, 6)); // a push lands in a fresh block meanwhile
        sch.extend(rep(1, 3 * blocks + 20));
        sch.extend(rep(2, 6));
        out.count("long-chain");
        one(out, &[t0, t1, t2], &sch);
    }
    unwinding_callbacks(out);
    free_running(cfg, out, &root);
    api_surface(out);
    if cfg.thorough {
        let configs: Vec<(Vec<Vec<Call>>, Vec<usize>)> = vec![
            (vec![vec![Call::Push(1)], vec![Call::Push(2)], vec![Call::Clear]], vec![]),
            (vec![vec![Call::Push(1)], vec![Call::Push(2), Call::IsEmpty], vec![Call::Data]], vec![]),
            (vec![vec![Call::Push(1), Call::Push(2)], vec![Call::Clear, Call::Data]], vec![]),
            // hand-over region: 63 prefilled, then all interleavings of two pushers and a clearer
            (vec![pf(B - 1), vec![Call::Push(7001)], vec![Call::Push(7002)], vec![Call::Clear]], rep(0, (B - 1) * 3 + 3)),
            (vec![pf(B), vec![Call::Push(7001)], vec![Call::Data], vec![Call::IsEmpty]], rep(0, B * 3 + 3)),
        ];
        for (progs, fixed_prefix) in configs {
            let mut prefix: Vec<usize> = fixed_prefix.clone();
            let mut runs = 0usize;
            let mut exhausted = false;
            out.case(&format!("exhaustive {}", list(progs.iter().map(|p| prog_tok(p)))));
            loop {
                let o = execute(&progs, &prefix);
                runs += 1;
                let taken: Vec<usize> = o.run.trace.iter().map(|(t, _)| *t).collect();
                out.op(
                    &format!("bucket run {} {} {}", B, list(progs.iter().map(|p| prog_tok(p))), sched::sched_tok(&taken)),
                    &answer(&o),
                );
                // K1 predicate of the model vs the trace: every run where the coarse signature and the exact count disagree
                // (coarse only), and every eighth of the rest
                if progs.iter().flatten().any(|c| matches!(c, Call::Clear)) {
                    let sig = signatures(&o);
                    if (sig.k1 && sig.k1_exact == 0) || runs % 8 == 0 {
                        k1_op(out, &progs, &taken, &sig);
                    }
                    if sig.k1_exact > 0 {
                        out.count("exhaustive: runs with a K1 step (Lean k1Step)");
                    } else if sig.k1 {
                        out.count("exhaustive: runs with the coarse K1 signature only");
                    }
                }
                oracle(out, &progs, &o);
                // the prefilled configurations cost ~200 grants per run: cap them lower
                if runs >= (if fixed_prefix.is_empty() { 30000 } else { 2500 }) {
                    break;
                }
                // backtrack only after the fixed prefix (the prefill is not permuted)
                let mut i = taken.len();
                let mut next = None;
                while i > fixed_prefix.len() {
                    i -= 1;
                    if let Some(alt) = o.run.choices[i].iter().copied().filter(|c| *c > taken[i]).min() {
                        next = Some((i, alt));
                        break;
                    }
                }
                match next {
                    None => {
                        exhausted = true;
                        break;
                    }
                    Some((i, alt)) => {
                        prefix = taken[..i].to_vec();
                        prefix.push(alt);
                    }
                }
            }
            out.count_n(&format!("exhaustive.runs.{}", runs_key(&progs)), runs as u64);
            out.count(&format!("exhaustive.complete={}", exhausted));
            out.nontrivial();
        }
    }
}

/// `clear_with` whose CALLBACK UNWINDS (audit item "unwinding user code"): nb full blocks (+ r values in a newer block)
/// have been pushed and every push has COMPLETED; T1 calls `clear_with` with a callback that unwinds in its k-th
/// invocation, then snapshots, clears again and asks is_empty; optionally a pusher T2 pushes one value while T1 is parked
/// right behind its detach.  The run is replayed on the Lean machine with the grant of the unwinding callback marked
/// (`bucket unwind`, Model/BucketUnwind.lean: the unwind ends the call, no shared state changes): same points, same results,
/// same visible set, and the values that are neither delivered nor visible afterwards are exactly the model's orphaned
/// set.  What the real code does there is the finding K-C05-unwind (REPORT): the rest of the detached chain is lost (and
/// never freed).  It is COUNTED, not alarmed (proposed known finding; `C05.unwinding_callback_loses_rest_of_chain`); every
/// other oracle (duplicate, fabricated, dropped twice, read after drop, later calls see an empty bucket that is usable) is
/// asserted.
fn unwinding_callbacks(out: &mut Out) {
    for (nb, r) in [(1usize, 0usize), (2, 0), (2, 5), (3, 0), (34, 3)] {
        let n_blocks = nb + (r > 0) as usize;
        let ks: Vec<usize> = if nb > 30 { vec![1, 32, 33, n_blocks] } else { (1..=n_blocks + 1).collect() };
        for k in ks {
            for racing_push in [false, true] {
                if racing_push && nb > 3 {
                    continue;
                }
                out.case(&format!("unwinding-callback nb={} r={} k={} racing_push={}", nb, r, k, racing_push));
                out.count("unwinding-callback case");
                out.nontrivial();
                let n = nb * B + r;
                let progs = vec![pf(n), vec![Call::ClearPanic(k), Call::Data, Call::Clear, Call::IsEmpty], vec![Call::Push(800_001)]];
                let mut sch = rep(0, 3 * n + 2 * n_blocks + 8);
                sch.extend(rep(1, 3)); // start, tail load, detach CAS → parked at the first `quiesced`
                if racing_push {
                    sch.extend(rep(2, 6));
                }
                sch.extend(rep(1, 3 * n_blocks + 30));
                sch.extend(rep(2, 6));
                let o = execute(&progs, &sch);
                let taken: Vec<usize> = o.run.trace.iter().map(|(t, _)| *t).collect();
                // the grant in which the k-th callback of T1's first call ran: the k-th `bkt.clear.read` grant of thread 1
                // that lies before T1's first `bkt.data.load_tail`
                let end_first = o.run.trace.iter().position(|(t, id)| *t == 1 && *id == "bkt.data.load_tail").unwrap_or(o.run.trace.len());
                let reads: Vec<usize> = o.run.trace[..end_first].iter().enumerate().filter(|(_, (t, id))| *t == 1 && *id == "bkt.clear.read").map(|x| x.0).collect();
                let marks: Vec<usize> = reads.get(k - 1).copied().into_iter().collect();
                let unwound = !marks.is_empty();
                let pushed: BTreeSet<u64> = progs.iter().flatten().filter_map(|c| if let Call::Push(v) = c { Some(*v) } else { None }).collect();
                let mut delivered: Vec<u64> = vec![];
                let mut snaps: Vec<u64> = vec![];
                for r in o.results.iter().flatten() {
                    match r {
                        Res::Clr(v) => delivered.extend(v.iter().copied()),
                        Res::Snap(v) => snaps.extend(v.iter().copied()),
                        _ => {}
                    }
                }
                let accounted: BTreeSet<u64> = delivered.iter().chain(o.final_visible.iter()).copied().collect();
                let lost: Vec<u64> = pushed.iter().copied().filter(|v| !accounted.contains(v)).collect();
                out.op(
                    &format!("bucket unwind {} {} {} {}", B, list(progs.iter().map(|p| prog_tok(p))), sched::sched_tok(&taken), sched::sched_tok(&marks)),
                    &format!("{} | orphaned={}", answer(&o), vals(&lost)),
                );
                if o.run.deadlock || o.run.timed_out || !o.run.panicked.is_empty() || o.results.iter().zip(progs.iter()).any(|(r, p)| r.len() != p.len()) {
                    out.oracle_fail("unwinding callback: the run did not complete (deadlock, time-out, or the unwind escaped the call)", &format!("{:?}", o.run.trace));
                    continue;
                }
                if unwound {
                    out.count("unwinding-callback: the callback unwound inside clear_with");
                    out.count_n("finding K-C05-unwind: values neither delivered nor visible after a clear_with whose callback unwound (rest of the detached chain)", lost.len() as u64);
                    out.count_n("finding K-C05-unwind: values never destroyed afterwards (blocks of the detached chain never retired)", o.drops.never_dropped.len() as u64);
                    if !lost.is_empty() {
                        out.count("finding K-C05-unwind: runs that lost completed pushes to an unwinding callback");
                        // known finding K-C05-unwind (listed in known_findings.json; recognised only where the model
                        // reproduces the run — the `bucket unwind` op above carries the orphaned set)
                        out.oracle_fail(
                            "clear_with callback unwound: rest of the detached chain lost (neither delivered nor visible, never destroyed)",
                            &format!("lost {:?}; {} values never destroyed", vals(&lost), o.drops.never_dropped.len()),
                        );
                    }
                } else {
                    // the callback never reached its k-th invocation: an ordinary clear — nothing may be lost or leaked
                    if !lost.is_empty() || !o.drops.never_dropped.is_empty() {
                        out.oracle_fail("pushed value lost or leaked by a clear_with whose callback did NOT unwind", &format!("lost {:?} never dropped {:?}", lost, o.drops.never_dropped.len()));
                    }
                }
                // whatever the callback did: nothing twice, nothing invented, nothing read after its destructor, and the
                // bucket is empty and usable for the later calls of T1
                let mut d2 = delivered.clone();
                d2.sort();
                if d2.windows(2).any(|w| w[0] == w[1]) || delivered.iter().any(|v| o.final_visible.contains(v)) {
                    out.oracle_fail("unwinding callback: value delivered to more than one clearing read (or delivered and still visible)", &format!("{:?}", d2));
                }
                if delivered.iter().chain(snaps.iter()).chain(o.final_visible.iter()).any(|v| !pushed.contains(v)) {
                    out.oracle_fail("unwinding callback: a value was observed that was never pushed", "");
                }
                if !o.drops.dropped_twice.is_empty() || o.drops.bad_magic_on_drop > 0 || o.drops.bad_magic_on_read > 0 || !o.drops.premature.is_empty() {
                    out.oracle_fail("unwinding callback: value dropped twice / read after its destructor / destroyed under a pinned thread", &format!("{:?} {:?}", o.drops.dropped_twice, o.drops.premature));
                }
                if !o.empty_after_clear {
                    out.oracle_fail("unwinding callback: bucket not empty right after a later clear()", "");
                }
            }
        }
    }
}

/// Free-running stress (no scheduler, real preemption, the real `Backoff` waits): pushers, snapshot readers,
/// is_empty callers and — every other round — clearers on one `AtomicBucket<Tv>`. All oracles are logical (no
/// timing): a pusher publishes its progress with a Release store AFTER `push` returned, a reader loads the progress
/// counters with Acquire BEFORE it starts a snapshot, so every value below the loaded progress is a push that
/// completed before the snapshot began. Rounds with clearers cannot assert completeness or conservation (the known
/// K1 window loses values and no trace is available to recognise it); they assert no duplicate, no fabrication,
/// block order, and — like every round — that every value is dropped exactly once after the final clear().
fn free_running(cfg: &Cfg, out: &mut Out, root: &Rng) {
    let rounds = if cfg.thorough { 16 } else { 6 };
    for k in 0..rounds {
        let mut r = root.fork(2_000_000 + k as u64);
        let n_push = r.range(2, 4);
        let per = if cfg.thorough { r.range(2000, 6000) } else { r.range(500, 2000) };
        let n_snap = r.range(1, 2);
        let with_clear = k % 2 == 1;
        out.case(&format!("free-running k={} pushers={} per={} snapshot-readers={} clearer={}", k, n_push, per, n_snap, with_clear));
        out.count("free-running round");
        let reg: Arc<Reg> = Arc::new(Reg::default());
        let bucket: AtomicBucket<Tv> = AtomicBucket::default();
        let progress: Vec<AtomicUsize> = (0..n_push).map(|_| AtomicUsize::new(0)).collect();
        let done = AtomicUsize::new(0);
        let val = |t: usize, i: usize| ((t + 1) * 10_000_000 + i) as u64;
        let decode = |v: u64| -> Option<(usize, usize)> {
            let (t, i) = ((v / 10_000_000) as usize, (v % 10_000_000) as usize);
            if t >= 1 && t <= n_push && i < per {
                Some((t - 1, i))
            } else {
                None
            }
        };
        let fails: Mutex<Vec<(String, String)>> = Mutex::new(vec![]);
        let delivered: Mutex<Vec<u64>> = Mutex::new(vec![]);
        let snapshots = AtomicUsize::new(0);
        let waited_nonempty = AtomicUsize::new(0);
        std::thread::scope(|sc| {
            for t in 0..n_push {
                let (bucket, reg, progress, done) = (&bucket, &reg, &progress, &done);
                sc.spawn(move || {
                    for i in 0..per {
                        bucket.push(Tv::new(reg, val(t, i)));
                        progress[t].store(i + 1, Ordering::Release);
                        if i % 97 == 0 {
                            std::thread::yield_now();
                        }
                    }
                    done.fetch_add(1, Ordering::SeqCst);
                });
            }
            for _ in 0..n_snap {
                let (bucket, progress, done, fails, snapshots, waited_nonempty) = (&bucket, &progress, &done, &fails, &snapshots, &waited_nonempty);
                sc.spawn(move || {
                    let mut last = false;
                    loop {
                        // `last`: one more snapshot after all pushers are done
                        let finished = done.load(Ordering::SeqCst) == n_push;
                        let before: Vec<usize> = progress.iter().map(|p| p.load(Ordering::Acquire)).collect();
                        let empty = bucket.is_empty();
                        let mut slices: Vec<Vec<u64>> = vec![];
                        bucket.data_with(|b| slices.push(b.iter().map(|x| x.read()).collect()));
                        snapshots.fetch_add(1, Ordering::Relaxed);
                        let mut seen: BTreeSet<u64> = BTreeSet::new();
                        let mut fail = |w: &str, d: String| fails.lock().unwrap().push((w.to_string(), d));
                        for sl in &slices {
                            if sl.len() > B {
                                fail("free-running: callback slice longer than a block", format!("{}", sl.len()));
                            }
                            let mut last_i: Vec<Option<usize>> = vec![None; n_push];
                            for v in sl {
                                match decode(*v) {
                                    None => fail("free-running: a value was observed that was never pushed (fabricated / read before written)", format!("{}", v)),
                                    Some((t, i)) => {
                                        if last_i[t].map_or(false, |l| l >= i) {
                                            fail("free-running: values of one pusher within one block are not in push order", format!("{:?}", sl));
                                        }
                                        last_i[t] = Some(i);
                                    }
                                }
                                if !seen.insert(*v) {
                                    fail("free-running: snapshot contains a value twice", format!("{}", v));
                                }
                            }
                        }
                        if !with_clear {
                            for (t, p) in before.iter().enumerate() {
                                if let Some(i) = (0..*p).find(|i| !seen.contains(&val(t, *i))) {
                                    fail(
                                        "free-running: snapshot misses a value whose push completed before it began (no clear running)",
                                        format!("pusher {} index {} (progress before the snapshot {}), snapshot size {}", t, i, p, seen.len()),
                                    );
                                }
                            }
                            if empty && before.iter().any(|p| *p > 0) {
                                fail("free-running: is_empty answered true although a push had completed (no clear running)", format!("{:?}", before));
                            }
                            if before.iter().any(|p| *p > 0) {
                                waited_nonempty.fetch_add(1, Ordering::Relaxed);
                            }
                        }
                        if last {
                            break;
                        }
                        last = finished;
                        std::thread::yield_now();
                    }
                });
            }
            if with_clear {
                let (bucket, done, delivered, fails) = (&bucket, &done, &delivered, &fails);
                sc.spawn(move || loop {
                    let finished = done.load(Ordering::SeqCst) == n_push;
                    let mut got: Vec<u64> = vec![];
                    bucket.clear_with(|b| {
                        if b.len() > B {
                            fails.lock().unwrap().push(("free-running: callback slice longer than a block".into(), format!("{}", b.len())));
                        }
                        got.extend(b.iter().map(|x| x.read()))
                    });
                    delivered.lock().unwrap().extend(got);
                    if finished {
                        break;
                    }
                    for _ in 0..20 {
                        std::thread::yield_now();
                    }
                });
            }
        });
        let mut fin: Vec<u64> = vec![];
        bucket.data_with(|b| fin.extend(b.iter().map(|x| x.read())));
        let delivered = delivered.into_inner().unwrap();
        let mut fails = fails.into_inner().unwrap();
        let mut count: BTreeMap<u64, usize> = BTreeMap::new();
        for v in delivered.iter().chain(fin.iter()) {
            *count.entry(*v).or_insert(0) += 1;
            if decode(*v).is_none() {
                fails.push(("free-running: a value was observed that was never pushed (fabricated / read before written)".into(), v.to_string()));
            }
        }
        if let Some((v, n)) = count.iter().find(|(_, n)| **n > 1) {
            fails.push(("free-running: pushed value duplicated (delivered twice, or delivered and still visible)".into(), format!("{} x{}", v, n)));
        }
        let lost = n_push * per - count.len().min(n_push * per);
        if !with_clear && lost > 0 {
            fails.push(("free-running: pushed value lost although no clear ever ran".into(), format!("{} of {}", lost, n_push * per)));
        }
        out.count_n("free-running: pushes", (n_push * per) as u64);
        out.count_n("free-running: snapshots checked", snapshots.load(Ordering::Relaxed) as u64);
        out.count_n("free-running: snapshots that had completed pushes to account for", waited_nonempty.load(Ordering::Relaxed) as u64);
        if with_clear {
            out.count_n("free-running: values delivered to concurrent clears", delivered.len() as u64);
            out.count_n("free-running: completed pushes lost to racing clears (K1 window; not alarmed: no trace to recognise it)", lost as u64);
        }
        // reclamation
        bucket.clear();
        let empty_after = bucket.is_empty();
        drop(bucket);
        let rounds_used = flush_epoch(&reg);
        let d = drop_report(&reg, rounds_used);
        if !empty_after {
            fails.push(("free-running: bucket not empty right after clear()".into(), String::new()));
        }
        if !d.never_dropped.is_empty() {
            fails.push((
                "value never dropped: leaked by clear()/reclamation (destructor not run after clear + bucket drop + collector flush)".into(),
                format!("{} of {} (flush rounds {})", d.never_dropped.len(), d.created, d.flush_rounds),
            ));
        }
        if !d.dropped_twice.is_empty() || d.bad_magic_on_drop > 0 {
            fails.push(("value dropped more than once (double free of a block / slot)".into(), format!("{:?}", &d.dropped_twice[..d.dropped_twice.len().min(8)])));
        }
        if d.bad_magic_on_read > 0 {
            fails.push(("a reader callback was handed a value that had already been dropped (block freed under a reader)".into(), d.bad_magic_on_read.to_string()));
        }
        out.count_n("values dropped exactly once (destructor accounting)", (d.created - d.never_dropped.len()) as u64);
        fails.dedup_by(|a, b| a.0 == b.0);
        for (w, dt) in fails.iter().take(6) {
            out.oracle_fail(w, &format!("{} :: free-running round k={} seed={} (pushers={} per={} readers={} clearer={})", dt, k, cfg.seed, n_push, per, n_snap, with_clear));
        }
        out.nontrivial();
    }
}

/// Sequential API surface that the scheduled runs do not reach: `Default`, `Debug`, `clear()`, `data()`, the
/// `HistogramFn` impl for `AtomicBucket<f64>`; and what happens to values still in a bucket that is dropped.
fn api_surface(out: &mut Out) {
    use metrics::HistogramFn;
    out.case("api-surface");
    let b: AtomicBucket<f64> = AtomicBucket::default();
    if !b.is_empty() || !b.data().is_empty() {
        out.oracle_fail("api: a default bucket is not empty", "");
    }
    let want: Vec<f64> = (0..(2 * B + 3)).map(|i| i as f64 * 0.5).collect();
    for v in &want {
        b.record(*v);
    }
    let _ = format!("{:?}", b);
    // blocks newest first, each block in push order
    let mut expect: Vec<f64> = vec![];
    for chunk in want.chunks(B).rev() {
        expect.extend_from_slice(chunk);
    }
    let got = b.data();
    if got.iter().map(|x| x.to_bits()).collect::<Vec<_>>() != expect.iter().map(|x| x.to_bits()).collect::<Vec<_>>() {
        out.oracle_fail("api: HistogramFn::record + data() do not return the recorded values (blocks newest first, push order within a block)", &format!("{:?}", got));
    }
    b.clear();
    if !b.is_empty() || !b.data().is_empty() {
        out.oracle_fail("api: bucket not empty after clear()", "");
    }
    b.record(7.0);
    if b.data() != vec![7.0] {
        out.oracle_fail("api: push after clear() not visible", "");
    }
    // a bucket dropped with values still in it: are they ever dropped?  (reported as a counter, see REPORT.md)
    let reg: Arc<Reg> = Arc::new(Reg::default());
    {
        let bk: AtomicBucket<Tv> = AtomicBucket::new();
        for i in 0..(B + 5) as u64 {
            bk.push(Tv::new(&reg, i));
        }
    }
    // drive the collector a bounded number of rounds (nothing was deferred, so this cannot change the outcome; it
    // only shows that the values are not merely "not yet" dropped)
    for _ in 0..64 {
        let scratch: AtomicBucket<u8> = AtomicBucket::new();
        scratch.push(0);
        scratch.clear();
    }
    let d = drop_report(&reg, 64);
    out.count_n("finding: values never dropped when a non-empty bucket is dropped without clear() (AtomicBucket has no Drop)", d.never_dropped.len() as u64);
    out.count_n("api-surface: values pushed into a bucket dropped without clear()", d.created as u64);
}

fn runs_key(progs: &[Vec<Call>]) -> String {
    list(progs.iter().map(|p| if p.len() > 6 { format!("prefill{}", p.len()) } else { prog_tok(p) }))
}
