//! C05 — the lock-free bucket never loses, duplicates or invents a sample.
//!
//! Real `AtomicBucket<u64>`s driven by pusher / snapshot / clear / is_empty threads under the deterministic
//! scheduler (one shared-memory operation per grant, yield points in bucket.rs); every executed schedule is
//! replayed on the Lean step machine (`bucket run 64 …`), which must take the same steps and return the
//! same values. Implementation-side oracles check conservation directly on what the real code returned.

use crate::sched;
use crate::util::*;
use metrics_util::storage::AtomicBucket;
use std::collections::{BTreeMap, BTreeSet};
use std::sync::{Arc, Mutex};

pub const B: usize = 64;

#[derive(Clone, Copy, Debug, PartialEq)]
pub enum Call {
    Push(u64),
    Data,
    Clear,
    IsEmpty,
}

pub fn prog_tok(p: &[Call]) -> String {
    if p.is_empty() {
        return "-".into();
    }
    // run-length shorthand is not used: programs are short except the prefill, which is explicit
    p.iter()
        .map(|c| match c {
            Call::Push(v) => format!("p{}", v),
            Call::Data => "d".into(),
            Call::Clear => "c".into(),
            Call::IsEmpty => "e".into(),
        })
        .collect::<Vec<_>>()
        .join("+")
}

#[derive(Clone, Debug, PartialEq)]
pub enum Res {
    Pushed,
    Snap(Vec<u64>),
    Clr(Vec<u64>),
    Empty(bool),
}

fn vals(v: &[u64]) -> String {
    if v.is_empty() {
        "[]".into()
    } else {
        format!("[{}]", v.iter().map(|x| x.to_string()).collect::<Vec<_>>().join("/"))
    }
}

pub struct Outcome {
    pub results: Vec<Vec<Res>>,
    pub final_visible: Vec<u64>,
    pub run: sched::RunResult,
}

pub fn execute(progs: &[Vec<Call>], schedule: &[usize]) -> Outcome {
    let bucket: Arc<AtomicBucket<u64>> = Arc::new(AtomicBucket::new());
    let results: Arc<Mutex<Vec<Vec<Res>>>> = Arc::new(Mutex::new(vec![vec![]; progs.len()]));
    let mut bodies: Vec<Box<dyn FnOnce() + Send + 'static>> = vec![];
    for (t, prog) in progs.iter().enumerate() {
        let prog = prog.clone();
        let bucket = bucket.clone();
        let results = results.clone();
        bodies.push(Box::new(move || {
            for c in prog {
                let r = match c {
                    Call::Push(v) => {
                        bucket.push(v);
                        Res::Pushed
                    }
                    Call::Data => {
                        let mut acc = vec![];
                        bucket.data_with(|b| acc.extend_from_slice(b));
                        Res::Snap(acc)
                    }
                    Call::Clear => {
                        let mut acc = vec![];
                        bucket.clear_with(|b| acc.extend_from_slice(b));
                        Res::Clr(acc)
                    }
                    Call::IsEmpty => Res::Empty(bucket.is_empty()),
                };
                results.lock().unwrap()[t].push(r);
            }
        }));
    }
    let run = sched::run(bodies, schedule);
    let final_visible = if run.deadlock || run.timed_out { vec![] } else { bucket.data() };
    let res = results.lock().unwrap().clone();
    Outcome { results: res, final_visible, run }
}

pub fn answer(o: &Outcome) -> String {
    let labels: Vec<&str> = o.run.trace.iter().map(|(_, id)| *id).collect();
    let res = list(o.results.iter().map(|rs| {
        if rs.is_empty() {
            ".".to_string()
        } else {
            rs.iter()
                .map(|r| match r {
                    Res::Pushed => "pushed".to_string(),
                    Res::Snap(v) => format!("snap{}", vals(v)),
                    Res::Clr(v) => format!("clr{}", vals(v)),
                    Res::Empty(b) => format!("empty:{}", b),
                })
                .collect::<Vec<_>>()
                .join("+")
        }
    }));
    format!("{} | {} | visible={}", labels.join("."), res, vals(&o.final_visible))
}

/// grant indices of the k-th call of each thread: (first grant of the call, last grant of the call)
fn call_spans(progs: &[Vec<Call>], o: &Outcome) -> Vec<Vec<(usize, usize)>> {
    let first_ids = ["bkt.push.load_tail", "bkt.data.load_tail", "bkt.clear.load_tail", "bkt.empty.load_tail"];
    let mut spans: Vec<Vec<(usize, usize)>> = progs.iter().map(|_| vec![]).collect();
    for (gi, (t, id)) in o.run.trace.iter().enumerate() {
        if *id == "start" {
            continue;
        }
        // a call begins at its load_tail point when the previous call of that thread is complete; a push can
        // come back to load_tail (retry) — those belong to the same call
        let is_first = first_ids.contains(id);
        let cur = spans[*t].len();
        let begins_new = is_first
            && (cur == 0 || {
                // previous call complete? complete calls == results recorded so far is not known per grant;
                // use the program: a retry load_tail only happens for pushes, right after a claim/cas_new grant
                let prev_id = o.run.trace[..gi].iter().rev().find(|(t2, _)| t2 == t).map(|x| x.1).unwrap_or("");
                !(*id == "bkt.push.load_tail" && (prev_id == "blk.push.claim" || prev_id == "bkt.push.cas_new"))
            });
        if begins_new {
            spans[*t].push((gi, gi));
        } else if let Some(last) = spans[*t].last_mut() {
            last.1 = gi;
        }
    }
    spans
}

#[derive(Default)]
pub struct Sig {
    pub k1: bool, // a clear detached the chain between a pusher's tail load and its slot claim
    pub k2: bool, // a reader loaded tail while a pusher was between its tail CAS and the link of `next`
    pub k3: bool, // is_empty evaluated while another pusher was between claim and publish
}

pub fn signatures(o: &Outcome) -> Sig {
    signatures_of_trace(&o.run.trace)
}

pub fn signatures_of_trace(tr: &[(usize, &'static str)]) -> Sig {
    let mut sig = Sig::default();
    let n_threads = tr.iter().map(|(t, _)| *t).max().map_or(0, |m| m + 1);
    // per thread state while scanning
    let mut loaded_tail_at: Vec<Option<usize>> = vec![None; n_threads];
    let mut in_window: Vec<bool> = vec![false; n_threads]; // between cas_new grant and link grant
    let mut in_flight: Vec<bool> = vec![false; n_threads]; // between claim grant and publish grant
    let mut clears: Vec<usize> = vec![];
    for (gi, (t, id)) in tr.iter().enumerate() {
        match *id {
            "bkt.push.load_tail" => loaded_tail_at[*t] = Some(gi),
            "bkt.clear.load_tail" => clears.push(gi),
            "blk.push.claim" => {
                if let Some(l) = loaded_tail_at[*t] {
                    if clears.iter().any(|c| *c > l && *c < gi) {
                        sig.k1 = true;
                    }
                }
                in_window[*t] = false;
            }
            _ => {}
        }
        // state after this grant
        match *id {
            "bkt.push.cas_new" => in_window[*t] = true, // (if the CAS failed the next point is load_tail, handled below)
            "bkt.push.link" => in_window[*t] = false,
            "bkt.push.load_tail" => in_window[*t] = false,
            _ => {}
        }
        // was the claim in range? the next point of that thread tells: publish ⇒ in flight
        if *id == "blk.push.publish" {
            in_flight[*t] = false;
        }
        if *id == "blk.push.claim" {
            let next = tr[gi + 1..].iter().find(|(t2, _)| t2 == t).map(|x| x.1);
            in_flight[*t] = next == Some("blk.push.publish");
        }
        if matches!(*id, "bkt.data.load_tail" | "bkt.clear.load_tail" | "bkt.empty.load_tail") {
            // a cas_new that failed leaves in_window set until the thread's next grant; check the thread's next point
            for u in 0..n_threads {
                if u != *t && in_window[u] {
                    let next = tr[gi..].iter().find(|(t2, _)| *t2 == u).map(|x| x.1);
                    if next == Some("bkt.push.link") {
                        sig.k2 = true;
                    }
                }
            }
        }
        if *id == "bkt.empty.len" && (0..n_threads).any(|u| u != *t && in_flight[u]) {
            sig.k3 = true;
        }
    }
    sig
}

pub fn oracle(out: &mut Out, progs: &[Vec<Call>], o: &Outcome) {
    if o.run.deadlock || o.run.timed_out || !o.run.panicked.is_empty() {
        out.oracle_fail("bucket: deadlock, timeout or panic", &format!("{:?}", o.run.trace));
        return;
    }
    let sig = signatures(o);
    let tag = |s: &Sig| -> String {
        let mut v = vec![];
        if s.k1 {
            v.push("K1:straggler-push-on-detached-block");
        }
        if s.k2 {
            v.push("K2:reader-in-hand-over-window");
        }
        if s.k3 {
            v.push("K3:is_empty-behind-in-flight-slot");
        }
        if v.is_empty() {
            "no-known-signature".to_string()
        } else {
            v.join(",")
        }
    };
    let spans = call_spans(progs, o);
    let mut pushed: BTreeMap<u64, usize> = BTreeMap::new(); // value -> grant index at which its push completed
    let mut delivered: BTreeMap<u64, usize> = BTreeMap::new();
    let mut dup = vec![];
    for (t, prog) in progs.iter().enumerate() {
        for (i, c) in prog.iter().enumerate() {
            let (Some(r), Some(sp)) = (o.results[t].get(i), spans[t].get(i)) else { continue };
            match (c, r) {
                (Call::Push(v), Res::Pushed) => {
                    pushed.insert(*v, sp.1);
                }
                (Call::Clear, Res::Clr(vs)) => {
                    for v in vs {
                        if delivered.insert(*v, sp.1).is_some() {
                            dup.push(*v);
                        }
                    }
                }
                _ => {}
            }
        }
    }
    let detail = |what: &str| format!("{} :: trace {:?} results {:?}", what, o.run.trace, o.results);
    if !dup.is_empty() {
        out.oracle_fail(&format!("value delivered to more than one clearing read [{}]", tag(&sig)), &detail(&format!("{:?}", dup)));
    }
    let all_seen: BTreeSet<u64> = delivered
        .keys()
        .copied()
        .chain(o.final_visible.iter().copied())
        .chain(o.results.iter().flatten().flat_map(|r| match r {
            Res::Snap(v) => v.clone(),
            _ => vec![],
        }))
        .collect();
    let ever_pushed: BTreeSet<u64> = progs.iter().flatten().filter_map(|c| if let Call::Push(v) = c { Some(*v) } else { None }).collect();
    if let Some(f) = all_seen.iter().find(|v| !ever_pushed.contains(v)) {
        out.oracle_fail("a value was observed that was never pushed (fabricated / read before written)", &detail(&f.to_string()));
    }
    // conservation at the end: every completed push is delivered exactly once or still visible
    let mut fin: BTreeMap<u64, usize> = BTreeMap::new();
    for v in &o.final_visible {
        *fin.entry(*v).or_insert(0) += 1;
    }
    for (v, _) in &pushed {
        let d = delivered.contains_key(v) as usize;
        let f = fin.get(v).copied().unwrap_or(0);
        if d + f == 0 {
            out.oracle_fail(&format!("pushed value lost: neither delivered to a clear nor visible afterwards [{}]", tag(&sig)), &detail(&v.to_string()));
        } else if d + f > 1 {
            out.oracle_fail(&format!("pushed value duplicated (delivered and still visible, or visible twice) [{}]", tag(&sig)), &detail(&v.to_string()));
        }
    }
    // snapshots and is_empty account for every push completed before they began that no clear has taken
    for (t, prog) in progs.iter().enumerate() {
        for (i, c) in prog.iter().enumerate() {
            let (Some(r), Some(sp)) = (o.results[t].get(i), spans[t].get(i)) else { continue };
            let must: Vec<u64> = pushed
                .iter()
                .filter(|(v, done_at)| **done_at < sp.0 && !delivered.contains_key(v))
                .map(|(v, _)| *v)
                .collect();
            match (c, r) {
                (Call::Data, Res::Snap(vs)) => {
                    if let Some(m) = must.iter().find(|m| !vs.contains(m)) {
                        out.oracle_fail(
                            &format!("snapshot misses a value whose push completed before it began and that no clear took [{}]", tag(&sig)),
                            &detail(&m.to_string()),
                        );
                    }
                    let mut s2 = vs.clone();
                    s2.sort();
                    if s2.windows(2).any(|w| w[0] == w[1]) {
                        out.oracle_fail("snapshot contains a value twice", &detail(""));
                    }
                }
                (Call::IsEmpty, Res::Empty(true)) => {
                    if !must.is_empty() {
                        out.oracle_fail(
                            &format!("is_empty answered true although a completed push had not been cleared [{}]", tag(&sig)),
                            &detail(&format!("{:?}", must)),
                        );
                    }
                }
                _ => {}
            }
        }
    }
}

fn gen_progs(r: &mut Rng) -> (Vec<Vec<Call>>, Vec<usize>) {
    // thread 0 may be a prefill thread that brings the tail block close to full (hand-over region)
    let mut progs: Vec<Vec<Call>> = vec![];
    let mut next_val = 1u64;
    let mut sch: Vec<usize> = vec![];
    let prefill = match r.below(4) {
        0 => 0,
        1 => B - 2,
        2 => B - 1,
        _ => B,
    };
    if prefill > 0 {
        let mut p = vec![];
        for _ in 0..prefill {
            p.push(Call::Push(next_val));
            next_val += 1;
        }
        progs.push(p);
        // run the prefill thread to completion first: start + 3 grants per push (+1 for the first block)
        for _ in 0..(prefill * 3 + 4) {
            sch.push(0);
        }
    }
    let base = progs.len();
    let n = r.range(2, 3);
    for _ in 0..n {
        let mut p = vec![];
        for _ in 0..r.range(1, 2) {
            let c = match r.weighted(&[5, 2, 3, 2]) {
                0 => {
                    next_val += 1;
                    Call::Push(next_val * 1000)
                }
                1 => Call::Data,
                2 => Call::Clear,
                _ => Call::IsEmpty,
            };
            p.push(c);
        }
        progs.push(p);
    }
    let mut cur = base + r.below(n);
    for _ in 0..60 {
        if r.chance(2, 5) {
            cur = base + r.below(n);
        }
        sch.push(cur);
    }
    (progs, sch)
}

fn one(out: &mut Out, progs: &[Vec<Call>], sch: &[usize]) {
    let o = execute(progs, sch);
    let taken: Vec<usize> = o.run.trace.iter().map(|(t, _)| *t).collect();
    out.op(
        &format!("bucket run {} {} {}", B, list(progs.iter().map(|p| prog_tok(p))), sched::sched_tok(&taken)),
        &answer(&o),
    );
    let sig = signatures(&o);
    if sig.k1 {
        out.count("sig.K1");
    }
    if sig.k2 {
        out.count("sig.K2");
    }
    if sig.k3 {
        out.count("sig.K3");
    }
    if o.run.trace.iter().any(|(_, id)| *id == "bkt.push.cas_new") {
        out.count("hand-over reached");
        out.nontrivial();
    }
    if o.run.trace.iter().any(|(_, id)| id.starts_with("spin:")) {
        out.count("reader waited for quiescence");
        out.nontrivial();
    }
    oracle(out, progs, &o);
}

fn pf(n: usize) -> Vec<Call> {
    (1..=n as u64).map(Call::Push).collect()
}
fn rep(t: usize, n: usize) -> Vec<usize> {
    vec![t; n]
}

pub fn run(cfg: &Cfg, out: &mut Out) {
    let root = Rng::new(cfg.seed);
    // corpus: the known-finding witnesses and the classic shapes
    let mut corpus: Vec<(Vec<Vec<Call>>, Vec<usize>)> = vec![];
    // K1: pusher loads tail, clearer detaches and finishes, pusher claims on the detached block
    corpus.push((
        vec![vec![Call::Push(1)], vec![Call::Push(2)], vec![Call::Clear]],
        [rep(0, 5), vec![1, 1], rep(2, 8), rep(1, 4)].concat(),
    ));
    // K2: 64 pushes, the 65th parked between tail CAS and link; is_empty / data see nothing
    corpus.push((
        vec![pf(B), vec![Call::Push(9000)], vec![Call::IsEmpty, Call::Data]],
        [rep(0, B * 3 + 3), rep(1, 4), rep(2, 8), rep(1, 6)].concat(),
    ));
    // K2 with a clear: the old chain is lost
    corpus.push((
        vec![pf(B), vec![Call::Push(9000)], vec![Call::Clear]],
        [rep(0, B * 3 + 3), rep(1, 4), rep(2, 8), rep(1, 6)].concat(),
    ));
    // K3: slot 0 in flight, slot 1 complete, is_empty
    corpus.push((
        vec![vec![Call::Push(1)], vec![Call::Push(2)], vec![Call::IsEmpty]],
        [rep(0, 4), rep(1, 5), rep(2, 4), rep(0, 3)].concat(),
    ));
    // plain hand-over
    corpus.push((vec![pf(B + 2), vec![Call::Data, Call::Clear, Call::Data]], [rep(0, (B + 2) * 3 + 8), rep(1, 60)].concat()));
    for (progs, sch) in corpus {
        out.case("corpus");
        one(out, &progs, &sch);
    }
    for i in 0..cfg.cases {
        let mut r = root.fork(i as u64);
        out.case(&format!("seed={} i={}", cfg.seed, i));
        let (progs, sch) = gen_progs(&mut r);
        one(out, &progs, &sch);
    }
    // deep hand-over grid: pusher A (thread 1) is held either just before its hand-over CAS or just after that
    // CAS failed (before it re-loads the tail) while pusher B (thread 2) pushes j more values — through zero, one
    // or two further hand-overs — then A finishes, then B, then a reader snapshots and clears.
    let _ = root;
    for pre in [B - 1, B] {
        for after_failed_cas in [false, true] {
            for j in [1usize, B - 2, B - 1, B, B + 1, 2 * B - 2, 2 * B - 1, 2 * B, 2 * B + 1] {
                out.case(&format!("deep-handover pre={} after_failed_cas={} j={}", pre, after_failed_cas, j));
                let t0: Vec<Call> = pf(pre);
                let t1 = vec![Call::Push(900_001)];
                let nb = 1 + j + 2;
                let t2: Vec<Call> = (0..nb as u64).map(|x| Call::Push(10_000 + x)).collect();
                let t3 = vec![Call::Data, Call::Clear, Call::Data];
                // A: start, load_tail, claim → parked at cas_new (pre = B) or at publish/claim (pre = B-1)
                let mut sch = [rep(0, pre * 3 + 4), rep(1, 3)].concat();
                // B's first push (with pre = B this performs the hand-over A is about to lose)
                sch.extend(rep(2, 7));
                if after_failed_cas {
                    sch.extend(rep(1, 1)); // A's CAS (fails when B handed over) → parked at load_tail
                }
                sch.extend(rep(2, j * 3 + (j / B + 1) * 3));
                sch.extend(rep(1, 12));
                sch.extend(rep(2, nb * 3 + 12));
                sch.extend(rep(3, 600));
                out.count("deep-handover");
                one(out, &[t0, t1, t2, t3], &sch);
            }
        }
    }
    if cfg.thorough {
        let configs: Vec<(Vec<Vec<Call>>, Vec<usize>)> = vec![
            (vec![vec![Call::Push(1)], vec![Call::Push(2)], vec![Call::Clear]], vec![]),
            (vec![vec![Call::Push(1)], vec![Call::Push(2), Call::IsEmpty], vec![Call::Data]], vec![]),
            (vec![vec![Call::Push(1), Call::Push(2)], vec![Call::Clear, Call::Data]], vec![]),
            // hand-over region: 63 prefilled, then all interleavings of two pushers and a clearer
            (vec![pf(B - 1), vec![Call::Push(7001)], vec![Call::Push(7002)], vec![Call::Clear]], rep(0, (B - 1) * 3 + 3)),
            (vec![pf(B), vec![Call::Push(7001)], vec![Call::Data], vec![Call::IsEmpty]], rep(0, B * 3 + 3)),
        ];
        for (progs, fixed_prefix) in configs {
            let mut prefix: Vec<usize> = fixed_prefix.clone();
            let mut runs = 0usize;
            let mut exhausted = false;
            out.case(&format!("exhaustive {}", list(progs.iter().map(|p| prog_tok(p)))));
            loop {
                let o = execute(&progs, &prefix);
                runs += 1;
                let taken: Vec<usize> = o.run.trace.iter().map(|(t, _)| *t).collect();
                out.op(
                    &format!("bucket run {} {} {}", B, list(progs.iter().map(|p| prog_tok(p))), sched::sched_tok(&taken)),
                    &answer(&o),
                );
                oracle(out, &progs, &o);
                // the prefilled configurations cost ~200 grants per run: cap them lower
                if runs >= (if fixed_prefix.is_empty() { 30000 } else { 2500 }) {
                    break;
                }
                // backtrack only after the fixed prefix (the prefill is not permuted)
                let mut i = taken.len();
                let mut next = None;
                while i > fixed_prefix.len() {
                    i -= 1;
                    if let Some(alt) = o.run.choices[i].iter().copied().filter(|c| *c > taken[i]).min() {
                        next = Some((i, alt));
                        break;
                    }
                }
                match next {
                    None => {
                        exhausted = true;
                        break;
                    }
                    Some((i, alt)) => {
                        prefix = taken[..i].to_vec();
                        prefix.push(alt);
                    }
                }
            }
            out.count_n(&format!("exhaustive.runs.{}", runs_key(&progs)), runs as u64);
            out.count(&format!("exhaustive.complete={}", exhausted));
            out.nontrivial();
        }
    }
}

fn runs_key(progs: &[Vec<Call>]) -> String {
    list(progs.iter().map(|p| if p.len() > 6 { format!("prefill{}", p.len()) } else { prog_tok(p) }))
}
