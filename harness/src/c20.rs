//! C20 — a recoverable recorder is live until recovered, inert and dropped once after.
//!
//! Real `RecoverableRecorder` pairs (wrapper + `RecoveryHandle`, via the cfg(metrics_verif) `verif_build`)
//! exercised by emitting threads and one thread that recovers (`into_inner`) or drops the handle, under the
//! deterministic scheduler; every executed schedule is replayed on the Lean step machine (`recover run …`).

use crate::sched;
use crate::util::*;
use metrics::{Counter, Gauge, Histogram, Key, KeyName, Metadata, Recorder, SharedString, Unit};
use metrics_util::RecoverableRecorder;
use std::cell::{Cell, RefCell};
use std::sync::atomic::{AtomicBool, AtomicUsize, Ordering};
use std::sync::{Arc, Mutex};

static META: metrics::Metadata<'static> = metrics::Metadata::new("mv", metrics::Level::INFO, None);

thread_local! {
    static REACHED: Cell<bool> = Cell::new(false);
    /// which Recorder method the wrapped recorder was entered through, with its arguments
    static ARRIVED: RefCell<Option<String>> = RefCell::new(None);
}

#[derive(Default)]
struct Shared {
    inside: AtomicUsize,
    finalised: AtomicUsize,
    entered_after_final: AtomicBool,
    final_while_inside: AtomicBool,
}

struct Rec {
    sh: Arc<Shared>,
}
impl Rec {
    fn enter(&self, what: String) {
        ARRIVED.with(|a| *a.borrow_mut() = Some(what));
        if self.sh.finalised.load(Ordering::SeqCst) > 0 {
            self.sh.entered_after_final.store(true, Ordering::SeqCst);
        }
        self.sh.inside.fetch_add(1, Ordering::SeqCst);
        REACHED.with(|r| r.set(true));
        metrics::verif::point("rec.inside");
        self.sh.inside.fetch_sub(1, Ordering::SeqCst);
    }
}
impl Drop for Rec {
    fn drop(&mut self) {
        if self.sh.inside.load(Ordering::SeqCst) > 0 {
            self.sh.final_while_inside.store(true, Ordering::SeqCst);
        }
        self.sh.finalised.fetch_add(1, Ordering::SeqCst);
    }
}
impl Recorder for Rec {
    fn describe_counter(&self, k: KeyName, u: Option<Unit>, d: SharedString) {
        self.enter(format!("describe_counter {} {:?} {}", k.as_str(), u, d))
    }
    fn describe_gauge(&self, k: KeyName, u: Option<Unit>, d: SharedString) {
        self.enter(format!("describe_gauge {} {:?} {}", k.as_str(), u, d))
    }
    fn describe_histogram(&self, k: KeyName, u: Option<Unit>, d: SharedString) {
        self.enter(format!("describe_histogram {} {:?} {}", k.as_str(), u, d))
    }
    fn register_counter(&self, k: &Key, m: &Metadata<'_>) -> Counter {
        self.enter(format!("register_counter {} {}", k.name(), m.target()));
        Counter::noop()
    }
    fn register_gauge(&self, k: &Key, m: &Metadata<'_>) -> Gauge {
        self.enter(format!("register_gauge {} {}", k.name(), m.target()));
        Gauge::noop()
    }
    fn register_histogram(&self, k: &Key, m: &Metadata<'_>) -> Histogram {
        self.enter(format!("register_histogram {} {}", k.name(), m.target()));
        Histogram::noop()
    }
}

#[derive(Clone, Copy, Debug, PartialEq)]
enum Call {
    Emit,
    IntoInner,
    DropHandle,
}

fn prog_tok(p: &[Call]) -> String {
    if p.is_empty() {
        return "-".into();
    }
    p.iter()
        .map(|c| match c {
            Call::Emit => "e",
            Call::IntoInner => "i",
            Call::DropHandle => "d",
        })
        .collect::<Vec<_>>()
        .join("+")
}

struct Outcome {
    results: Vec<Vec<String>>,
    finalised_by_library: usize,
    recovered: bool,
    busy_at_recovery: bool,
    late: bool,
    final_while_inside: bool,
    misrouted: Vec<String>,
    run: sched::RunResult,
}

fn execute(progs: &[Vec<Call>], schedule: &[usize]) -> Outcome {
    let sh = Arc::new(Shared::default());
    let (wrapped, handle) = RecoverableRecorder::new(Rec { sh: sh.clone() }).verif_build();
    let wrapped: Arc<dyn Recorder + Send + Sync> = Arc::new(wrapped);
    let handle = Arc::new(Mutex::new(Some(handle)));
    let results: Arc<Mutex<Vec<Vec<String>>>> = Arc::new(Mutex::new(vec![vec![]; progs.len()]));
    let recovered = Arc::new(AtomicBool::new(false));
    let busy = Arc::new(AtomicBool::new(false));
    let lib_final_before_recovery = Arc::new(AtomicUsize::new(0));
    let misrouted_all: Arc<Mutex<Vec<String>>> = Arc::new(Mutex::new(vec![]));
    let mut bodies: Vec<Box<dyn FnOnce() + Send + 'static>> = vec![];
    for (t, prog) in progs.iter().enumerate() {
        let prog = prog.clone();
        let wrapped = wrapped.clone();
        let handle = handle.clone();
        let results = results.clone();
        let sh = sh.clone();
        let recovered = recovered.clone();
        let busy = busy.clone();
        let lfb = lib_final_before_recovery.clone();
        let misrouted = misrouted_all.clone();
        bodies.push(Box::new(move || {
            let mut k = t * 2;
            for c in prog {
                let r = match c {
                    Call::Emit => {
                        REACHED.with(|r| r.set(false));
                        ARRIVED.with(|a| *a.borrow_mut() = None);
                        k += 1;
                        // all six forwarded methods in turn, each with its own name / unit / description
                        let name: &'static str = ["xa", "xb", "xc", "xd", "xe", "xf"][k % 6];
                        let expect = match k % 6 {
                            0 => {
                                let _ = wrapped.register_counter(&Key::from_name(name), &META);
                                format!("register_counter {} mv", name)
                            }
                            1 => {
                                wrapped.describe_gauge(KeyName::from_const_str(name), Some(Unit::Bytes), SharedString::const_str("dg"));
                                format!("describe_gauge {} {:?} dg", name, Some(Unit::Bytes))
                            }
                            2 => {
                                let _ = wrapped.register_histogram(&Key::from_name(name), &META);
                                format!("register_histogram {} mv", name)
                            }
                            3 => {
                                wrapped.describe_counter(KeyName::from_const_str(name), None, SharedString::const_str("dc"));
                                format!("describe_counter {} {:?} dc", name, None::<Unit>)
                            }
                            4 => {
                                let _ = wrapped.register_gauge(&Key::from_name(name), &META);
                                format!("register_gauge {} mv", name)
                            }
                            _ => {
                                wrapped.describe_histogram(KeyName::from_const_str(name), Some(Unit::Seconds), SharedString::const_str("dh"));
                                format!("describe_histogram {} {:?} dh", name, Some(Unit::Seconds))
                            }
                        };
                        let arrived = ARRIVED.with(|a| a.borrow_mut().take());
                        if REACHED.with(|r| r.get()) {
                            if arrived.as_deref() == Some(expect.as_str()) {
                                "delivered"
                            } else {
                                misrouted.lock().unwrap().push(format!("sent [{}] arrived [{}]", expect, arrived.unwrap_or_default()));
                                "misrouted"
                            }
                        } else {
                            "ignored"
                        }
                    }
                    Call::IntoInner => {
                        let h = handle.lock().unwrap().take();
                        match h {
                            Some(h) => {
                                let rec = h.into_inner();
                                if sh.inside.load(Ordering::SeqCst) > 0 {
                                    busy.store(true, Ordering::SeqCst);
                                }
                                lfb.store(sh.finalised.load(Ordering::SeqCst), Ordering::SeqCst);
                                recovered.store(true, Ordering::SeqCst);
                                // the caller now owns the recorder; its eventual drop is the caller's, not the library's
                                std::mem::forget(rec);
                                "recovered"
                            }
                            None => "nohandle",
                        }
                    }
                    Call::DropHandle => {
                        metrics::verif::point("h.drop");
                        let h = handle.lock().unwrap().take();
                        drop(h);
                        "dropped"
                    }
                };
                results.lock().unwrap()[t].push(r.to_string());
            }
        }));
    }
    let run = sched::run(bodies, schedule);
    let res = results.lock().unwrap().clone();
    let mis = misrouted_all.lock().unwrap().clone();
    Outcome {
        results: res,
        finalised_by_library: sh.finalised.load(Ordering::SeqCst),
        recovered: recovered.load(Ordering::SeqCst),
        busy_at_recovery: busy.load(Ordering::SeqCst),
        late: sh.entered_after_final.load(Ordering::SeqCst),
        final_while_inside: sh.final_while_inside.load(Ordering::SeqCst),
        misrouted: mis,
        run,
    }
}

fn answer(o: &Outcome) -> String {
    let labels: Vec<&str> = o.run.trace.iter().map(|(_, id)| *id).collect();
    let res = list(o.results.iter().map(|r| if r.is_empty() { ".".to_string() } else { r.join("+") }));
    format!(
        "{} | {} | finalised={} recovered={} late={} busy={}",
        labels.join("."),
        res,
        o.finalised_by_library,
        o.recovered,
        o.late,
        o.busy_at_recovery
    )
}

fn oracle(out: &mut Out, progs: &[Vec<Call>], o: &Outcome) {
    if o.run.deadlock || o.run.timed_out || !o.run.panicked.is_empty() {
        out.oracle_fail("recoverable recorder: deadlock, timeout or panic", &format!("{:?}", o.run.trace));
        return;
    }
    if o.busy_at_recovery {
        out.oracle_fail("into_inner returned while an emission was executing inside the recorder", &format!("{:?}", o.run.trace));
    }
    if let Some(m) = o.misrouted.first() {
        out.oracle_fail("an emission through the wrapper reached the wrapped recorder as a different call", m);
    }
    if o.late {
        out.oracle_fail("a call entered the recorder after its finalisation began", &format!("{:?}", o.run.trace));
    }
    if o.final_while_inside {
        out.oracle_fail("the recorder was finalised while a call was inside it", &format!("{:?}", o.run.trace));
    }
    let has_drop = progs.iter().flatten().any(|c| *c == Call::DropHandle);
    let want_final = if o.recovered { 0 } else if has_drop { 1 } else { 0 };
    if o.finalised_by_library != want_final {
        out.oracle_fail(
            "recorder not dropped exactly once after the handle was dropped / dropped although recovered",
            &format!("finalised {} want {} trace {:?}", o.finalised_by_library, want_final, o.run.trace),
        );
    }
    // position in the trace of the step that ended the handle's life
    let end_step = o.run.trace.iter().position(|(_, id)| *id == "h.drop");
    // into_inner: the successful try_unwrap is the LAST grant of that point
    let rec_step = if o.recovered { o.run.trace.iter().rposition(|(_, id)| *id == "spin0:recover.try_unwrap") } else { None };
    // per emission: the grant index of its upgrade step
    let mut k = vec![0usize; progs.len()];
    for (gi, (t, id)) in o.run.trace.iter().enumerate() {
        if *id != "weak.upgrade" {
            continue;
        }
        let idx = progs[*t].iter().enumerate().filter(|(_, c)| **c == Call::Emit).nth(k[*t]).map(|x| x.0);
        k[*t] += 1;
        let Some(i) = idx else { continue };
        let Some(res) = o.results[*t].get(i) else { continue };
        let before_end = end_step.map_or(true, |e| gi < e) && rec_step.map_or(true, |e| gi < e);
        if before_end && res != "delivered" {
            out.oracle_fail(
                "an emission made while the recovery handle was alive did not reach the recorder",
                &format!("thread {} call {} trace {:?}", t, i, o.run.trace),
            );
        }
        if rec_step.map_or(false, |e| gi > e) && res != "ignored" {
            out.oracle_fail(
                "an emission made after into_inner returned reached the recorder",
                &format!("thread {} call {} trace {:?}", t, i, o.run.trace),
            );
        }
        if end_step.map_or(false, |e| gi > e) && res != "ignored" {
            out.oracle_fail(
                "an emission made after the handle was dropped reached the recorder (another emission was still inside)",
                &format!("thread {} call {} trace {:?}", t, i, o.run.trace),
            );
        }
    }
}

fn gen_progs(r: &mut Rng) -> Vec<Vec<Call>> {
    let n = r.range(2, 4);
    let ender = r.below(n);
    let end_call = if r.chance(1, 2) { Call::IntoInner } else { Call::DropHandle };
    let mut progs = vec![];
    for t in 0..n {
        let mut p = vec![];
        let k = r.range(1, 3);
        let end_at = r.below(k + 1);
        for i in 0..=k {
            if t == ender && i == end_at {
                p.push(end_call);
            } else if i < k {
                p.push(Call::Emit);
            }
        }
        progs.push(p);
    }
    progs
}

fn one(out: &mut Out, progs: &[Vec<Call>], sch: &[usize]) {
    let o = execute(progs, sch);
    let taken: Vec<usize> = o.run.trace.iter().map(|(t, _)| *t).collect();
    out.op(
        &format!("recover run {} {}", list(progs.iter().map(|p| prog_tok(p))), sched::sched_tok(&taken)),
        &answer(&o),
    );
    // non-trivial: the handle's end happened while an emission was between its upgrade and its return
    let ins = o.run.trace.iter().enumerate().filter(|(_, (_, id))| *id == "rec.inside").map(|x| x.0).collect::<Vec<_>>();
    let ups = o.run.trace.iter().enumerate().filter(|(_, (_, id))| *id == "weak.upgrade").map(|x| x.0).collect::<Vec<_>>();
    let end = o.run.trace.iter().position(|(_, id)| *id == "h.drop" || *id == "spin0:recover.try_unwrap");
    if let Some(e) = end {
        if ups.iter().any(|u| *u < e) && ins.iter().any(|i| *i > e) {
            out.nontrivial();
            out.count("end.raced.with.emission");
        }
    }
    oracle(out, progs, &o);
}

pub fn run(cfg: &Cfg, out: &mut Out) {
    let root = Rng::new(cfg.seed);
    let corpus: Vec<(Vec<Vec<Call>>, Vec<usize>)> = vec![
        // K-C20-late-delivery: handle dropped while an emission is inside, a later emission is still delivered
        (vec![vec![Call::Emit], vec![Call::DropHandle], vec![Call::Emit]], vec![0, 1, 2, 0, 1, 2, 2, 0]),
        (vec![vec![Call::Emit, Call::Emit], vec![Call::IntoInner], vec![Call::Emit]], vec![0, 1, 2, 0, 1, 1, 0, 1, 2, 0, 0]),
        (vec![vec![Call::Emit], vec![Call::IntoInner]], vec![0, 1, 0, 1, 1, 0, 1]),
    ];
    for (progs, sch) in corpus {
        out.case("corpus");
        one(out, &progs, &sch);
    }
    for i in 0..cfg.cases {
        let mut r = root.fork(i as u64);
        out.case(&format!("seed={} i={}", cfg.seed, i));
        let progs = gen_progs(&mut r);
        let mut sch = vec![];
        let mut cur = r.below(progs.len());
        for _ in 0..40 {
            if r.chance(1, 2) {
                cur = r.below(progs.len());
            }
            sch.push(cur);
        }
        out.count(&format!("threads={} end={:?}", progs.len(), progs.iter().flatten().find(|c| **c != Call::Emit)));
        one(out, &progs, &sch);
    }
    if cfg.thorough {
        let configs: Vec<Vec<Vec<Call>>> = vec![
            vec![vec![Call::Emit, Call::Emit], vec![Call::IntoInner], vec![Call::Emit]],
            vec![vec![Call::Emit, Call::Emit], vec![Call::DropHandle], vec![Call::Emit]],
            vec![vec![Call::Emit], vec![Call::Emit, Call::IntoInner, Call::Emit]],
        ];
        for progs in configs {
            let mut prefix: Vec<usize> = vec![];
            let mut runs = 0usize;
            let mut exhausted = false;
            out.case(&format!("exhaustive {}", list(progs.iter().map(|p| prog_tok(p)))));
            loop {
                let o = execute(&progs, &prefix);
                runs += 1;
                let taken: Vec<usize> = o.run.trace.iter().map(|(t, _)| *t).collect();
                out.op(
                    &format!("recover run {} {}", list(progs.iter().map(|p| prog_tok(p))), sched::sched_tok(&taken)),
                    &answer(&o),
                );
                oracle(out, &progs, &o);
                if runs >= 20000 {
                    break;
                }
                let mut i = taken.len();
                let mut next = None;
                while i > 0 {
                    i -= 1;
                    if let Some(alt) = o.run.choices[i].iter().copied().filter(|c| *c > taken[i]).min() {
                        next = Some((i, alt));
                        break;
                    }
                }
                match next {
                    None => {
                        exhausted = true;
                        break;
                    }
                    Some((i, alt)) => {
                        prefix = taken[..i].to_vec();
                        prefix.push(alt);
                    }
                }
            }
            out.count_n(&format!("exhaustive.runs.{}", list(progs.iter().map(|p| prog_tok(p)))), runs as u64);
            out.count(&format!("exhaustive.complete={}", exhausted));
            out.nontrivial();
        }
    }
}
