//! C20 — a recoverable recorder is live until recovered, inert and dropped once after.
//!
//! Real `RecoverableRecorder` pairs (wrapper + `RecoveryHandle`, via the cfg(metrics_verif) `verif_build`)
//! exercised by emitting threads and one thread that recovers (`into_inner`) or drops the handle, under the
//! deterministic scheduler; every executed schedule is replayed on the Lean step machine (`recover run …`).
//!
//! Round 2: emissions carry labelled keys / varying metadata and the RETURNED handle is used (live while
//! delivered, inert when ignored); the wrapped recorder may panic inside a forwarded call (`p`) or emit again
//! through the wrapper from inside a forwarded call (`n`); free-running rounds without the scheduler
//! (`recover free …`); a long-held emission against a spinning `into_inner`; the real
//! `RecoverableRecorder::install` (success once per process, then failing installs) with the `metrics` macros.
//!
//! Round 5: callers KEEP the Counter / Gauge / Histogram handles they got through the wrapper (`k`), write through
//! them (`u`) and drop them (`x`) at any point relative to the end of the recorder's life; the kept handles are
//! part of the model state (`Thread.kept`). `into_inner` is waited for with a bound and a miss is a violation of
//! its own ("did not return although no emission was executing"), end-of-round measurements are taken while the
//! handles are still held, then one more emission is made, then they are dropped (which must finalise nothing).

//!
//! Round 6: re-entrancy deeper than one level (`m<d>`: the recorder's own emission re-enters the recorder, which
//! emits again, … `d` levels), `drop(handle)` (`D`) and `into_inner` (`I`) issued by the recorder from INSIDE a
//! forwarded call (`I` never returns — theorem `into_inner_from_inside_never_returns` — the harness lets it try,
//! takes the measurements, then unwinds it out of the retry loop through the yield point), an emission through the
//! wrapper from the recorder's own `Drop` (must be ignored), and wrapped recorder types of four sizes (8 … 4104 bytes,
//! the padding checked intact when the recorder comes back).

use crate::sched;
use crate::util::*;
use metrics::{Counter, CounterFn, Gauge, GaugeFn, Histogram, HistogramFn, Key, KeyName, Label, Level, Metadata, Recorder, SharedString, Unit};
use metrics_util::RecoverableRecorder;
use std::cell::{Cell, RefCell};
use std::sync::atomic::{AtomicBool, AtomicU64, AtomicUsize, Ordering};
use std::sync::{Arc, Barrier, Mutex};
use std::time::{Duration, Instant};

static METAS: [Metadata<'static>; 4] = [
    Metadata::new("mv", Level::INFO, None),
    Metadata::new("mv::deep", Level::DEBUG, Some("harness::c20")),
    Metadata::new("other", Level::ERROR, Some("m")),
    Metadata::new("", Level::TRACE, None),
];
const UNITS: [Option<Unit>; 4] = [None, Some(Unit::Bytes), Some(Unit::Seconds), Some(Unit::Count)];
const MAX_THREADS: usize = 8;

type DynRec = Arc<dyn Recorder + Send + Sync>;

thread_local! {
    /// what the wrapped recorder(s) were entered with on this thread, in order of entry (a stack: every
    /// `do_emit` truncates back to the depth it started at)
    static ARRIVED: RefCell<Vec<String>> = RefCell::new(vec![]);
    /// behaviour of the recorder double on its next entry on this thread: 0 plain, 1 panic when leaving,
    /// 2 emit once more (through `NEST`) before leaving, 3 stay inside until `HOLD_RELEASE`
    static MODE: Cell<u8> = Cell::new(0);
    static NEST: RefCell<Option<(DynRec, Em, Arc<Shared>)>> = RefCell::new(None);
    static NEST_RESULT: RefCell<Option<&'static str>> = RefCell::new(None);
    /// index of the emitting thread (selects the cells the recorder double hands out)
    static TIDX: Cell<usize> = Cell::new(0);
    /// the thread is the one spinning in `into_inner` in the long-hold round (see `hold_hook`)
    static IS_ENDER: Cell<bool> = Cell::new(false);
    /// stress rounds: the recorder double skips its own bookkeeping of arguments (tight emission loops)
    static LIGHT: Cell<bool> = Cell::new(false);
    /// the next `do_emit` of a register_* method on this thread hands the handle it got through the wrapper out
    /// through `KEPT_OUT` instead of dropping it at the end of the emitting statement
    static KEEP_NEXT: Cell<bool> = Cell::new(false);
    static KEPT_OUT: RefCell<Option<Kept>> = RefCell::new(None);
    /// emissions the recorder double makes one inside the other below the one in `NEST` (`m<d>`: levels 2..d)
    static NEST_MORE: RefCell<Vec<Em>> = RefCell::new(vec![]);
    /// what became of every re-entrant emission of the current outermost call, innermost first
    static NEST_RESULTS: RefCell<Vec<&'static str>> = RefCell::new(vec![]);
    /// mode 4: what the recorder double does from inside the forwarded call (drop the recovery handle / call into_inner)
    static INSIDE_ACT: RefCell<Option<Box<dyn FnOnce()>>> = RefCell::new(None);
    /// the thread is inside an `into_inner` it called from inside a forwarded call (see `abort_hook`)
    static NESTED_II: Cell<bool> = Cell::new(false);
    /// … and was unwound out of it by the harness: the thread's program ends there
    static ABORTED: Cell<bool> = Cell::new(false);
}

/// size class of the wrapped recorder type for the rounds that follow (0: 8 bytes … 3: 4104 bytes)
static SIZE_CLASS: AtomicUsize = AtomicUsize::new(0);

/// Hook installed AFTER a scheduled round ended with a thread spinning in an `into_inner` it called from inside a
/// forwarded call: the only way out of that loop is to unwind through its yield point (the unwinding drops `self`,
/// i.e. the recovery handle).
fn abort_hook(id: &'static str) {
    if id == "spin0:recover.try_unwrap" && NESTED_II.with(|n| n.get()) {
        std::panic::resume_unwind(Box::new("mv: into_inner called from inside a forwarded call is unwound by the harness"));
    }
}

/// padding of the wrapped recorder type (so that `R` has different sizes), filled with a pattern
trait Pad: Send + Sync + 'static {
    fn make() -> Self;
    fn intact(&self) -> bool;
}
impl Pad for () {
    fn make() -> Self {}
    fn intact(&self) -> bool {
        true
    }
}
impl<const N: usize> Pad for [u64; N] {
    fn make() -> Self {
        let mut a = [0u64; N];
        for (i, x) in a.iter_mut().enumerate() {
            *x = 0xA5A5_0000_0000_0000 ^ (i as u64).wrapping_mul(0x9E37_79B9);
        }
        a
    }
    fn intact(&self) -> bool {
        self.iter().enumerate().all(|(i, x)| *x == 0xA5A5_0000_0000_0000 ^ (i as u64).wrapping_mul(0x9E37_79B9))
    }
}

/// a metric handle obtained through the wrapper that the caller keeps (`let c = counter!(..)`)
enum Kept {
    C(Counter),
    G(Gauge),
    H(Histogram),
}
impl Kept {
    fn kind(&self) -> usize {
        match self {
            Kept::C(_) => 0,
            Kept::G(_) => 1,
            Kept::H(_) => 2,
        }
    }
    fn write(&self, v: u64) {
        match self {
            Kept::C(h) => h.increment(v),
            Kept::G(h) => h.increment(v as f64),
            Kept::H(h) => h.record(v as f64),
        }
    }
}
/// the kept handles of one thread; they live in the round (not on the thread's stack) so that the end-of-round
/// measurements are taken while they are still held
type KeptStore = Arc<Mutex<Vec<KeptH>>>;
struct KeptH {
    h: Kept,
    /// the registration that produced the handle reached the recorder (the handle was live when obtained)
    live: bool,
}

/// Writes through every kept handle of thread `t` (whose cells only `t` touches) and counts how many writes
/// landed in the recorder's storage (live) and how many nowhere (inert); `Err` = a write landed somewhere else.
fn use_kept(store: &KeptStore, sh: &Arc<Shared>, t: usize, val: u64) -> Result<(usize, usize), String> {
    let kept = store.lock().unwrap();
    let (mut live, mut inert) = (0, 0);
    for (i, kh) in kept.iter().enumerate() {
        let h = &kh.h;
        let snap = || [0usize, 1, 2].map(|k| sh.cells[t][k].0.load(Ordering::SeqCst));
        let b = snap();
        h.write(val);
        let a = snap();
        let d = [a[0].wrapping_sub(b[0]), a[1].wrapping_sub(b[1]), a[2].wrapping_sub(b[2])];
        let mut want = [0u64; 3];
        want[h.kind()] = val;
        if d == want && kh.live {
            live += 1;
        } else if d == [0, 0, 0] && !kh.live {
            inert += 1;
        } else if d == want || d == [0, 0, 0] {
            return Err(format!("kept handle {} (kind {}) was {} when obtained and is {} now", i, h.kind(), if kh.live { "live" } else { "inert" }, if kh.live { "inert" } else { "live" }));
        } else {
            return Err(format!("kept handle {} (kind {}) moved the cells by {:?}", i, h.kind(), d));
        }
    }
    Ok((live, inert))
}

/// the storage behind the handles the recorder double hands out
struct Cellv(AtomicU64);
impl CounterFn for Cellv {
    fn increment(&self, v: u64) {
        self.0.fetch_add(v, Ordering::SeqCst);
    }
    fn absolute(&self, v: u64) {
        self.0.store(v, Ordering::SeqCst);
    }
}
impl GaugeFn for Cellv {
    fn increment(&self, v: f64) {
        self.0.fetch_add(v as u64, Ordering::SeqCst);
    }
    fn decrement(&self, v: f64) {
        self.0.fetch_sub(v as u64, Ordering::SeqCst);
    }
    fn set(&self, v: f64) {
        self.0.store(v as u64, Ordering::SeqCst);
    }
}
impl HistogramFn for Cellv {
    fn record(&self, v: f64) {
        self.0.fetch_add(v as u64, Ordering::SeqCst);
    }
}

#[repr(align(128))]
struct Padded(AtomicUsize);

struct Shared {
    id: usize,
    inside: AtomicUsize,
    finalised: AtomicUsize,
    entered_after_final: AtomicBool,
    final_while_inside: AtomicBool,
    /// per emitting thread, per kind (counter / gauge / histogram): only that thread ever touches its cells
    cells: Vec<[Arc<Cellv>; 3]>,
    /// stress rounds: per emitting thread "I am inside" (own cache line each, so that the emitters do not slow
    /// each other down and spend most of their time at the upgrade / release of the strong reference)
    light_inside: Vec<Padded>,
    /// long-hold round: an emission is inside and waits / may leave
    hold_entered: AtomicBool,
    hold_release: AtomicBool,
    /// the wrapper through which the recorder double emits once from its own `Drop` (taken there), and what came of it
    drop_emit: Mutex<Option<DynRec>>,
    drop_emit_result: Mutex<Option<&'static str>>,
}
impl Shared {
    fn new(id: usize) -> Arc<Shared> {
        let mk = || Arc::new(Cellv(AtomicU64::new(0)));
        Arc::new(Shared {
            id,
            inside: AtomicUsize::new(0),
            finalised: AtomicUsize::new(0),
            entered_after_final: AtomicBool::new(false),
            final_while_inside: AtomicBool::new(false),
            cells: (0..MAX_THREADS).map(|_| [mk(), mk(), mk()]).collect(),
            light_inside: (0..MAX_THREADS).map(|_| Padded(AtomicUsize::new(0))).collect(),
            hold_entered: AtomicBool::new(false),
            hold_release: AtomicBool::new(false),
            drop_emit: Mutex::new(None),
            drop_emit_result: Mutex::new(None),
        })
    }
    /// calls executing inside the recorder double right now
    fn inside_now(&self) -> usize {
        self.inside.load(Ordering::SeqCst) + self.light_inside.iter().map(|p| p.0.load(Ordering::SeqCst)).sum::<usize>()
    }
    fn cell_sum(&self) -> u64 {
        self.cells.iter().flat_map(|c| c.iter()).map(|c| c.0.load(Ordering::SeqCst)).fold(0u64, |a, b| a.wrapping_add(b))
    }
}

struct Rec<P: Pad = ()> {
    sh: Arc<Shared>,
    pad: P,
}
impl<P: Pad> Rec<P> {
    fn enter(&self, what: impl FnOnce() -> String) {
        if LIGHT.with(|l| l.get()) {
            let t = TIDX.with(|t| t.get());
            if self.sh.finalised.load(Ordering::SeqCst) > 0 {
                self.sh.entered_after_final.store(true, Ordering::SeqCst);
            }
            self.sh.light_inside[t].0.store(1, Ordering::SeqCst);
            self.sh.light_inside[t].0.store(0, Ordering::SeqCst);
            return;
        }
        ARRIVED.with(|a| a.borrow_mut().push(what()));
        if self.sh.finalised.load(Ordering::SeqCst) > 0 {
            self.sh.entered_after_final.store(true, Ordering::SeqCst);
        }
        self.sh.inside.fetch_add(1, Ordering::SeqCst);
        let mode = MODE.with(|m| m.replace(0));
        if mode == 2 {
            // the recorder emits its own telemetry from inside the forwarded call (and, `m<d>`, that emission's
            // forwarded call emits again, …)
            if let Some((w, em, sh)) = NEST.with(|n| n.borrow_mut().take()) {
                let mut more = NEST_MORE.with(|m| std::mem::take(&mut *m.borrow_mut()));
                let r = if more.is_empty() {
                    do_emit(&*w, &em, &sh, TIDX.with(|t| t.get()), 0, None)
                } else {
                    let next = more.remove(0);
                    NEST_MORE.with(|m| *m.borrow_mut() = more);
                    do_emit(&*w, &em, &sh, TIDX.with(|t| t.get()), 2, Some((w.clone(), next, sh.clone())))
                };
                NEST_RESULT.with(|x| *x.borrow_mut() = Some(r));
                NEST_RESULTS.with(|x| x.borrow_mut().push(r));
            }
        }
        if mode == 4 {
            // the recorder ends the life of its own recovery handle from inside the forwarded call
            if let Some(act) = INSIDE_ACT.with(|a| a.borrow_mut().take()) {
                act();
            }
        }
        if mode == 3 {
            self.sh.hold_entered.store(true, Ordering::SeqCst);
            let t0 = Instant::now();
            while !self.sh.hold_release.load(Ordering::SeqCst) && t0.elapsed() < Duration::from_secs(20) {
                std::hint::spin_loop();
            }
        }
        metrics::verif::point("rec.inside");
        self.sh.inside.fetch_sub(1, Ordering::SeqCst);
        if mode == 1 {
            // a panic of the wrapped recorder (resume_unwind: no panic-hook noise); the caller survives it
            std::panic::resume_unwind(Box::new("mv: recorder double panics"));
        }
    }
}
impl<P: Pad> Drop for Rec<P> {
    fn drop(&mut self) {
        if self.sh.inside_now() > 0 {
            self.sh.final_while_inside.store(true, Ordering::SeqCst);
        }
        self.sh.finalised.fetch_add(1, Ordering::SeqCst);
        // the recorder's destructor emits through the wrapper (exporter flushing its own telemetry): finalisation has
        // begun, the call must not come back into this recorder. The thread's emission state is saved around it (the
        // destructor runs in the middle of whatever call dropped the last reference); no parking inside (the
        // destructor belongs to the step that dropped the last reference).
        let w = self.sh.drop_emit.lock().unwrap().take();
        if let Some(w) = w {
            let saved = (MODE.with(|m| m.get()), NEST.with(|n| n.borrow_mut().take()), KEEP_NEXT.with(|k| k.get()));
            let probe = Em { method: 4, name: "from.drop".into(), labels: vec![("in".into(), "destructor".into())], unit: 0, desc: String::new(), meta: 2, val: 13 };
            let sh = self.sh.clone();
            let t = TIDX.with(|t| t.get());
            let r = sched::muted(|| do_emit(&*w, &probe, &sh, t, 0, None));
            *self.sh.drop_emit_result.lock().unwrap() = Some(r);
            MODE.with(|m| m.set(saved.0));
            NEST.with(|n| *n.borrow_mut() = saved.1);
            KEEP_NEXT.with(|k| k.set(saved.2));
        }
    }
}
fn show_key(k: &Key) -> String {
    let labels: Vec<String> = k.labels().map(|l| format!("{}={}", l.key(), l.value())).collect();
    format!("{}{{{}}}", k.name(), labels.join(","))
}
fn show_meta(m: &Metadata<'_>) -> String {
    format!("target={} level={:?} mp={:?}", m.target(), m.level(), m.module_path())
}
impl<P: Pad> Recorder for Rec<P> {
    fn describe_counter(&self, k: KeyName, u: Option<Unit>, d: SharedString) {
        self.enter(|| format!("describe_counter {} {:?} {}", k.as_str(), u, d))
    }
    fn describe_gauge(&self, k: KeyName, u: Option<Unit>, d: SharedString) {
        self.enter(|| format!("describe_gauge {} {:?} {}", k.as_str(), u, d))
    }
    fn describe_histogram(&self, k: KeyName, u: Option<Unit>, d: SharedString) {
        self.enter(|| format!("describe_histogram {} {:?} {}", k.as_str(), u, d))
    }
    fn register_counter(&self, k: &Key, m: &Metadata<'_>) -> Counter {
        let c = self.sh.cells[TIDX.with(|t| t.get())][0].clone();
        self.enter(|| format!("register_counter {} {}", show_key(k), show_meta(m)));
        Counter::from_arc(c)
    }
    fn register_gauge(&self, k: &Key, m: &Metadata<'_>) -> Gauge {
        let c = self.sh.cells[TIDX.with(|t| t.get())][1].clone();
        self.enter(|| format!("register_gauge {} {}", show_key(k), show_meta(m)));
        Gauge::from_arc(c)
    }
    fn register_histogram(&self, k: &Key, m: &Metadata<'_>) -> Histogram {
        let c = self.sh.cells[TIDX.with(|t| t.get())][2].clone();
        self.enter(|| format!("register_histogram {} {}", show_key(k), show_meta(m)));
        Histogram::from_arc(c)
    }
}

/// one emission: which of the six forwarded methods, with which arguments
#[derive(Clone, Debug)]
struct Em {
    method: usize,
    name: String,
    labels: Vec<(String, String)>,
    unit: usize,
    desc: String,
    meta: usize,
    val: u64,
}
const METHODS: [&str; 6] = ["register_counter", "describe_gauge", "register_histogram", "describe_counter", "register_gauge", "describe_histogram"];

fn gen_em(r: &mut Rng) -> Em {
    let names = ["xa", "xb", "req.total", "a b", "é", "", "x:y|z"];
    let lk = ["k", "l", "", "k"];
    let lv = ["v", "", "w w", "1"];
    let nl = *r.pick(&[0usize, 0, 1, 2, 3]);
    Em {
        method: r.below(6),
        name: r.pick_str(&names).to_string(),
        labels: (0..nl).map(|_| (r.pick_str(&lk).to_string(), r.pick_str(&lv).to_string())).collect(),
        unit: r.below(UNITS.len()),
        desc: r.pick_str(&["", "dc", "a description", "ü"]).to_string(),
        meta: r.below(METAS.len()),
        val: 1 + r.below(1000) as u64,
    }
}

fn expect_str(em: &Em) -> String {
    let m = &METAS[em.meta];
    let key = format!("{}{{{}}}", em.name, em.labels.iter().map(|(k, v)| format!("{}={}", k, v)).collect::<Vec<_>>().join(","));
    let meta = format!("target={} level={:?} mp={:?}", m.target(), m.level(), m.module_path());
    match em.method {
        0 | 2 | 4 => format!("{} {} {}", METHODS[em.method], key, meta),
        _ => format!("{} {} {:?} {}", METHODS[em.method], em.name, UNITS[em.unit], em.desc),
    }
}

/// Performs one emission through `w` (whose wrapped recorder double is `sh`) on emitting thread `t` and says
/// what became of it: `delivered` (entered the recorder as exactly this call; a returned handle is live),
/// `panicked` (entered, the recorder panicked, caught here), `ignored` (not entered; a returned handle is
/// inert), or one of the failure words `misrouted` / `dead-handle` / `live-handle-after-ignore`.
/// `mode` is the recorder double's behaviour for this entry; `nest` the emission it makes from inside.
fn do_emit(w: &dyn Recorder, em: &Em, sh: &Arc<Shared>, t: usize, mode: u8, nest: Option<(DynRec, Em, Arc<Shared>)>) -> &'static str {
    let depth = ARRIVED.with(|a| a.borrow().len());
    MODE.with(|m| m.set(mode));
    NEST.with(|n| *n.borrow_mut() = nest);
    let key = Key::from_parts(em.name.clone(), em.labels.iter().map(|(k, v)| Label::new(k.clone(), v.clone())).collect::<Vec<_>>());
    let meta = &METAS[em.meta];
    let unit = UNITS[em.unit];
    let kind = match em.method {
        0 => Some(0usize),
        4 => Some(1),
        2 => Some(2),
        _ => None,
    };
    // the returned handle is used at once; only thread `t` ever touches cells[t], so the delta is exact with or
    // without the scheduler
    let r = std::panic::catch_unwind(std::panic::AssertUnwindSafe(|| -> (u64, u64) {
        let snap = || [0usize, 1, 2].map(|k| sh.cells[t][k].0.load(Ordering::SeqCst));
        // (change of the cell of the handle's own kind, change of all three cells of this thread)
        let delta = |k: usize, b: [u64; 3], a: [u64; 3]| {
            (a[k].wrapping_sub(b[k]), (0..3).fold(0u64, |s, i| s.wrapping_add(a[i].wrapping_sub(b[i]))))
        };
        match em.method {
            0 => {
                let h = w.register_counter(&key, meta);
                let b = snap();
                h.increment(em.val);
                let d = delta(0, b, snap());
                if KEEP_NEXT.with(|k| k.replace(false)) {
                    KEPT_OUT.with(|k| *k.borrow_mut() = Some(Kept::C(h)));
                }
                d
            }
            4 => {
                let h = w.register_gauge(&key, meta);
                let b = snap();
                h.increment(em.val as f64);
                let d = delta(1, b, snap());
                if KEEP_NEXT.with(|k| k.replace(false)) {
                    KEPT_OUT.with(|k| *k.borrow_mut() = Some(Kept::G(h)));
                }
                d
            }
            2 => {
                let h = w.register_histogram(&key, meta);
                let b = snap();
                h.record(em.val as f64);
                let d = delta(2, b, snap());
                if KEEP_NEXT.with(|k| k.replace(false)) {
                    KEPT_OUT.with(|k| *k.borrow_mut() = Some(Kept::H(h)));
                }
                d
            }
            1 => {
                w.describe_gauge(KeyName::from(em.name.clone()), unit, SharedString::from(em.desc.clone()));
                (0, 0)
            }
            3 => {
                w.describe_counter(KeyName::from(em.name.clone()), unit, SharedString::from(em.desc.clone()));
                (0, 0)
            }
            _ => {
                w.describe_histogram(KeyName::from(em.name.clone()), unit, SharedString::from(em.desc.clone()));
                (0, 0)
            }
        }
    }));
    MODE.with(|m| m.set(0));
    NEST.with(|n| *n.borrow_mut() = None);
    KEEP_NEXT.with(|k| k.set(false));
    let mine = ARRIVED.with(|a| {
        let mut a = a.borrow_mut();
        let x = a.get(depth).cloned();
        a.truncate(depth);
        x
    });
    let want = expect_str(em);
    match (mine, r) {
        (None, Ok((own, total))) => {
            if own != 0 || total != 0 {
                "live-handle-after-ignore"
            } else {
                "ignored"
            }
        }
        (None, Err(_)) => "panic-without-entry",
        (Some(got), r) => {
            if got != want {
                MISROUTED.lock().unwrap().push(format!("sent [{}] arrived [{}]", want, got));
                return "misrouted";
            }
            match r {
                Err(_) => "panicked",
                Ok((own, total)) => {
                    if kind.is_some() && (own != em.val || total != em.val) {
                        "dead-handle"
                    } else {
                        "delivered"
                    }
                }
            }
        }
    }
}

static MISROUTED: Mutex<Vec<String>> = Mutex::new(vec![]);
static KEPT_ERR: Mutex<Vec<String>> = Mutex::new(vec![]);
/// rounds in which `into_inner` was found stuck (each costs its bounded wait: the phases stop after a few)
static STUCK_ROUNDS: AtomicUsize = AtomicUsize::new(0);

/// `do_emit` of a register_* method whose returned handle is KEPT in `store` (used once right away like every
/// handle, which tells whether it is live or inert) instead of being dropped at the end of the statement
fn do_emit_keep(w: &dyn Recorder, em: &Em, sh: &Arc<Shared>, t: usize, store: &KeptStore) -> &'static str {
    KEPT_OUT.with(|k| *k.borrow_mut() = None);
    KEEP_NEXT.with(|k| k.set(true));
    let r = do_emit(w, em, sh, t, 0, None);
    if let Some(h) = KEPT_OUT.with(|k| k.borrow_mut().take()) {
        store.lock().unwrap().push(KeptH { h, live: r == "delivered" });
    }
    r
}

#[derive(Clone, Copy, Debug, PartialEq)]
enum Call {
    Emit,
    IntoInner,
    DropHandle,
    EmitPanic,
    EmitNested,
    /// a register_* through the wrapper whose returned handle the thread keeps
    EmitKeep,
    /// write through every kept handle
    UseKept,
    /// drop every kept handle
    DropKept,
    /// an emission during which the recorder emits again through the wrapper, so many levels deep
    EmitDeep(usize),
    /// an emission during which the recorder drops the recovery handle (from inside the forwarded call)
    EmitDropInside,
    /// an emission during which the recorder calls `into_inner` (from inside the forwarded call); never returns
    EmitIntoInside,
}
impl Call {
    fn is_emission(self) -> bool {
        matches!(self, Call::Emit | Call::EmitPanic | Call::EmitNested | Call::EmitKeep | Call::EmitDeep(_) | Call::EmitDropInside | Call::EmitIntoInside)
    }
    fn is_end(self) -> bool {
        matches!(self, Call::IntoInner | Call::DropHandle | Call::EmitDropInside | Call::EmitIntoInside)
    }
}

#[derive(Clone, Debug)]
struct Step {
    call: Call,
    em: Option<Em>,
    nested: Option<Em>,
    /// `m<d>`: the emissions of levels 2..d (level 1 is `nested`)
    deep: Vec<Em>,
}
fn st(call: Call, r: &mut Rng) -> Step {
    let mut em = if call.is_emission() || call == Call::UseKept { Some(gen_em(r)) } else { None };
    if call == Call::EmitKeep {
        // only the register_* methods return a handle
        em.as_mut().unwrap().method = *r.pick(&[0usize, 2, 4]);
    }
    let nested = if call == Call::EmitNested || matches!(call, Call::EmitDeep(d) if d > 0) { Some(gen_em(r)) } else { None };
    let deep = if let Call::EmitDeep(d) = call { (1..d).map(|_| gen_em(r)).collect() } else { vec![] };
    Step { call, em, nested, deep }
}

fn prog_tok(p: &[Step]) -> String {
    if p.is_empty() {
        return "-".into();
    }
    p.iter()
        .map(|c| match c.call {
            Call::Emit => "e".to_string(),
            Call::IntoInner => "i".to_string(),
            Call::DropHandle => "d".to_string(),
            Call::EmitPanic => "p".to_string(),
            Call::EmitNested => "n".to_string(),
            Call::EmitKeep => "k".to_string(),
            Call::UseKept => "u".to_string(),
            Call::DropKept => "x".to_string(),
            Call::EmitDeep(d) => format!("m{}", d),
            Call::EmitDropInside => "D".to_string(),
            Call::EmitIntoInside => "I".to_string(),
        })
        .collect::<Vec<_>>()
        .join("+")
}
fn progs_tok(progs: &[Vec<Step>]) -> String {
    list(progs.iter().map(|p| prog_tok(p)))
}

/// what became of one call of a thread program
#[derive(Clone, Debug, Default)]
struct CallRec {
    res: String,
    nested: Option<String>,
    /// answers that come before `res` in the model's result list: the re-entrant emissions of `m<d>` (innermost
    /// first), `dropped` of `D`
    pre: Vec<String>,
    /// free-running rounds: global sequence numbers taken right before / after the call
    t_start: u64,
    t_end: u64,
}

struct Outcome {
    calls: Vec<Vec<CallRec>>,
    finalised_by_library: usize,
    recovered: bool,
    recovered_wrong_recorder: bool,
    into_inner_panicked: bool,
    busy_at_recovery: bool,
    late: bool,
    final_while_inside: bool,
    misrouted: Vec<String>,
    unfinished: bool,
    run: sched::RunResult,
    /// the round did not finish and the only threads not finished sit in `into_inner` while no emission is
    /// executing: (inside count, metric handles kept by the threads at that moment)
    stuck_into_inner: Option<(usize, usize)>,
    /// metric handles still kept by the threads when the round was over
    kept_at_end: usize,
    /// the recovery handle's life was ended in the round (into_inner began / the handle was dropped)
    handle_ended: bool,
    /// every thread ran its program to the end
    all_done: bool,
    /// one more emission through the wrapper by the harness after all threads were done, kept handles still held
    post_emit: Option<&'static str>,
    /// a write through the kept handles after all threads were done: Ok((live, inert))
    post_use: Vec<Result<(usize, usize), String>>,
    /// destructor runs of the recorder caused by dropping the kept handles at the very end
    finalised_by_dropping_kept: usize,
    /// what became of the emission the recorder double made from its own `Drop` (None: it was not finalised by the library)
    drop_emit: Option<&'static str>,
    /// a thread called `into_inner` from inside a forwarded call and was still trying when everything else had ended
    nested_ii_stuck: bool,
    /// … after the harness unwound it: (its thread ended, destructor runs of the recorder, calls inside)
    nested_ii_after_abort: Option<(bool, usize, usize)>,
    /// an `into_inner` called from inside a forwarded call RETURNED
    nested_ii_returned: bool,
    /// the padding of the recorder that came back from `into_inner` is not what was put in
    pad_damaged: bool,
    size_class: usize,
}
impl Outcome {
    fn results(&self) -> Vec<Vec<String>> {
        self.calls
            .iter()
            .map(|cs| {
                let mut v = vec![];
                for c in cs {
                    if let Some(n) = &c.nested {
                        v.push(n.clone());
                    }
                    v.extend(c.pre.iter().cloned());
                    v.push(c.res.clone());
                }
                v
            })
            .collect()
    }
}

/// Runs the thread programs against one fresh pair. `schedule = Some(..)`: under the deterministic scheduler;
/// `None`: free-running OS threads released together by a barrier (no hook installed, the points are no-ops).
fn execute(progs: &[Vec<Step>], schedule: Option<&[usize]>) -> Outcome {
    // the wrapped recorder type: 8, 80, 272 or 4104 bytes
    match SIZE_CLASS.load(Ordering::SeqCst) % 4 {
        0 => execute_p::<()>(progs, schedule),
        1 => execute_p::<[u64; 9]>(progs, schedule),
        2 => execute_p::<[u64; 33]>(progs, schedule),
        _ => execute_p::<[u64; 512]>(progs, schedule),
    }
}

fn execute_p<P: Pad>(progs: &[Vec<Step>], schedule: Option<&[usize]>) -> Outcome {
    let sh = Shared::new(1);
    let (wrapped, handle) = RecoverableRecorder::new(Rec::<P> { sh: sh.clone(), pad: P::make() }).verif_build();
    let wrapped: DynRec = Arc::new(wrapped);
    *sh.drop_emit.lock().unwrap() = Some(wrapped.clone());
    let nested_ii = Arc::new(AtomicBool::new(false));
    let nested_ii_returned = Arc::new(AtomicBool::new(false));
    let pad_damaged = Arc::new(AtomicBool::new(false));
    let bodies_done = Arc::new(AtomicUsize::new(0));
    let handle = Arc::new(Mutex::new(Some(handle)));
    let calls: Arc<Mutex<Vec<Vec<CallRec>>>> = Arc::new(Mutex::new(vec![vec![]; progs.len()]));
    let recovered = Arc::new(AtomicBool::new(false));
    let wrong = Arc::new(AtomicBool::new(false));
    let ii_panicked = Arc::new(AtomicBool::new(false));
    let busy = Arc::new(AtomicBool::new(false));
    let tick = Arc::new(AtomicU64::new(1));
    let barrier = Arc::new(Barrier::new(progs.len()));
    let free = schedule.is_none();
    let stores: Vec<KeptStore> = (0..progs.len()).map(|_| Arc::new(Mutex::new(vec![]))).collect();
    // thread t is inside `into_inner` right now (bit t)
    let in_into_inner = Arc::new(AtomicUsize::new(0));
    let handle_ended = Arc::new(AtomicBool::new(false));
    MISROUTED.lock().unwrap().clear();
    KEPT_ERR.lock().unwrap().clear();
    let mut bodies: Vec<Box<dyn FnOnce() + Send + 'static>> = vec![];
    for (t, prog) in progs.iter().enumerate() {
        let prog = prog.clone();
        let wrapped = wrapped.clone();
        let handle = handle.clone();
        let calls = calls.clone();
        let sh = sh.clone();
        let recovered = recovered.clone();
        let wrong = wrong.clone();
        let ii_panicked = ii_panicked.clone();
        let busy = busy.clone();
        let tick = tick.clone();
        let barrier = barrier.clone();
        let store = stores[t].clone();
        let in_into_inner = in_into_inner.clone();
        let handle_ended = handle_ended.clone();
        let nested_ii = nested_ii.clone();
        let nested_ii_returned = nested_ii_returned.clone();
        let pad_damaged = pad_damaged.clone();
        let bodies_done = bodies_done.clone();
        bodies.push(Box::new(move || {
            struct Done(Arc<AtomicUsize>);
            impl Drop for Done {
                fn drop(&mut self) {
                    self.0.fetch_add(1, Ordering::SeqCst);
                }
            }
            let _done = Done(bodies_done);
            TIDX.with(|x| x.set(t));
            ARRIVED.with(|a| a.borrow_mut().clear());
            ABORTED.with(|a| a.set(false));
            NESTED_II.with(|a| a.set(false));
            if free {
                barrier.wait();
            }
            for c in prog {
                let mut rec = CallRec { t_start: tick.fetch_add(1, Ordering::SeqCst), ..Default::default() };
                let used: String;
                let r: &str = match c.call {
                    Call::Emit => do_emit(&*wrapped, c.em.as_ref().unwrap(), &sh, t, 0, None),
                    Call::EmitPanic => do_emit(&*wrapped, c.em.as_ref().unwrap(), &sh, t, 1, None),
                    Call::EmitKeep => do_emit_keep(&*wrapped, c.em.as_ref().unwrap(), &sh, t, &store),
                    Call::UseKept => {
                        metrics::verif::point("k.use");
                        used = match use_kept(&store, &sh, t, c.em.as_ref().unwrap().val) {
                            Ok((live, inert)) => format!("used-{}-{}", live, inert),
                            Err(e) => {
                                KEPT_ERR.lock().unwrap().push(e);
                                "used-misrouted".to_string()
                            }
                        };
                        &used
                    }
                    Call::DropKept => {
                        metrics::verif::point("k.drop");
                        let hs: Vec<KeptH> = std::mem::take(&mut *store.lock().unwrap());
                        used = format!("kept-dropped-{}", hs.len());
                        drop(hs);
                        &used
                    }
                    Call::EmitNested => {
                        NEST_RESULT.with(|x| *x.borrow_mut() = None);
                        let r = do_emit(&*wrapped, c.em.as_ref().unwrap(), &sh, t, 2, Some((wrapped.clone(), c.nested.clone().unwrap(), sh.clone())));
                        rec.nested = NEST_RESULT.with(|x| x.borrow_mut().take()).map(|n| format!("nested-{}", n));
                        r
                    }
                    Call::EmitDeep(d) => {
                        NEST_RESULTS.with(|x| x.borrow_mut().clear());
                        let r = if d == 0 {
                            do_emit(&*wrapped, c.em.as_ref().unwrap(), &sh, t, 0, None)
                        } else {
                            NEST_MORE.with(|m| *m.borrow_mut() = c.deep.clone());
                            do_emit(&*wrapped, c.em.as_ref().unwrap(), &sh, t, 2, Some((wrapped.clone(), c.nested.clone().unwrap(), sh.clone())))
                        };
                        NEST_MORE.with(|m| m.borrow_mut().clear());
                        rec.pre = NEST_RESULTS.with(|x| std::mem::take(&mut *x.borrow_mut())).into_iter().map(|n| format!("nested-{}", n)).collect();
                        r
                    }
                    Call::EmitDropInside => {
                        let (handle2, ended2) = (handle.clone(), handle_ended.clone());
                        let did = Arc::new(AtomicBool::new(false));
                        let did2 = did.clone();
                        INSIDE_ACT.with(|a| {
                            *a.borrow_mut() = Some(Box::new(move || {
                                metrics::verif::point("h.drop");
                                let h = handle2.lock().unwrap().take();
                                ended2.store(true, Ordering::SeqCst);
                                drop(h);
                                did2.store(true, Ordering::SeqCst);
                            }))
                        });
                        let r = do_emit(&*wrapped, c.em.as_ref().unwrap(), &sh, t, 4, None);
                        INSIDE_ACT.with(|a| *a.borrow_mut() = None);
                        if did.load(Ordering::SeqCst) {
                            rec.pre = vec!["dropped".to_string()];
                        }
                        r
                    }
                    Call::EmitIntoInside => {
                        let (handle2, ended2, iii2, nii2, ret2, sh2) = (handle.clone(), handle_ended.clone(), in_into_inner.clone(), nested_ii.clone(), nested_ii_returned.clone(), sh.clone());
                        let (rec2, busy2) = (recovered.clone(), busy.clone());
                        INSIDE_ACT.with(|a| {
                            *a.borrow_mut() = Some(Box::new(move || {
                                let h = handle2.lock().unwrap().take();
                                ended2.store(true, Ordering::SeqCst);
                                iii2.fetch_or(1 << t, Ordering::SeqCst);
                                nii2.store(true, Ordering::SeqCst);
                                NESTED_II.with(|n| n.set(true));
                                let res = h.map(|h| std::panic::catch_unwind(std::panic::AssertUnwindSafe(move || h.into_inner())));
                                NESTED_II.with(|n| n.set(false));
                                match res {
                                    Some(Ok(rec)) => {
                                        // it came back although the calling emission is executing inside the recorder
                                        ret2.store(true, Ordering::SeqCst);
                                        if sh2.inside.load(Ordering::SeqCst) > 0 {
                                            busy2.store(true, Ordering::SeqCst);
                                        }
                                        rec2.store(true, Ordering::SeqCst);
                                        std::mem::forget(rec);
                                    }
                                    Some(Err(_)) => ABORTED.with(|a| a.set(true)),
                                    None => {}
                                }
                            }))
                        });
                        let r = do_emit(&*wrapped, c.em.as_ref().unwrap(), &sh, t, 4, None);
                        INSIDE_ACT.with(|a| *a.borrow_mut() = None);
                        if ABORTED.with(|a| a.get()) {
                            // unwound by the harness after the measurements: the thread's program ends here, unrecorded
                            break;
                        }
                        if nested_ii_returned.load(Ordering::SeqCst) {
                            rec.pre = vec!["recovered".to_string()];
                        }
                        r
                    }
                    Call::IntoInner => {
                        let h = handle.lock().unwrap().take();
                        handle_ended.store(true, Ordering::SeqCst);
                        in_into_inner.fetch_or(1 << t, Ordering::SeqCst);
                        let res = h.map(|h| std::panic::catch_unwind(std::panic::AssertUnwindSafe(move || h.into_inner())));
                        in_into_inner.fetch_and(!(1 << t), Ordering::SeqCst);
                        match res {
                            Some(res) => match res {
                                Ok(rec) => {
                                    if sh.inside.load(Ordering::SeqCst) > 0 {
                                        busy.store(true, Ordering::SeqCst);
                                    }
                                    if rec.sh.id != sh.id || !Arc::ptr_eq(&rec.sh, &sh) {
                                        wrong.store(true, Ordering::SeqCst);
                                    }
                                    if !rec.pad.intact() {
                                        pad_damaged.store(true, Ordering::SeqCst);
                                    }
                                    recovered.store(true, Ordering::SeqCst);
                                    // the caller now owns the recorder; its eventual drop is the caller's, not the library's
                                    std::mem::forget(rec);
                                    "recovered"
                                }
                                Err(_) => {
                                    ii_panicked.store(true, Ordering::SeqCst);
                                    "into-inner-panicked"
                                }
                            },
                            None => "nohandle",
                        }
                    }
                    Call::DropHandle => {
                        metrics::verif::point("h.drop");
                        let h = handle.lock().unwrap().take();
                        handle_ended.store(true, Ordering::SeqCst);
                        drop(h);
                        "dropped"
                    }
                };
                rec.res = r.to_string();
                rec.t_end = tick.fetch_add(1, Ordering::SeqCst);
                calls.lock().unwrap()[t].push(rec);
            }
        }));
    }
    let mut unfinished = false;
    let run = match schedule {
        Some(s) => sched::run(bodies, s),
        None => {
            let hs: Vec<_> = bodies.into_iter().map(|b| std::thread::spawn(b)).collect();
            // watchdog: a correct into_inner returns as soon as the (finite) emitters are done; 20 s is three
            // orders of magnitude above the expected round time
            let t0 = Instant::now();
            // bounded wait for `into_inner`: once every thread that is not inside `into_inner` has finished, nothing
            // is executing in the recorder and the very next `Arc::try_unwrap` succeeds (theorem
            // into_inner_returns_despite_kept_handles) — microseconds; 5 s of this state, during which nothing else
            // runs in the round, is a margin of six orders of magnitude
            let mut quiet_since: Option<Instant> = None;
            while hs.iter().any(|h| !h.is_finished()) && t0.elapsed() < Duration::from_secs(20) {
                let mask = in_into_inner.load(Ordering::SeqCst);
                let only_enders = hs.iter().enumerate().all(|(t, h)| h.is_finished() || mask & (1 << t) != 0);
                if only_enders {
                    if quiet_since.get_or_insert_with(Instant::now).elapsed() > Duration::from_secs(5) {
                        break;
                    }
                } else {
                    quiet_since = None;
                }
                std::thread::sleep(Duration::from_micros(50));
            }
            let mut panicked = vec![];
            for (t, h) in hs.into_iter().enumerate() {
                if h.is_finished() {
                    if h.join().is_err() {
                        panicked.push(t);
                    }
                } else {
                    unfinished = true;
                }
            }
            sched::RunResult { trace: vec![], choices: vec![], deadlock: false, timed_out: false, panicked }
        }
    };
    let cs = calls.lock().unwrap().clone();
    let finalised_by_library = sh.finalised.load(Ordering::SeqCst);
    let recovered_now = recovered.load(Ordering::SeqCst);
    // a thread that called `into_inner` from inside a forwarded call is still trying (it holds a reference itself):
    // the measurements above are taken while it tries; now it is unwound out of the retry loop through the yield
    // point. The unwinding drops the handle, the forwarded call returns and drops the last reference.
    let n_threads = progs.len();
    let nested_ii_stuck = nested_ii.load(Ordering::SeqCst) && !nested_ii_returned.load(Ordering::SeqCst) && bodies_done.load(Ordering::SeqCst) < n_threads;
    let mut nested_ii_after_abort = None;
    if nested_ii_stuck {
        metrics::verif::set_hook(Some(abort_hook));
        let ended = wait_until(|| bodies_done.load(Ordering::SeqCst) >= n_threads, Duration::from_secs(5));
        metrics::verif::set_hook(None);
        nested_ii_after_abort = Some((ended, sh.finalised.load(Ordering::SeqCst), sh.inside_now()));
    }
    let kept_at_end: usize = stores.iter().map(|s| s.lock().unwrap().len()).sum();
    let all_done = !unfinished && !run.deadlock && !run.timed_out && cs.iter().zip(progs).all(|(c, p)| c.len() == p.len());
    let stuck_into_inner = if (run.deadlock || unfinished) && !nested_ii_stuck {
        let mask = in_into_inner.load(Ordering::SeqCst);
        let pending: Vec<usize> = (0..progs.len()).filter(|t| cs[*t].len() < progs[*t].len()).collect();
        let inside = sh.inside_now();
        if !pending.is_empty() && pending.iter().all(|t| mask & (1 << *t) != 0) && inside == 0 && !recovered_now {
            Some((inside, kept_at_end))
        } else {
            None
        }
    } else {
        None
    };
    // after the round, the kept handles still held: they are what they were when obtained, and one more emission
    // through the wrapper is answered according to the state of the recovery handle alone
    let mut post_use = vec![];
    let mut post_emit = None;
    if all_done {
        for (t, st) in stores.iter().enumerate() {
            TIDX.with(|x| x.set(t));
            post_use.push(use_kept(st, &sh, t, 7));
        }
        TIDX.with(|x| x.set(0));
        ARRIVED.with(|a| a.borrow_mut().clear());
        let probe = Em { method: 4, name: "post".into(), labels: vec![("after".into(), "round".into())], unit: 0, desc: String::new(), meta: 1, val: 3 };
        post_emit = Some(do_emit(&*wrapped, &probe, &sh, 0, 0, None));
    }
    // only now are the kept handles dropped: that must not finalise anything (a kept handle holds no reference)
    let before = sh.finalised.load(Ordering::SeqCst);
    for st in &stores {
        let hs: Vec<KeptH> = std::mem::take(&mut *st.lock().unwrap());
        drop(hs);
    }
    let finalised_by_dropping_kept = sh.finalised.load(Ordering::SeqCst) - before;
    let mis = MISROUTED.lock().unwrap().clone();
    let drop_emit = { let g = sh.drop_emit_result.lock().unwrap(); *g };
    // the wrapper kept for the destructor's emission is released (it only holds a weak reference to the recorder)
    let _ = sh.drop_emit.lock().unwrap().take();
    Outcome {
        drop_emit,
        nested_ii_stuck,
        nested_ii_after_abort,
        nested_ii_returned: nested_ii_returned.load(Ordering::SeqCst),
        pad_damaged: pad_damaged.load(Ordering::SeqCst),
        size_class: SIZE_CLASS.load(Ordering::SeqCst) % 4,
        stuck_into_inner,
        kept_at_end,
        handle_ended: handle_ended.load(Ordering::SeqCst),
        all_done,
        post_emit,
        post_use,
        finalised_by_dropping_kept,
        calls: cs,
        finalised_by_library,
        recovered: recovered_now,
        recovered_wrong_recorder: wrong.load(Ordering::SeqCst),
        into_inner_panicked: ii_panicked.load(Ordering::SeqCst),
        busy_at_recovery: busy.load(Ordering::SeqCst),
        late: sh.entered_after_final.load(Ordering::SeqCst),
        final_while_inside: sh.final_while_inside.load(Ordering::SeqCst),
        misrouted: mis,
        unfinished,
        run,
    }
}

fn answer(o: &Outcome) -> String {
    let labels: Vec<&str> = o.run.trace.iter().map(|(_, id)| *id).collect();
    let res = list(o.results().iter().map(|r| if r.is_empty() { ".".to_string() } else { r.join("+") }));
    format!(
        "{} | {} | finalised={} recovered={} late={} busy={}",
        labels.join("."),
        res,
        o.finalised_by_library,
        o.recovered,
        o.late,
        o.busy_at_recovery
    )
}

/// oracles that do not need a trace (scheduled and free-running rounds alike)
fn oracle_common(out: &mut Out, progs: &[Vec<Step>], o: &Outcome, ctx: &str) -> bool {
    if let Some((inside, kept)) = o.stuck_into_inner {
        out.oracle_fail(
            "into_inner did not return although no emission was executing inside the recorder",
            &format!(
                "threads {} (k = registration through the wrapper whose handle the thread keeps): every other thread had finished, calls inside the recorder: {}, metric handles obtained through the wrapper still held: {}; into_inner kept failing ({}); results so far {:?}; {}",
                progs_tok(progs),
                inside,
                kept,
                if o.run.deadlock { "scheduler: only the thread in into_inner is left and its attempts fail" } else { "free-running: 5 s with nothing else running" },
                o.results(),
                ctx
            ),
        );
        if o.finalised_by_dropping_kept != 0 || o.kept_at_end > 0 {
            out.count("into_inner.stuck.while.handles.kept");
        }
        STUCK_ROUNDS.fetch_add(1, Ordering::SeqCst);
        return false;
    }
    if o.nested_ii_returned {
        out.oracle_fail(
            "into_inner returned while an emission was executing inside the recorder",
            &format!("threads {} (I = an emission during which the recorder calls into_inner on its own recovery handle): it returned although the calling emission was still inside the recorder {}", progs_tok(progs), ctx),
        );
    }
    if o.nested_ii_stuck {
        // expected (theorem into_inner_from_inside_never_returns): every other thread has ended, this one still tries;
        // nothing may have been finalised or recovered while it tried, and unwinding it ends the recorder's life once
        out.count("into_inner.from.inside.still.trying.when.all.else.ended");
        out.nontrivial();
        if o.finalised_by_library != 0 || o.recovered {
            out.oracle_fail("recorder not dropped exactly once after the handle was dropped / dropped although recovered", &format!("while an into_inner called from inside a forwarded call was still trying: finalised {} recovered {} {}", o.finalised_by_library, o.recovered, ctx));
        }
        match o.nested_ii_after_abort {
            Some((true, 1, 0)) => {}
            x => out.oracle_fail(
                "recorder not dropped exactly once after the handle was dropped / dropped although recovered",
                &format!("threads {}: into_inner called from inside a forwarded call, unwound by the harness (which drops the handle), then the forwarded call returned: (thread ended, destructor runs, calls inside) = {:?}, want (true, 1, 0) {}", progs_tok(progs), x, ctx),
            ),
        }
        if o.drop_emit.map_or(false, |r| r != "ignored") {
            out.oracle_fail("a call entered the recorder after its finalisation began", &format!("the emission made by the recorder's own destructor through the wrapper: {:?} {}", o.drop_emit, ctx));
        }
        return false;
    }
    if o.run.deadlock || o.run.timed_out || !o.run.panicked.is_empty() || o.unfinished {
        out.oracle_fail("recoverable recorder: deadlock, timeout or panic", &format!("{} unfinished={} {:?}", ctx, o.unfinished, o.run.trace));
        return false;
    }
    if o.into_inner_panicked {
        out.oracle_fail("into_inner panicked instead of waiting for the emissions in flight and returning the recorder", ctx);
    }
    if o.recovered_wrong_recorder {
        out.oracle_fail("into_inner returned a recorder that is not the original one", ctx);
    }
    if o.pad_damaged {
        out.oracle_fail("into_inner returned a recorder that is not the original one", &format!("the recorder value came back with different contents (wrapped type of size class {}) {}", o.size_class, ctx));
    }
    // the recorder's destructor emitted through the wrapper: finalisation had begun, so the call must be ignored
    match o.drop_emit {
        Some("ignored") => out.count("emission.from.the.recorders.destructor.ignored"),
        Some(r) => out.oracle_fail(
            "a call entered the recorder after its finalisation began",
            &format!("the emission made by the recorder's own destructor through the wrapper was not answered with an inert handle: {} (threads {}) {}", r, progs_tok(progs), ctx),
        ),
        None => {}
    }
    if o.busy_at_recovery {
        out.oracle_fail("into_inner returned while an emission was executing inside the recorder", ctx);
    }
    if let Some(m) = o.misrouted.first() {
        out.oracle_fail("an emission through the wrapper reached the wrapped recorder as a different call", &format!("{} {}", m, ctx));
    }
    if o.late {
        out.oracle_fail("a call entered the recorder after its finalisation began", ctx);
    }
    if o.final_while_inside {
        out.oracle_fail("the recorder was finalised while a call was inside it", ctx);
    }
    let has_drop = progs.iter().flatten().any(|c| c.call == Call::DropHandle || c.call == Call::EmitDropInside);
    let want_final = if o.recovered { 0 } else if has_drop { 1 } else { 0 };
    if o.finalised_by_library != want_final {
        out.oracle_fail(
            "recorder not dropped exactly once after the handle was dropped / dropped although recovered",
            &format!("finalised {} want {} {}", o.finalised_by_library, want_final, ctx),
        );
    }
    if o.finalised_by_dropping_kept != 0 {
        out.oracle_fail(
            "the recorder was finalised only when a metric handle kept by a caller was dropped (a kept handle kept the recorder alive)",
            &format!("threads {}: {} handles kept at the end of the round, dropping them ran the recorder's destructor {} time(s) {}", progs_tok(progs), o.kept_at_end, o.finalised_by_dropping_kept, ctx),
        );
    }
    for (t, pu) in o.post_use.iter().enumerate() {
        if let Err(e) = pu {
            out.oracle_fail("a metric handle kept by a caller is not what it was when it was obtained (live stays live, inert stays inert)", &format!("thread {} after the round: {} {}", t, e, ctx));
        }
    }
    if let Some(pe) = o.post_emit {
        // all threads are done: nobody is inside; what is left are the kept handles
        if o.handle_ended && pe != "ignored" {
            out.oracle_fail(
                if o.recovered { "an emission made after into_inner returned reached the recorder" } else { "handle dropped and nobody inside the recorder any more, yet a later emission reached it" },
                &format!("emission by the harness after all threads {} were done ({}), {} metric handles still kept by them {}", progs_tok(progs), pe, o.kept_at_end, ctx),
            );
        }
        if !o.handle_ended && pe != "delivered" {
            out.oracle_fail("an emission made while the recovery handle was alive did not reach the recorder", &format!("emission by the harness after all threads {} were done ({}) {}", progs_tok(progs), pe, ctx));
        }
    }
    for (t, cs) in o.calls.iter().enumerate() {
        for (i, c) in cs.iter().enumerate() {
            match c.res.as_str() {
                "used-misrouted" => out.oracle_fail("a metric handle kept by a caller is not what it was when it was obtained (live stays live, inert stays inert)", &format!("thread {} call {} {:?} {}", t, i, KEPT_ERR.lock().unwrap(), ctx)),
                "dead-handle" => out.oracle_fail("an emission reached the recorder but the handle returned through the wrapper is inert", &format!("thread {} call {} {}", t, i, ctx)),
                "live-handle-after-ignore" => out.oracle_fail("an ignored emission returned a handle that is not inert", &format!("thread {} call {} {}", t, i, ctx)),
                "panic-without-entry" => out.oracle_fail("the wrapper panicked without entering the recorder", &format!("thread {} call {} {}", t, i, ctx)),
                _ => {}
            }
            // the thread holds a strong reference while it is inside: its re-entrant emission cannot find the recorder gone
            if let Call::EmitDeep(d) = progs[t][i].call {
                if c.res == "delivered" && (c.pre.len() != d || c.pre.iter().any(|n| n != "nested-delivered")) {
                    out.oracle_fail(
                        "an emission made from inside the recorder (same wrapper, the thread holds a strong reference) did not reach the recorder",
                        &format!("thread {} call {}: re-entrant {} levels deep, re-entrant calls (innermost first) {:?} {}", t, i, d, c.pre, ctx),
                    );
                }
            }
            if progs[t][i].call == Call::EmitDropInside && c.res == "delivered" && c.pre != ["dropped"] {
                out.oracle_fail("recoverable recorder: deadlock, timeout or panic", &format!("thread {} call {}: the recorder double did not get to drop the handle from inside the call {}", t, i, ctx));
            }
            if progs[t][i].call == Call::EmitNested && (c.res == "delivered" || c.res == "panicked") && c.nested.as_deref() != Some("nested-delivered") {
                out.oracle_fail(
                    "an emission made from inside the recorder (same wrapper, the thread holds a strong reference) did not reach the recorder",
                    &format!("thread {} call {} nested {:?} {}", t, i, c.nested, ctx),
                );
            }
        }
    }
    true
}

fn oracle(out: &mut Out, progs: &[Vec<Step>], o: &Outcome) {
    let ctx = format!("{:?}", o.run.trace);
    if !oracle_common(out, progs, o, &ctx) {
        return;
    }
    // position in the trace of the step that ended the handle's life
    let end_step = o.run.trace.iter().position(|(_, id)| *id == "h.drop");
    // into_inner: the successful try_unwrap is the LAST grant of that point
    let rec_step = if o.recovered { o.run.trace.iter().rposition(|(_, id)| *id == "spin0:recover.try_unwrap") } else { None };
    // walk the trace: per emission the grant index of its (outer) upgrade step and of the grant at which it left
    let n = progs.len();
    let mut next_call = vec![0usize; n];
    let mut nested_pending = vec![0usize; n];
    let mut leaves_left = vec![0usize; n];
    let mut open: Vec<Option<usize>> = vec![None; n]; // index into `spans` of the thread's open outer call
    let mut spans: Vec<(usize, usize, usize, usize)> = vec![]; // (thread, call, upgrade grant, leave grant)
    let mut ups: Vec<(usize, usize, usize)> = vec![]; // (thread, call, upgrade grant) of every emission
    for (gi, (t, id)) in o.run.trace.iter().enumerate() {
        let t = *t;
        if *id == "weak.upgrade" {
            if nested_pending[t] > 0 {
                nested_pending[t] -= 1;
                continue;
            }
            let Some(i) = (next_call[t]..progs[t].len()).find(|i| progs[t][*i].call.is_emission()) else { continue };
            next_call[t] = i + 1;
            let Some(c) = o.calls[t].get(i) else { continue };
            ups.push((t, i, gi));
            if c.res != "ignored" {
                let deep_levels = if let Call::EmitDeep(d) = progs[t][i].call { d } else { 0 };
                nested_pending[t] = if deep_levels > 0 { deep_levels } else if c.nested.is_some() { 1 } else { 0 };
                leaves_left[t] = if deep_levels > 0 { 1 + c.pre.iter().filter(|n| *n == "nested-delivered").count() } else if c.nested.as_deref() == Some("nested-delivered") { 2 } else { 1 };
                open[t] = Some(spans.len());
                spans.push((t, i, gi, usize::MAX));
            }
        } else if *id == "rec.inside" && leaves_left[t] > 0 {
            leaves_left[t] -= 1;
            if leaves_left[t] == 0 {
                if let Some(k) = open[t].take() {
                    spans[k].3 = gi;
                }
            }
        }
    }
    for (t, i, gi) in ups {
        let res = o.calls[t][i].res.as_str();
        let reached = res == "delivered" || res == "panicked";
        let before_end = end_step.map_or(true, |e| gi < e) && rec_step.map_or(true, |e| gi < e);
        if before_end && !reached {
            out.oracle_fail(
                "an emission made while the recovery handle was alive did not reach the recorder",
                &format!("thread {} call {} ({}) trace {:?}", t, i, res, o.run.trace),
            );
        }
        if rec_step.map_or(false, |e| gi > e) && res != "ignored" {
            out.oracle_fail(
                "an emission made after into_inner returned reached the recorder",
                &format!("thread {} call {} trace {:?}", t, i, o.run.trace),
            );
        }
        if end_step.map_or(false, |e| gi > e) {
            // who else is inside the recorder at this upgrade?
            let someone_inside = spans.iter().any(|(u, _, up, leave)| *u != t && *up < gi && *leave > gi);
            if someone_inside && res != "ignored" {
                out.oracle_fail(
                    "an emission made after the handle was dropped reached the recorder (another emission was still inside)",
                    &format!("thread {} call {} trace {:?}", t, i, o.run.trace),
                );
            }
            if !someone_inside && res != "ignored" {
                out.oracle_fail(
                    "handle dropped and nobody inside the recorder any more, yet a later emission reached it",
                    &format!("thread {} call {} trace {:?}", t, i, o.run.trace),
                );
            }
            if someone_inside && !reached {
                // the model decides this one (strong > 0 ⇒ delivered); the correspondence diff reports a divergence
                out.count("post-drop.ignored.while.someone.inside");
            }
        }
    }
}

fn gen_progs(r: &mut Rng) -> Vec<Vec<Step>> {
    let n = r.range(2, 4);
    let ender = if r.chance(1, 12) { usize::MAX } else { r.below(n) };
    let end_call = if r.chance(1, 2) { Call::IntoInner } else { Call::DropHandle };
    // round 6: the end of the handle's life issued by the recorder from inside a forwarded call (the second never
    // returns: that thread's program ends with it; such a round costs the scheduler's 0.5 s grace period, so few)
    let end_call = if r.chance(1, 6) { Call::EmitDropInside } else if r.chance(1, 50) { Call::EmitIntoInside } else { end_call };
    let mut progs = vec![];
    for t in 0..n {
        let mut p = vec![];
        let k = r.range(1, 4);
        let end_at = r.below(k + 1);
        for i in 0..=k {
            if t == ender && i == end_at {
                p.push(st(end_call, r));
                if end_call == Call::EmitIntoInside {
                    break;
                }
            } else if i < k {
                let c = match r.below(18) {
                    0 | 1 => Call::EmitPanic,
                    2 | 3 => Call::EmitNested,
                    4 | 5 | 6 | 7 => Call::EmitKeep,
                    8 | 9 => Call::UseKept,
                    10 => Call::DropKept,
                    16 | 17 => Call::EmitDeep(r.range(2, 4)),
                    _ => Call::Emit,
                };
                p.push(st(c, r));
            }
        }
        progs.push(p);
    }
    progs
}

fn plain(progs: &[&[Call]]) -> Vec<Vec<Step>> {
    let mut r = Rng::new(20);
    progs.iter().map(|p| p.iter().map(|c| st(*c, &mut r)).collect()).collect()
}

fn one(out: &mut Out, progs: &[Vec<Step>], sch: &[usize]) {
    let o = execute(progs, Some(sch));
    let taken: Vec<usize> = o.run.trace.iter().map(|(t, _)| *t).collect();
    out.op(&format!("recover run {} {}", progs_tok(progs), sched::sched_tok(&taken)), &answer(&o));
    // non-trivial: the handle's end happened while an emission was between its upgrade and its return
    let ins = o.run.trace.iter().enumerate().filter(|(_, (_, id))| *id == "rec.inside").map(|x| x.0).collect::<Vec<_>>();
    let ups = o.run.trace.iter().enumerate().filter(|(_, (_, id))| *id == "weak.upgrade").map(|x| x.0).collect::<Vec<_>>();
    let end = o.run.trace.iter().position(|(_, id)| *id == "h.drop" || *id == "spin0:recover.try_unwrap");
    if let Some(e) = end {
        if ups.iter().any(|u| *u < e) && ins.iter().any(|i| *i > e) {
            out.nontrivial();
            out.count("end.raced.with.emission");
        }
    }
    out.count(&format!("wrapped.type.size.class={}", o.size_class));
    if o.kept_at_end > 0 && o.handle_ended {
        out.count("handles.kept.across.the.end");
        out.nontrivial();
    }
    for (t, cs) in o.calls.iter().enumerate() {
        for (i, c) in cs.iter().enumerate() {
            if progs[t][i].call == Call::UseKept {
                // written through kept handles after the recovery handle's life ended
                let after_end = o.handle_ended && cs[..i].iter().any(|p| p.res == "ignored");
                out.count(&format!("kept.use.{}{}", if c.res.starts_with("used-0-0") { "none-kept" } else if c.res.starts_with("used-0-") { "inert-only" } else { "some-live" }, if after_end { ".after-own-ignored-emission" } else { "" }));
            }
            if progs[t][i].call.is_emission() {
                out.count(&format!("emission.{}.{}", prog_tok(&progs[t][i..=i]), c.res));
                out.count(&format!("method.{}", METHODS[progs[t][i].em.as_ref().unwrap().method]));
                // a thread that survived a panic of the recorder emits again
                if i > 0 && cs[..i].iter().any(|p| p.res == "panicked") {
                    out.count(&format!("after.own.panic.{}", c.res));
                }
            }
        }
    }
    oracle(out, progs, &o);
}

/// Free-running round: the same thread programs on OS threads without the scheduler (real preemption, real
/// `Arc` traffic). No schedule is known, so the model is asked for what EVERY complete schedule agrees on
/// (`recover free`), and the timing-independent oracles apply; emissions are ordered against the ender by a
/// global SeqCst sequence number: finished before the ender began ⇒ delivered, begun after `into_inner`
/// returned ⇒ ignored.
fn free_round(out: &mut Out, progs: &[Vec<Step>]) {
    let o = execute(progs, None);
    let ctx = format!("free-running round {} results {:?}", progs_tok(progs), o.results());
    let all_done = !o.unfinished && o.calls.iter().zip(progs).all(|(c, p)| c.len() == p.len());
    out.op(
        &format!("recover free {}", progs_tok(progs)),
        &format!("done={} finalised={} recovered={} late={} busy={}", all_done, o.finalised_by_library, o.recovered, o.late, o.busy_at_recovery),
    );
    if !oracle_common(out, progs, &o, &ctx) {
        return;
    }
    let mut ender: Option<(Call, u64, u64)> = None;
    for (t, cs) in o.calls.iter().enumerate() {
        for (i, c) in cs.iter().enumerate() {
            if progs[t][i].call.is_end() {
                ender = Some((progs[t][i].call, c.t_start, c.t_end));
            }
        }
    }
    let mut raced = 0;
    for (t, cs) in o.calls.iter().enumerate() {
        for (i, c) in cs.iter().enumerate() {
            if !progs[t][i].call.is_emission() {
                continue;
            }
            let reached = c.res == "delivered" || c.res == "panicked";
            let before = ender.map_or(true, |(_, s, _)| c.t_end < s);
            let after = ender.map_or(false, |(_, _, e)| c.t_start > e);
            if before && !reached {
                out.oracle_fail(
                    "an emission made while the recovery handle was alive did not reach the recorder",
                    &format!("thread {} call {} ({}) {}", t, i, c.res, ctx),
                );
            }
            if after && o.recovered && c.res != "ignored" {
                out.oracle_fail("an emission made after into_inner returned reached the recorder", &format!("thread {} call {} {}", t, i, ctx));
            }
            if !before && !after {
                raced += 1;
            }
        }
    }
    if raced > 0 {
        out.nontrivial();
        out.count("free.end.overlapped.emissions");
    }
    out.count_n("free.emissions.overlapping.the.end", raced);
}

/// Stress round ("heavy load"): `k` threads emit in a tight loop through the wrapper, for as long as it takes,
/// while another thread calls `into_inner` (or drops the handle). However the attempts of `into_inner`
/// interleave with the upgrades, it must come back with the original recorder, nobody inside, never finalised
/// by the library; nothing may enter afterwards. No op line (the number of emissions is not an input); oracles only.
fn stress_round(out: &mut Out, r: &mut Rng, recover: bool) {
    match r.below(4) {
        0 => stress_round_p::<()>(out, r, recover),
        1 => stress_round_p::<[u64; 9]>(out, r, recover),
        2 => stress_round_p::<[u64; 33]>(out, r, recover),
        _ => stress_round_p::<[u64; 512]>(out, r, recover),
    }
}

fn stress_round_p<P: Pad>(out: &mut Out, r: &mut Rng, recover: bool) {
    let k = r.range(2, 6);
    let sh = Shared::new(1);
    let (wrapped, handle) = RecoverableRecorder::new(Rec::<P> { sh: sh.clone(), pad: P::make() }).verif_build();
    let wrapped: DynRec = Arc::new(wrapped);
    // all threads are released together: the first attempts of into_inner fall among the first upgrades (count
    // leaving 1), later ones into the steady state; the ender's delay scans the alignment
    let started = Arc::new(Barrier::new(k + 1));
    let stop = Arc::new(AtomicBool::new(false));
    let ems: Vec<_> = (0..k)
        .map(|t| {
            let (w, sh, started, stop) = (wrapped.clone(), sh.clone(), started.clone(), stop.clone());
            let last = gen_em(r);
            std::thread::spawn(move || {
                TIDX.with(|x| x.set(t + 1));
                LIGHT.with(|l| l.set(true));
                let key = Key::from_name("s");
                let mut n = 0u64;
                started.wait();
                while !stop.load(Ordering::Relaxed) && n < 5_000_000 {
                    match n % 3 {
                        0 => w.describe_counter(KeyName::from_const_str("s"), None, SharedString::const_str("")),
                        1 => {
                            let _ = w.register_gauge(&key, &METAS[0]);
                        }
                        _ => w.describe_histogram(KeyName::from_const_str("s"), None, SharedString::const_str("")),
                    }
                    n += 1;
                }
                LIGHT.with(|l| l.set(false));
                // left the loop because `stop` was raised (and not because of the cap): then the next emission
                // begins after the ender is back
                let stopped = stop.load(Ordering::SeqCst);
                let after = do_emit(&*w, &last, &sh, t + 1, 0, None);
                (n, if stopped { after } else { "ignored" })
            })
        })
        .collect();
    let sh2 = sh.clone();
    let pre = if r.chance(1, 4) { r.below(20000) } else { r.below(600) };
    let started2 = started.clone();
    let ender = std::thread::spawn(move || {
        started2.wait();
        for _ in 0..pre {
            std::hint::spin_loop();
        }
        if recover {
            match std::panic::catch_unwind(std::panic::AssertUnwindSafe(move || handle.into_inner())) {
                Ok(rec) => {
                    let inside = sh2.inside_now();
                    let same = Arc::ptr_eq(&rec.sh, &sh2) && rec.pad.intact();
                    std::mem::forget(rec);
                    Some((inside, same))
                }
                Err(_) => None,
            }
        } else {
            drop(handle);
            Some((0, true))
        }
    });
    // heavy load: into_inner "may block for an indefinite amount of time" in theory; with 2-4 emitters it gets its
    // turn within microseconds. 20 s watchdog, then the emitters are stopped (which lets a correct one finish).
    let in_time = wait_until(|| ender.is_finished(), Duration::from_secs(20));
    stop.store(true, Ordering::SeqCst);
    let fin = wait_until(|| ender.is_finished() && ems.iter().all(|e| e.is_finished()), Duration::from_secs(20));
    if !fin {
        out.oracle_fail("recoverable recorder: deadlock, timeout or panic", "stress round did not finish");
        return;
    }
    let e = ender.join();
    let mut total = 0;
    let mut afters = vec![];
    for h in ems {
        match h.join() {
            Ok((n, a)) => {
                total += n;
                afters.push(a);
            }
            Err(_) => out.oracle_fail("recoverable recorder: deadlock, timeout or panic", "stress round: an emitting thread panicked"),
        }
    }
    let ctx = format!("stress round: {} threads emitting in a tight loop ({} emissions), {} on another thread", k, total, if recover { "into_inner" } else { "drop(handle)" });
    out.count_n("stress.emissions", total);
    if !in_time {
        out.count("stress.ender.needed.the.emitters.stopped");
    }
    match e {
        Err(_) | Ok(None) => out.oracle_fail("into_inner panicked instead of waiting for the emissions in flight and returning the recorder", &ctx),
        Ok(Some((inside, same))) => {
            if inside > 0 {
                out.oracle_fail("into_inner returned while an emission was executing inside the recorder", &ctx);
            }
            if !same {
                out.oracle_fail("into_inner returned a recorder that is not the original one", &ctx);
            }
        }
    }
    let fin_n = sh.finalised.load(Ordering::SeqCst);
    if fin_n != if recover { 0 } else { 1 } {
        out.oracle_fail("recorder not dropped exactly once after the handle was dropped / dropped although recovered", &format!("finalised {} {}", fin_n, ctx));
    }
    if sh.entered_after_final.load(Ordering::SeqCst) {
        out.oracle_fail("a call entered the recorder after its finalisation began", &ctx);
    }
    if sh.final_while_inside.load(Ordering::SeqCst) {
        out.oracle_fail("the recorder was finalised while a call was inside it", &ctx);
    }
    // each emitter's last emission began after the ender was back (`stop` is raised after it finished). After
    // into_inner the count is zero for good: ignored. After a plain drop another emitter may still be inside its
    // last loop iteration (K-C20-late-delivery), so there only an emission made after ALL emitters are done counts.
    if recover && in_time {
        if let Some(a) = afters.iter().find(|a| **a != "ignored") {
            out.oracle_fail("an emission made after into_inner returned reached the recorder", &format!("{} {}", a, ctx));
        }
    }
    TIDX.with(|x| x.set(0));
    let last = do_emit(&*wrapped, &gen_em(r), &sh, 0, 0, None);
    if last != "ignored" {
        out.oracle_fail(
            if recover { "an emission made after into_inner returned reached the recorder" } else { "handle dropped and nobody inside the recorder any more, yet a later emission reached it" },
            &format!("{} {}", last, ctx),
        );
    }
    out.nontrivial();
}

fn gen_free(r: &mut Rng) -> Vec<Vec<Step>> {
    let n = r.range(3, 5);
    let end_call = if r.chance(3, 4) { Call::IntoInner } else if r.chance(1, 2) { Call::DropHandle } else { Call::EmitDropInside };
    let mut progs = vec![];
    for t in 0..n {
        let mut p = vec![];
        if t == 0 {
            for _ in 0..r.below(4) {
                p.push(st(if r.chance(1, 3) { Call::EmitKeep } else { Call::Emit }, r));
            }
            p.push(st(end_call, r));
            for _ in 0..r.below(4) {
                p.push(st(*r.pick(&[Call::Emit, Call::Emit, Call::EmitKeep, Call::UseKept, Call::DropKept]), r));
            }
        } else {
            for _ in 0..r.range(8, 40) {
                let c = match r.below(21) {
                    0 => Call::EmitPanic,
                    1 => Call::EmitNested,
                    20 => Call::EmitDeep(r.range(2, 5)),
                    2 | 3 | 4 => Call::EmitKeep,
                    5 | 6 => Call::UseKept,
                    7 => Call::DropKept,
                    _ => Call::Emit,
                };
                p.push(st(c, r));
            }
        }
        progs.push(p);
    }
    progs
}

// ---------------------------------------------------------------------------------------------------------
// long-held emission against a spinning into_inner (no scheduler): `into_inner` must keep waiting however
// many attempts it takes. The hook counts the ender's passes through the loop head and lets the emission
// leave only after `target` of them, so the number of failed attempts is chosen by the harness, not by timing.

static HOLD_SPINS: AtomicU64 = AtomicU64::new(0);
static HOLD_TARGET: AtomicU64 = AtomicU64::new(0);
static HOLD_GO: AtomicBool = AtomicBool::new(false);

fn hold_hook(id: &'static str) {
    if id == "spin0:recover.try_unwrap" && IS_ENDER.with(|e| e.get()) {
        let n = HOLD_SPINS.fetch_add(1, Ordering::SeqCst) + 1;
        if n >= HOLD_TARGET.load(Ordering::SeqCst) {
            HOLD_GO.store(true, Ordering::SeqCst);
        }
    }
}

fn wait_until(f: impl Fn() -> bool, limit: Duration) -> bool {
    let t0 = Instant::now();
    while !f() {
        if t0.elapsed() > limit {
            return false;
        }
        std::thread::sleep(Duration::from_micros(100));
    }
    true
}

fn hold_round(out: &mut Out, r: &mut Rng, target: u64) {
    let sh = Shared::new(1);
    let (wrapped, handle) = RecoverableRecorder::new(Rec { sh: sh.clone(), pad: () }).verif_build();
    let wrapped: DynRec = Arc::new(wrapped);
    HOLD_SPINS.store(0, Ordering::SeqCst);
    HOLD_TARGET.store(target, Ordering::SeqCst);
    HOLD_GO.store(false, Ordering::SeqCst);
    let em = gen_em(r);
    // the harness thread (cells[0]) keeps one handle of each kind for the whole round: across the held emission,
    // the failed attempts of into_inner and its return
    let store: KeptStore = Arc::new(Mutex::new(vec![]));
    TIDX.with(|x| x.set(0));
    for m in [0usize, 4, 2] {
        let mut ek = gen_em(r);
        ek.method = m;
        if do_emit_keep(&*wrapped, &ek, &sh, 0, &store) != "delivered" {
            out.oracle_fail("an emission made while the recovery handle was alive did not reach the recorder", "long-hold round: registration whose handle is kept");
        }
    }
    let (w2, sh2) = (wrapped.clone(), sh.clone());
    let emitter = std::thread::spawn(move || {
        TIDX.with(|x| x.set(1));
        do_emit(&*w2, &em, &sh2, 1, 3, None)
    });
    if !wait_until(|| sh.hold_entered.load(Ordering::SeqCst), Duration::from_secs(10)) {
        out.oracle_fail("an emission made while the recovery handle was alive did not reach the recorder", "long-hold round: the emission never entered");
        HOLD_GO.store(true, Ordering::SeqCst);
        sh.hold_release.store(true, Ordering::SeqCst);
        let _ = emitter.join();
        return;
    }
    metrics::verif::set_hook(Some(hold_hook));
    let sh3 = sh.clone();
    let ender = std::thread::spawn(move || {
        IS_ENDER.with(|e| e.set(true));
        let rec = handle.into_inner();
        let go = HOLD_GO.load(Ordering::SeqCst);
        let inside = sh3.inside.load(Ordering::SeqCst);
        let same = Arc::ptr_eq(&rec.sh, &sh3);
        std::mem::forget(rec);
        (go, inside, same)
    });
    // forwards the harness-chosen release to the recorder double; backstop: an into_inner that sleeps between
    // attempts would need ages for `target` passes, so after 5 s the emission is let go anyway (the oracle below
    // is about ORDER — returned before the release or not — never about time)
    let t0 = Instant::now();
    while !HOLD_GO.load(Ordering::SeqCst) && !ender.is_finished() && t0.elapsed() < Duration::from_secs(5) {
        std::thread::sleep(Duration::from_micros(50));
    }
    let returned_early = ender.is_finished() && !HOLD_GO.load(Ordering::SeqCst);
    HOLD_GO.store(true, Ordering::SeqCst);
    sh.hold_release.store(true, Ordering::SeqCst);
    let fin = wait_until(|| ender.is_finished() && emitter.is_finished(), Duration::from_secs(20));
    metrics::verif::set_hook(None);
    let spins = HOLD_SPINS.load(Ordering::SeqCst);
    out.count_n("hold.into_inner.failed.attempts.waited.out", spins);
    if !fin {
        if emitter.is_finished() && sh.inside_now() == 0 {
            // 20 s with nothing executing in the recorder: the next attempt of into_inner must have succeeded
            out.oracle_fail(
                "into_inner did not return although no emission was executing inside the recorder",
                &format!("long-hold round: the held emission left, 3 metric handles obtained through the wrapper are still kept by the harness thread; into_inner still spinning 20 s later after {} attempts", spins),
            );
        } else {
            out.oracle_fail("recoverable recorder: deadlock, timeout or panic", &format!("long-hold round: into_inner or the emission did not finish; attempts {}", spins));
        }
        // let a spinning into_inner end: release whatever the kept handles hold
        store.lock().unwrap().clear();
        wait_until(|| ender.is_finished(), Duration::from_secs(5));
        return;
    }
    let em_res = emitter.join().unwrap_or("emitter-panicked");
    match ender.join() {
        Err(_) => out.oracle_fail("into_inner panicked instead of waiting for the emissions in flight and returning the recorder", &format!("long-hold round after {} attempts", spins)),
        Ok((go, inside, same)) => {
            if returned_early || !go || inside > 0 {
                out.oracle_fail(
                    "into_inner returned while an emission was executing inside the recorder",
                    &format!("long-hold round: one emission held inside; into_inner gave up after {} attempts (inside={}, released={})", spins, inside, go),
                );
            }
            if !same {
                out.oracle_fail("into_inner returned a recorder that is not the original one", "long-hold round");
            }
        }
    }
    if em_res != "delivered" {
        out.oracle_fail("an emission made while the recovery handle was alive did not reach the recorder", &format!("long-hold round: held emission {}", em_res));
    }
    if sh.finalised.load(Ordering::SeqCst) != 0 || sh.final_while_inside.load(Ordering::SeqCst) {
        out.oracle_fail("recorder not dropped exactly once after the handle was dropped / dropped although recovered", "long-hold round: finalised by the library although recovered");
    }
    TIDX.with(|x| x.set(0));
    let after = do_emit(&*wrapped, &gen_em(r), &sh, 0, 0, None);
    if after != "ignored" {
        out.oracle_fail("an emission made after into_inner returned reached the recorder", &format!("long-hold round: {} (3 kept handles outstanding)", after));
    }
    match use_kept(&store, &sh, 0, 11) {
        Ok((3, 0)) => {}
        x => out.oracle_fail("a metric handle kept by a caller is not what it was when it was obtained (live stays live, inert stays inert)", &format!("long-hold round, after into_inner returned: {:?}", x)),
    }
    let mut ek = gen_em(r);
    ek.method = 0;
    let again = do_emit_keep(&*wrapped, &ek, &sh, 0, &store);
    if again != "ignored" || use_kept(&store, &sh, 0, 5) != Ok((3, 1)) {
        out.oracle_fail("an emission made after into_inner returned reached the recorder", &format!("long-hold round: registration whose handle is kept: {}", again));
    }
    let before = sh.finalised.load(Ordering::SeqCst);
    store.lock().unwrap().clear();
    if sh.finalised.load(Ordering::SeqCst) != before {
        out.oracle_fail("the recorder was finalised only when a metric handle kept by a caller was dropped (a kept handle kept the recorder alive)", "long-hold round");
    }
    out.nontrivial();
}

// ---------------------------------------------------------------------------------------------------------
// the real `install` (the process-wide recorder cell can be taken once per process: one successful install,
// then failing ones), driven through the `metrics` macros

/// forwards to whatever the process-wide recorder is (what the macros do)
struct ViaGlobal;
impl Recorder for ViaGlobal {
    fn describe_counter(&self, k: KeyName, u: Option<Unit>, d: SharedString) {
        metrics::with_recorder(|r| r.describe_counter(k, u, d))
    }
    fn describe_gauge(&self, k: KeyName, u: Option<Unit>, d: SharedString) {
        metrics::with_recorder(|r| r.describe_gauge(k, u, d))
    }
    fn describe_histogram(&self, k: KeyName, u: Option<Unit>, d: SharedString) {
        metrics::with_recorder(|r| r.describe_histogram(k, u, d))
    }
    fn register_counter(&self, k: &Key, m: &Metadata<'_>) -> Counter {
        metrics::with_recorder(|r| r.register_counter(k, m))
    }
    fn register_gauge(&self, k: &Key, m: &Metadata<'_>) -> Gauge {
        metrics::with_recorder(|r| r.register_gauge(k, m))
    }
    fn register_histogram(&self, k: &Key, m: &Metadata<'_>) -> Histogram {
        metrics::with_recorder(|r| r.register_histogram(k, m))
    }
}

/// three emissions through the macros on the calling thread; returns what went wrong (empty = as expected)
fn macro_probe(sh: &Arc<Shared>, t: usize, want_reached: bool) -> Vec<String> {
    let mut bad = vec![];
    TIDX.with(|x| x.set(t));
    let mp = module_path!();
    let snap = || [0usize, 1, 2].map(|k| sh.cells[t][k].0.load(Ordering::SeqCst));
    let mut check = |what: &str, want: String, delta: [u64; 3], b: [u64; 3]| {
        let got = ARRIVED.with(|a| {
            let mut a = a.borrow_mut();
            let x = a.first().cloned();
            a.clear();
            x
        });
        let a = snap();
        let d = [a[0].wrapping_sub(b[0]), a[1].wrapping_sub(b[1]), a[2].wrapping_sub(b[2])];
        if want_reached {
            if got.as_deref() != Some(want.as_str()) {
                bad.push(format!("{}: sent [{}] arrived [{:?}]", what, want, got));
            } else if d != delta {
                bad.push(format!("{}: handle obtained through the macro is not the recorder's (cells moved {:?}, want {:?})", what, d, delta));
            }
        } else if got.is_some() || d != [0, 0, 0] {
            bad.push(format!("{}: reached the recorder / live handle (arrived {:?}, cells moved {:?})", what, got, d));
        }
    };
    ARRIVED.with(|a| a.borrow_mut().clear());
    let b = snap();
    metrics::counter!("inst.c", "k" => "v", "l" => "").increment(5);
    check("counter!", format!("register_counter inst.c{{k=v,l=}} target={} level={:?} mp={:?}", mp, Level::INFO, Some(mp)), [5, 0, 0], b);
    let b = snap();
    metrics::describe_gauge!("inst.g", Unit::Bytes, "some gauge");
    check("describe_gauge!", format!("describe_gauge inst.g {:?} some gauge", Some(Unit::Bytes)), [0, 0, 0], b);
    let b = snap();
    metrics::histogram!(target: "tg", level: Level::DEBUG, "inst.h").record(2.0);
    check("histogram!", format!("register_histogram inst.h{{}} target=tg level={:?} mp={:?}", Level::DEBUG, Some(mp)), [0, 0, 2], b);
    let b = snap();
    metrics::gauge!(level: Level::WARN, "inst.gg", "a" => "b").increment(3.0);
    check("gauge!", format!("register_gauge inst.gg{{a=b}} target={} level={:?} mp={:?}", mp, Level::WARN, Some(mp)), [0, 3, 0], b);
    bad
}

fn install_scenario(out: &mut Out, r: &mut Rng) {
    out.case("install (real global recorder, macros)");
    let sh1 = Shared::new(1);
    let first = RecoverableRecorder::new(Rec { sh: sh1.clone(), pad: () }).install();
    let h1 = match first {
        Ok(h) => {
            out.op("recover install ~ 1", "cell=1 installed");
            h
        }
        Err(_) => {
            out.op("recover install ~ 1", "cell=? install failed on an empty process-wide cell");
            out.oracle_fail("install failed although no global recorder existed", "first install of the process");
            return;
        }
    };
    for b in macro_probe(&sh1, 0, true) {
        out.oracle_fail("an emission made while the recovery handle was alive did not reach the recorder", &format!("after install, through the metrics macros: {}", b));
    }
    // failing installs: two one after the other, then three at once while another thread keeps emitting
    let stop = Arc::new(AtomicBool::new(false));
    let attempt = |id: usize| -> std::thread::JoinHandle<(Arc<Shared>, Result<(), Rec>)> {
        std::thread::spawn(move || {
            let sh = Shared::new(id);
            let r = RecoverableRecorder::new(Rec { sh: sh.clone(), pad: () }).install();
            match r {
                Ok(h) => {
                    std::mem::forget(h);
                    (sh, Ok(()))
                }
                Err(e) => (sh, Err(e.into_inner())),
            }
        })
    };
    let mut judge = |out: &mut Out, id: usize, h: std::thread::JoinHandle<(Arc<Shared>, Result<(), Rec>)>| {
        // the error arm of install calls into_inner on a pair nobody else can reach: it returns at once;
        // 20 s watchdog against a variant that waits for something that never comes
        if !wait_until(|| h.is_finished(), Duration::from_secs(20)) {
            out.op(&format!("recover install 1 {}", id), "install did not return");
            out.oracle_fail("failed install did not hand the recorder back (install never returned)", &format!("recorder {}", id));
            return;
        }
        match h.join() {
            Err(_) => {
                out.op(&format!("recover install 1 {}", id), "install panicked");
                out.oracle_fail("failed install did not hand the recorder back (install panicked)", &format!("recorder {}", id));
            }
            Ok((_, Ok(()))) => {
                out.op(&format!("recover install 1 {}", id), "cell=? installed");
                out.oracle_fail("a second install succeeded although a global recorder already existed", &format!("recorder {}", id));
            }
            Ok((sh, Err(rec))) => {
                let fin = sh.finalised.load(Ordering::SeqCst);
                let same = Arc::ptr_eq(&rec.sh, &sh);
                out.op(
                    &format!("recover install 1 {}", id),
                    &format!("cell=1 handed-back id={} finalised={} recovered={}", rec.sh.id, fin, same),
                );
                if !same || fin != 0 || sh.inside.load(Ordering::SeqCst) != 0 {
                    out.oracle_fail("failed install did not hand the original recorder back intact", &format!("recorder {}: same={} finalised={}", id, same, fin));
                }
                drop(rec);
                if sh.finalised.load(Ordering::SeqCst) != 1 {
                    out.oracle_fail("recorder handed back by a failed install is not dropped exactly once by its owner", &format!("recorder {}: finalised {}", id, sh.finalised.load(Ordering::SeqCst)));
                }
            }
        }
    };
    for id in [2usize, 3] {
        let h = attempt(id);
        judge(out, id, h);
    }
    let (sh1b, stop2) = (sh1.clone(), stop.clone());
    let emitter = std::thread::spawn(move || {
        let mut bad = vec![];
        let mut n = 0u64;
        while !stop2.load(Ordering::SeqCst) && n < 200_000 {
            bad.extend(macro_probe(&sh1b, 1, true));
            n += 1;
        }
        (bad, n)
    });
    let hs: Vec<_> = [4usize, 5, 6].into_iter().map(|id| (id, attempt(id))).collect();
    for (id, h) in hs {
        judge(out, id, h);
    }
    stop.store(true, Ordering::SeqCst);
    match emitter.join() {
        Ok((bad, n)) => {
            out.count_n("install.macro.emissions.during.failing.installs", n * 4);
            if let Some(b) = bad.first() {
                out.oracle_fail("an emission made while the recovery handle was alive did not reach the recorder", &format!("through the macros while other installs were failing: {}", b));
            }
        }
        Err(_) => out.oracle_fail("recoverable recorder: deadlock, timeout or panic", "macro emitter panicked"),
    }
    // the failing installs left the installed pair alone
    for b in macro_probe(&sh1, 0, true) {
        out.oracle_fail("an emission made while the recovery handle was alive did not reach the recorder", &format!("after failed installs of other recorders: {}", b));
    }
    // the installed recorder panics inside a forwarded call; the thread survives and emits again
    TIDX.with(|x| x.set(0));
    let g: DynRec = Arc::new(ViaGlobal);
    let p = do_emit(&*g, &gen_em(r), &sh1, 0, 1, None);
    let a = do_emit(&*g, &gen_em(r), &sh1, 0, 0, None);
    if p != "panicked" || a != "delivered" {
        out.oracle_fail("an emission made while the recovery handle was alive did not reach the recorder", &format!("global wrapper: recorder panicked in a forwarded call ({}), next emission of the same thread: {}", p, a));
    }
    // the installed recorder emits through the global wrapper from inside a forwarded call
    NEST_RESULT.with(|x| *x.borrow_mut() = None);
    let o = do_emit(&*g, &gen_em(r), &sh1, 0, 2, Some((g.clone(), gen_em(r), sh1.clone())));
    let n = NEST_RESULT.with(|x| x.borrow_mut().take());
    if o != "delivered" || n != Some("delivered") {
        out.oracle_fail(
            "an emission made from inside the recorder (same wrapper, the thread holds a strong reference) did not reach the recorder",
            &format!("global wrapper: outer {} nested {:?}", o, n),
        );
    }
    // a SECOND recoverable pair (local) whose recorder emits to the installed one from inside its forwarded call
    let sh_b = Shared::new(50);
    let (wb, hb) = RecoverableRecorder::new(Rec { sh: sh_b.clone(), pad: () }).verif_build();
    NEST_RESULT.with(|x| *x.borrow_mut() = None);
    let o = do_emit(&wb, &gen_em(r), &sh_b, 0, 2, Some((g.clone(), gen_em(r), sh1.clone())));
    let n = NEST_RESULT.with(|x| x.borrow_mut().take());
    if o != "delivered" || n != Some("delivered") {
        out.oracle_fail(
            "an emission made while the recovery handle was alive did not reach the recorder",
            &format!("issued from inside a forwarded call of ANOTHER recoverable pair on the same thread: outer {} inner (to the installed recorder) {:?}", o, n),
        );
    }
    let rb = hb.into_inner();
    if !Arc::ptr_eq(&rb.sh, &sh_b) || sh_b.finalised.load(Ordering::SeqCst) != 0 {
        out.oracle_fail("into_inner returned a recorder that is not the original one", "second pair");
    }
    drop(rb);
    drop(wb);
    // handles obtained through the macros and KEPT (`let c = counter!(..)`) by this thread and by a thread that has
    // long finished emitting, across the recovery of the installed recorder
    TIDX.with(|x| x.set(0));
    ARRIVED.with(|a| a.borrow_mut().clear());
    let kept_c = metrics::counter!("inst.kept.c", "who" => "main");
    let kept_g = metrics::gauge!("inst.kept.g");
    let kept_h = metrics::histogram!("inst.kept.h");
    ARRIVED.with(|a| a.borrow_mut().clear());
    let kept_other: Counter = std::thread::spawn(|| {
        TIDX.with(|x| x.set(5));
        let c = metrics::counter!("inst.kept.other");
        c.increment(1);
        c
    })
    .join()
    .unwrap();
    let kept_check = |when: &str, out: &mut Out| {
        let snap = || ([0usize, 1, 2].map(|k| sh1.cells[0][k].0.load(Ordering::SeqCst)), sh1.cells[5][0].0.load(Ordering::SeqCst));
        let b = snap();
        kept_c.increment(2);
        kept_g.increment(3.0);
        kept_h.record(4.0);
        kept_other.increment(6);
        let a = snap();
        let d = ([a.0[0] - b.0[0], a.0[1] - b.0[1], a.0[2] - b.0[2]], a.1 - b.1);
        if d != ([2, 3, 4], 6) {
            out.oracle_fail("a metric handle kept by a caller is not what it was when it was obtained (live stays live, inert stays inert)", &format!("handles obtained through the macros from the installed wrapper, {}: cells moved {:?}, want ([2, 3, 4], 6)", when, d));
        }
    };
    kept_check("while the recovery handle is alive", out);
    // recovery of the installed recorder while threads emit through the macros
    let stop = Arc::new(AtomicBool::new(false));
    let ems: Vec<_> = (1..4usize)
        .map(|t| {
            let (sh, stop) = (sh1.clone(), stop.clone());
            std::thread::spawn(move || {
                TIDX.with(|x| x.set(t));
                let mut n = 0u64;
                while !stop.load(Ordering::SeqCst) && n < 100_000 {
                    metrics::counter!("inst.bg").increment(1);
                    metrics::describe_histogram!("inst.bg.h", "d");
                    ARRIVED.with(|a| a.borrow_mut().clear());
                    n += 1;
                }
            })
        })
        .collect();
    std::thread::sleep(Duration::from_millis(2));
    let sh1c = sh1.clone();
    let rec_t = std::thread::spawn(move || {
        let rec = h1.into_inner();
        let inside = sh1c.inside.load(Ordering::SeqCst);
        (rec, inside)
    });
    // under load into_inner "may block for an indefinite amount of time": 10 s with the emitters running, then
    // they are stopped and nothing is executing in the recorder any more — the next attempt succeeds; 10 s more is
    // a margin of six orders of magnitude over one `Arc::try_unwrap`
    let in_time = wait_until(|| rec_t.is_finished(), Duration::from_secs(10));
    stop.store(true, Ordering::SeqCst);
    for e in ems {
        let _ = e.join();
    }
    if !in_time {
        out.count("install.into_inner.needed.the.emitters.stopped");
    }
    if !wait_until(|| rec_t.is_finished(), Duration::from_secs(10)) {
        out.oracle_fail(
            "into_inner did not return although no emission was executing inside the recorder",
            &format!("installed recorder: all emitting threads have ended (calls inside the recorder: {}), four metric handles obtained through the macros are still kept (let c = counter!(..)); into_inner still spinning 10 s later (strong reference leaked?)", sh1.inside_now()),
        );
        // kept handles go out of scope here; whatever they held is released and a spinning into_inner can end
        return;
    }
    match rec_t.join() {
        Err(_) => out.oracle_fail("into_inner panicked instead of waiting for the emissions in flight and returning the recorder", "installed recorder, macros emitting on 3 threads"),
        Ok((rec, inside)) => {
            if inside > 0 {
                out.oracle_fail("into_inner returned while an emission was executing inside the recorder", "installed recorder, macros emitting on 3 threads");
            }
            if !Arc::ptr_eq(&rec.sh, &sh1) || sh1.finalised.load(Ordering::SeqCst) != 0 {
                out.oracle_fail("into_inner returned a recorder that is not the original one", "installed recorder");
            }
            for b in macro_probe(&sh1, 0, false) {
                out.oracle_fail("an emission made after into_inner returned reached the recorder", &format!("through the macros: {}", b));
            }
            // the handles kept from before the recovery are still the recorder's; a new one is inert
            kept_check("after into_inner returned", out);
            let b = sh1.cell_sum();
            let late_c = metrics::counter!("inst.kept.c", "who" => "main");
            late_c.increment(9);
            if sh1.cell_sum() != b || ARRIVED.with(|a| !a.borrow().is_empty()) {
                out.oracle_fail("an emission made after into_inner returned reached the recorder", "counter!(..) kept in a variable after the recovery: live handle");
            }
            ARRIVED.with(|a| a.borrow_mut().clear());
            drop(rec);
            if sh1.finalised.load(Ordering::SeqCst) != 1 || sh1.entered_after_final.load(Ordering::SeqCst) || sh1.final_while_inside.load(Ordering::SeqCst) {
                out.oracle_fail("a call entered the recorder after its finalisation began", "installed recorder after recovery and drop by its owner");
            }
        }
    }
    out.nontrivial();
}

pub fn run(cfg: &Cfg, out: &mut Out) {
    let root = Rng::new(cfg.seed);
    use Call::*;
    install_scenario(out, &mut root.fork(1_000_003));
    let corpus: Vec<(Vec<Vec<Step>>, Vec<usize>)> = vec![
        // K-C20-late-delivery: handle dropped while an emission is inside, a later emission is still delivered
        (plain(&[&[Emit], &[DropHandle], &[Emit]]), vec![0, 1, 2, 0, 1, 2, 2, 0]),
        (plain(&[&[Emit, Emit], &[IntoInner], &[Emit]]), vec![0, 1, 2, 0, 1, 1, 0, 1, 2, 0, 0]),
        (plain(&[&[Emit], &[IntoInner]]), vec![0, 1, 0, 1, 1, 0, 1]),
        // the recorder panics inside a forwarded call; the thread survives and emits again (handle alive)
        (plain(&[&[EmitPanic, Emit, EmitPanic, EmitNested], &[Emit]]), vec![0, 0, 0, 1, 0, 0, 1, 1, 0, 0, 0, 0, 0, 0, 0]),
        // re-entrant emission: alone; racing into_inner; after the handle was dropped while the outer call is inside
        (plain(&[&[EmitNested, Emit]]), vec![0; 10]),
        (plain(&[&[EmitNested], &[IntoInner], &[Emit]]), vec![0, 1, 2, 0, 1, 0, 1, 2, 0, 1, 0, 1, 1, 2, 2]),
        (plain(&[&[EmitNested], &[DropHandle]]), vec![0, 1, 0, 1, 0, 0, 0, 0]),
        (plain(&[&[EmitPanic], &[DropHandle], &[EmitNested]]), vec![0, 1, 2, 0, 1, 2, 2, 2, 0, 2]),
        // handles KEPT across the end of the recorder's life: into_inner with a kept handle outstanding, then the
        // keeper writes through it, registers again (inert), drops them; the same with a handle drop; a handle kept
        // while another thread is inside when the handle is dropped
        (plain(&[&[EmitKeep, UseKept, EmitKeep, UseKept, DropKept, Emit], &[IntoInner]]), vec![0, 0, 0, 1, 1, 0, 0, 0, 0, 0]),
        (plain(&[&[EmitKeep], &[DropHandle], &[EmitKeep, UseKept]]), vec![0, 0, 0, 1, 1, 2, 2, 2]),
        (plain(&[&[EmitKeep, Emit, UseKept], &[IntoInner, Emit], &[EmitKeep, DropKept, Emit]]), vec![0, 1, 2, 0, 2, 1, 1, 2, 0, 1, 2, 2, 0, 0, 1, 1, 2]),
        (plain(&[&[Emit, UseKept], &[EmitKeep, DropHandle, Emit, UseKept, DropKept]]), vec![0, 1, 0, 1, 1, 1, 0, 1, 1, 0, 1, 1]),
        // round 6 — re-entrancy three levels deep racing into_inner (the thread holds four references)
        (plain(&[&[EmitDeep(3)], &[IntoInner]]), vec![0, 0, 0, 0, 0, 1, 1, 1, 0, 0, 0, 0, 1]),
        // … and after the handle was dropped while the outermost call is inside; depth 5 alone
        (plain(&[&[EmitDeep(2), Emit], &[DropHandle]]), vec![0, 0, 1, 1, 0, 0, 0, 0, 0, 0, 0]),
        (plain(&[&[EmitDeep(5)]]), vec![0; 16]),
        // the recorder drops the handle from inside a forwarded call; another emission starts before that call returns
        (plain(&[&[EmitDropInside], &[Emit]]), vec![0, 0, 0, 1, 1, 1, 0]),
        (plain(&[&[Emit, EmitDropInside, Emit], &[EmitKeep, UseKept]]), vec![0, 0, 0, 0, 1, 0, 1, 1, 0, 0, 1, 0]),
        // the recorder calls into_inner from inside a forwarded call: it never returns; the other threads are served
        (plain(&[&[EmitIntoInside], &[Emit]]), vec![0, 0, 0, 0, 0, 1, 1, 1, 0, 0]),
        (plain(&[&[Emit, EmitIntoInside], &[EmitKeep, UseKept], &[EmitDeep(2)]]), vec![0, 0, 0, 1, 0, 0, 1, 2, 2, 0, 2, 2, 1, 2]),
    ];
    for (ci, (progs, sch)) in corpus.into_iter().enumerate() {
        out.case("corpus");
        SIZE_CLASS.store(ci, Ordering::SeqCst);
        one(out, &progs, &sch);
    }
    for i in 0..cfg.cases {
        let mut r = root.fork(i as u64);
        out.case(&format!("seed={} i={}", cfg.seed, i));
        let progs = gen_progs(&mut r);
        SIZE_CLASS.store(r.below(4), Ordering::SeqCst);
        let mut sch = vec![];
        let mut cur = r.below(progs.len());
        for _ in 0..60 {
            if r.chance(1, 2) {
                cur = r.below(progs.len());
            }
            sch.push(cur);
        }
        out.count(&format!("threads={} end={:?}", progs.len(), progs.iter().flatten().map(|c| c.call).find(|c| c.is_end())));
        one(out, &progs, &sch);
    }
    // free-running rounds (no scheduler)
    let rounds = if cfg.thorough { cfg.cases * 2 } else { cfg.cases };
    let base = out.n_oracle_fail;
    let stuck0 = STUCK_ROUNDS.load(Ordering::SeqCst);
    for i in 0..rounds {
        let mut r = root.fork(2_000_000 + i as u64);
        out.case(&format!("free seed={} i={}", cfg.seed, i));
        let progs = gen_free(&mut r);
        SIZE_CLASS.store(r.below(4), Ordering::SeqCst);
        free_round(out, &progs);
        if out.n_oracle_fail > base + 20 || STUCK_ROUNDS.load(Ordering::SeqCst) > stuck0 + 2 {
            break;
        }
    }
    // stress rounds: tight emission loops against into_inner / handle drop
    out.case("stress");
    let rounds = if cfg.thorough { 20000 } else { 2000 };
    let base = out.n_oracle_fail;
    // wall-clock budget (oracle-only phase, no op lines): on an oversubscribed machine into_inner needs longer to
    // find the count at 1 against tight emitters; the number of rounds done is in the distribution table
    let budget = Duration::from_secs(if cfg.thorough { 90 } else { 12 });
    let t_stress = Instant::now();
    for i in 0..rounds {
        if t_stress.elapsed() > budget {
            out.count("stress.stopped.by.time.budget");
            break;
        }
        let mut r = root.fork(4_000_000 + i as u64);
        let recover = i % 5 != 4;
        stress_round(out, &mut r, recover);
        out.count(if recover { "stress.rounds.into_inner" } else { "stress.rounds.drop" });
        if out.n_oracle_fail > base + 20 {
            break;
        }
    }
    // long-held emission against a spinning into_inner
    for (k, target) in (if cfg.thorough { vec![1u64, 70, 5_000, 3_000_000] } else { vec![1u64, 70, 300_000] }).into_iter().enumerate() {
        out.case(&format!("hold target={}", target));
        hold_round(out, &mut root.fork(3_000_000 + k as u64), target);
    }
    if cfg.thorough {
        let configs: Vec<Vec<Vec<Step>>> = vec![
            plain(&[&[Emit, Emit], &[IntoInner], &[Emit]]),
            plain(&[&[Emit, Emit], &[DropHandle], &[Emit]]),
            plain(&[&[Emit], &[Emit, IntoInner, Emit]]),
            plain(&[&[EmitNested], &[IntoInner], &[Emit]]),
            plain(&[&[EmitNested], &[DropHandle], &[EmitPanic]]),
            plain(&[&[EmitPanic, Emit], &[IntoInner, Emit]]),
            plain(&[&[EmitKeep, UseKept, Emit], &[IntoInner], &[EmitKeep]]),
            plain(&[&[EmitKeep, DropKept], &[DropHandle, Emit], &[EmitKeep, UseKept]]),
            plain(&[&[EmitDeep(2)], &[IntoInner], &[Emit]]),
            plain(&[&[EmitDropInside, Emit], &[Emit], &[EmitNested]]),
        ];
        for (ci, progs) in configs.into_iter().enumerate() {
            SIZE_CLASS.store(ci, Ordering::SeqCst);
            let mut prefix: Vec<usize> = vec![];
            let mut runs = 0usize;
            let mut exhausted = false;
            out.case(&format!("exhaustive {}", progs_tok(&progs)));
            loop {
                let o = execute(&progs, Some(&prefix));
                runs += 1;
                let taken: Vec<usize> = o.run.trace.iter().map(|(t, _)| *t).collect();
                out.op(&format!("recover run {} {}", progs_tok(&progs), sched::sched_tok(&taken)), &answer(&o));
                oracle(out, &progs, &o);
                if runs >= 20000 {
                    break;
                }
                let mut i = taken.len();
                let mut next = None;
                while i > 0 {
                    i -= 1;
                    if let Some(alt) = o.run.choices[i].iter().copied().filter(|c| *c > taken[i]).min() {
                        next = Some((i, alt));
                        break;
                    }
                }
                match next {
                    None => {
                        exhausted = true;
                        break;
                    }
                    Some((i, alt)) => {
                        prefix = taken[..i].to_vec();
                        prefix.push(alt);
                    }
                }
            }
            out.count_n(&format!("exhaustive.runs.{}", progs_tok(&progs)), runs as u64);
            out.count(&format!("exhaustive.complete={}", exhausted));
            out.nontrivial();
        }
    }
}
