//! C19 — debugging snapshots show every registered metric with its true current state.
//!
//! Each case: 1-3 real `DebuggingRecorder`s, 1-3 real threads (thread 0 = the harness thread, the others
//! are workers that execute one call at a time, so the op order is deterministic), a script of
//! describe / register / update / snapshot calls.  Calls reach a recorder in one of four ways:
//!   direct   the `Recorder` trait method on the recorder value,
//!   local    `with_local_recorder(&rec, || with_recorder(|r| r.register_*(&key, ..)))`,
//!   macro    `counter!(name, labels)` / `describe_counter!(..)` under `with_local_recorder`,
//!   handle   an update through a handle obtained by an earlier registration, issued on a thread that has
//!            a *different* recorder (or none) installed locally.
//! During the whole case a decoy recorder is installed locally on the harness thread; it must stay empty.
//!
//! The same ops go to the Lean model (`debug …`); every snapshot is compared entry by entry, in order
//! (`into_vec`) or sorted (`into_hashmap`), histogram value lists sorted.  Independent of the model, a tally
//! kept here checks the property directly on what the real code returned.
#![allow(dead_code)]

use crate::c08::{unit_tok, UNITS};
use crate::prom::{dy, val_tok};
use crate::util::*;
use metrics::{Counter, Gauge, Histogram, Key, KeyName, Label, Recorder, SharedString, Unit};
use metrics_util::debugging::{DebugValue, DebuggingRecorder, Snapshotter};
use metrics_util::{CompositeKey, MetricKind};
use std::collections::HashMap;
use std::sync::mpsc::{channel, Sender};
use std::sync::Arc;

static META: metrics::Metadata<'static> = metrics::Metadata::new("mv", metrics::Level::INFO, None);

// ---------------------------------------------------------------------------------------------
// worker threads: execute one closure at a time, the caller waits for the result

type Job = Box<dyn FnOnce() + Send>;

struct Workers {
    tx: Vec<Sender<Job>>,
}

impl Workers {
    fn new(n: usize) -> Workers {
        let mut tx = vec![];
        for i in 0..n {
            let (s, r) = channel::<Job>();
            std::thread::Builder::new()
                .name(format!("c19-worker-{}", i + 1))
                .spawn(move || {
                    while let Ok(job) = r.recv() {
                        job();
                    }
                })
                .unwrap();
            tx.push(s);
        }
        Workers { tx }
    }
    /// run `f` on thread `tid` (0 = the calling thread) and wait for its result
    fn on<R: Send + 'static>(&self, tid: usize, f: impl FnOnce() -> R + Send + 'static) -> R {
        if tid == 0 {
            return f();
        }
        let (s, r) = channel::<R>();
        self.tx[tid - 1]
            .send(Box::new(move || {
                let _ = s.send(f());
            }))
            .unwrap();
        r.recv().expect("worker died")
    }
}

// ---------------------------------------------------------------------------------------------
// script

#[derive(Clone, Debug)]
struct KeyUse {
    name: String,
    labels: Vec<(String, String)>, // in the order given to the constructor
    variant: u8,
}

#[derive(Clone, Copy, Debug, PartialEq)]
enum Via {
    Direct,
    Local,
    Macro,
}

#[derive(Clone, Debug)]
enum Upd {
    None, // register only
    CInc(u64),
    CAbs(u64),
    GSet(f64),
    GAdd(i64), // n/1024, negative = decrement
    HRec(Vec<f64>),
}

#[derive(Clone, Debug)]
enum G {
    Describe { rid: usize, tid: usize, via: Via, kind: u8, name: String, unit: Option<Unit>, desc: String },
    /// register (and update through the fresh handle); `keep` = remember the handle
    Reg { rid: usize, tid: usize, via: Via, kind: u8, key: KeyUse, upd: Upd, keep: bool },
    /// update through the `h`-th remembered handle (modulo the number of handles), on thread `tid` with
    /// recorder `other` (if any) installed locally
    Handle { h: usize, tid: usize, other: Option<usize>, upd_seed: u64 },
    Snapshot { rid: usize, tid: usize, map: bool },
}

fn leak(s: &str) -> &'static str {
    Box::leak(s.to_string().into_boxed_str())
}

fn build_key(u: &KeyUse) -> Key {
    let owned = |ls: &[(String, String)]| -> Vec<Label> {
        ls.iter().map(|(k, v)| Label::new(k.clone(), v.clone())).collect()
    };
    let leaked = |ls: &[(String, String)]| -> &'static [Label] {
        let v: Vec<Label> = ls.iter().map(|(k, v)| Label::from_static_parts(leak(k), leak(v))).collect();
        Box::leak(v.into_boxed_slice())
    };
    match u.variant % 8 {
        0 => Key::from_parts(u.name.clone(), owned(&u.labels)),
        1 => Key::from_static_parts(leak(&u.name), leaked(&u.labels)),
        2 => {
            let cut = u.labels.len() / 2;
            Key::from_parts(u.name.clone(), owned(&u.labels[..cut])).with_extra_labels(owned(&u.labels[cut..]))
        }
        3 => Key::from_static_labels(u.name.clone(), leaked(&u.labels)),
        4 => {
            let k = Key::from_parts(u.name.clone(), owned(&u.labels));
            let _ = k.get_hash(); // hash cached before the clone
            k.clone()
        }
        5 => Key::from_name(u.name.clone()).with_extra_labels(owned(&u.labels)),
        6 => {
            if u.labels.is_empty() {
                Key::from_static_name(leak(&u.name))
            } else {
                Key::from_parts(leak(&u.name), &u.labels)
            }
        }
        _ => {
            let k = Key::from_static_parts(leak(&u.name), leaked(&u.labels));
            k.clone()
        }
    }
}

fn kind_tok(k: u8) -> &'static str {
    ["c", "g", "h"][k as usize]
}
fn kind_of(k: MetricKind) -> u8 {
    match k {
        MetricKind::Counter => 0,
        MetricKind::Gauge => 1,
        MetricKind::Histogram => 2,
    }
}

/// identity of a key for the tally: name and labels sorted by label name (label names are distinct)
fn canon_id(name: &str, labels: &[(String, String)]) -> String {
    let mut ls: Vec<(String, String)> = labels.to_vec();
    ls.sort();
    format!("{} {}", hexs(name), pairs(&ls))
}

// ---------------------------------------------------------------------------------------------
// the tally: what the property says a snapshot must show, kept independently of the model

#[derive(Default)]
struct Tally {
    order: Vec<(u8, String)>,
    counters: HashMap<String, u64>,
    gauges: HashMap<String, f64>,
    pending: HashMap<String, Vec<u64>>,
    recorded: HashMap<String, Vec<u64>>,
    delivered: HashMap<String, Vec<u64>>,
    meta: HashMap<(u8, String), (Option<Unit>, String)>,
}

impl Tally {
    fn register(&mut self, kind: u8, id: &str) {
        if !self.order.iter().any(|(k, i)| *k == kind && i == id) {
            self.order.push((kind, id.to_string()));
        }
        match kind {
            0 => {
                self.counters.entry(id.to_string()).or_insert(0);
            }
            1 => {
                self.gauges.entry(id.to_string()).or_insert(0.0);
            }
            _ => {
                self.pending.entry(id.to_string()).or_default();
                self.recorded.entry(id.to_string()).or_default();
                self.delivered.entry(id.to_string()).or_default();
            }
        }
    }
    fn update(&mut self, id: &str, upd: &Upd) {
        match upd {
            Upd::None => {}
            Upd::CInc(n) => {
                let c = self.counters.get_mut(id).unwrap();
                *c = c.wrapping_add(*n);
            }
            Upd::CAbs(n) => {
                let c = self.counters.get_mut(id).unwrap();
                *c = (*c).max(*n);
            }
            Upd::GSet(v) => {
                self.gauges.insert(id.to_string(), *v);
            }
            Upd::GAdd(n) => {
                let g = self.gauges.get_mut(id).unwrap();
                if *n >= 0 {
                    *g += dy(*n);
                } else {
                    *g -= dy(-*n);
                }
            }
            Upd::HRec(vs) => {
                for v in vs {
                    self.pending.get_mut(id).unwrap().push(v.to_bits());
                    self.recorded.get_mut(id).unwrap().push(v.to_bits());
                }
            }
        }
    }
    fn describe(&mut self, kind: u8, name: &str, unit: Option<Unit>, desc: &str) {
        // the property's rule: description = most recent; unit = most recent one given
        let e = self.meta.entry((kind, name.to_string())).or_insert((None, String::new()));
        if unit.is_some() {
            e.0 = unit;
        }
        e.1 = desc.to_string();
    }
}

type Snap = Vec<(CompositeKey, Option<Unit>, Option<SharedString>, DebugValue)>;

fn labels_of(k: &Key) -> Vec<(String, String)> {
    k.labels().map(|l| (l.key().to_string(), l.value().to_string())).collect()
}

fn entry_tok(e: &(CompositeKey, Option<Unit>, Option<SharedString>, DebugValue)) -> String {
    let (ck, unit, desc, value) = e;
    let v = match value {
        DebugValue::Counter(n) => format!("c{}", n),
        DebugValue::Gauge(g) => val_tok(g.0),
        DebugValue::Histogram(vs) => {
            let mut t: Vec<String> = vs.iter().map(|x| val_tok(x.0)).collect();
            t.sort();
            list(t)
        }
    };
    format!(
        "{}/{}/{}/{}/{}/{}",
        kind_tok(kind_of(ck.kind())),
        hexs(ck.key().name()),
        pairs(&labels_of(ck.key())),
        unit_tok(*unit),
        match desc {
            Some(d) => hexs(d),
            None => "~".to_string(),
        },
        v
    )
}

fn entries_tok(mut toks: Vec<String>, sorted: bool) -> String {
    if sorted {
        toks.sort();
    }
    if toks.is_empty() {
        "empty".to_string()
    } else {
        toks.join(";")
    }
}

/// the property, checked on one real snapshot against the tally (then the tally's pending values are
/// moved to `delivered`)
fn check_snapshot(out: &mut Out, t: &mut Tally, rid: usize, snap: &Snap, ordered: bool) {
    let got: Vec<(u8, String)> =
        snap.iter().map(|(ck, _, _, _)| (kind_of(ck.kind()), canon_id(ck.key().name(), &labels_of(ck.key())))).collect();
    if ordered {
        if got != t.order {
            out.oracle_fail(
                "snapshot does not list exactly the registered metrics in first-registration order",
                &format!("recorder {} got {:?} expected {:?}", rid, got, t.order),
            );
        }
    } else {
        let mut a = got.clone();
        let mut b = t.order.clone();
        a.sort();
        b.sort();
        if a != b {
            out.oracle_fail(
                "snapshot (hash map) does not hold exactly the registered metrics",
                &format!("recorder {} got {:?} expected {:?}", rid, a, b),
            );
        }
    }
    if snap.iter().any(|(ck, _, _, _)| ck.key().name() == "only-described") {
        out.oracle_fail("snapshot lists a metric that was only described", &format!("recorder {}", rid));
    }
    let mut seen_hist: Vec<String> = vec![];
    for ((ck, unit, desc, value), (kind, id)) in snap.iter().zip(got.iter()) {
        match value {
            DebugValue::Counter(n) => {
                if *kind != 0 || t.counters.get(id) != Some(n) {
                    out.oracle_fail(
                        "counter value differs from its state at snapshot time",
                        &format!("recorder {} {} got {} expected {:?}", rid, id, n, t.counters.get(id)),
                    );
                }
            }
            DebugValue::Gauge(g) => {
                let exp = t.gauges.get(id).map(|x| x.to_bits());
                if *kind != 1 || exp != Some(g.0.to_bits()) {
                    out.oracle_fail(
                        "gauge value differs from its state at snapshot time",
                        &format!("recorder {} {} got {:x} expected {:x?}", rid, id, g.0.to_bits(), exp),
                    );
                }
            }
            DebugValue::Histogram(vs) => {
                let mut a: Vec<u64> = vs.iter().map(|x| x.0.to_bits()).collect();
                a.sort();
                let mut b: Vec<u64> = t.pending.get(id).cloned().unwrap_or_default();
                b.sort();
                if *kind != 2 || a != b {
                    out.oracle_fail(
                        "histogram values are not exactly those recorded since the previous snapshot",
                        &format!("recorder {} {} got {} values expected {} (first got {:x?} first expected {:x?})",
                                 rid, id, a.len(), b.len(), a.first(), b.first()),
                    );
                }
                if seen_hist.contains(id) {
                    out.oracle_fail("histogram listed twice in one snapshot", &format!("recorder {} {}", rid, id));
                }
                seen_hist.push(id.clone());
                t.delivered.entry(id.clone()).or_default().extend(a);
                if let Some(p) = t.pending.get_mut(id) {
                    p.clear();
                }
            }
        }
        let exp = t.meta.get(&(*kind, ck.key().name().to_string()));
        let (eu, ed) = match exp {
            Some((u, d)) => (*u, Some(d.clone())),
            None => (None, None),
        };
        if *unit != eu {
            out.oracle_fail(
                "unit is not the most recent one given for that kind and name",
                &format!("recorder {} {} got {:?} expected {:?}", rid, id, unit, eu),
            );
        }
        if desc.as_ref().map(|d| d.to_string()) != ed {
            out.oracle_fail(
                "description is not the most recent one given for that kind and name",
                &format!("recorder {} {} got {:?} expected {:?}", rid, id, desc, ed),
            );
        }
    }
}

// ---------------------------------------------------------------------------------------------
// execution of one script

enum H {
    C(Counter),
    G(Gauge),
    H(Histogram),
}

struct Kept {
    rid: usize,
    kind: u8,
    key: KeyUse,
    h: Arc<H>,
}

fn key_tok(k: &KeyUse) -> String {
    format!("{} {}", hexs(&k.name), pairs(&k.labels))
}

fn upd_lines(rid: usize, tid: usize, kind: u8, key: &KeyUse, upd: &Upd) -> Vec<String> {
    let p = format!("debug {} {}", rid, tid);
    match upd {
        Upd::None => vec![format!("{} register {} {}", p, kind_tok(kind), key_tok(key))],
        Upd::CInc(n) => vec![format!("{} cinc {} {}", p, key_tok(key), n)],
        Upd::CAbs(n) => vec![format!("{} cabs {} {}", p, key_tok(key), n)],
        Upd::GSet(v) => vec![format!("{} gset {} {}", p, key_tok(key), val_tok(*v))],
        Upd::GAdd(n) => vec![format!("{} gadd {} {}", p, key_tok(key), n)],
        Upd::HRec(vs) => {
            if vs.is_empty() {
                vec![format!("{} register {} {}", p, kind_tok(kind), key_tok(key))]
            } else {
                vs.iter().map(|v| format!("{} hrec {} {}", p, key_tok(key), val_tok(*v))).collect()
            }
        }
    }
}

fn apply(h: &H, upd: &Upd) {
    match (h, upd) {
        (_, Upd::None) => {}
        (H::C(c), Upd::CInc(n)) => c.increment(*n),
        (H::C(c), Upd::CAbs(n)) => c.absolute(*n),
        (H::G(g), Upd::GSet(v)) => g.set(*v),
        (H::G(g), Upd::GAdd(n)) => {
            if *n >= 0 {
                g.increment(dy(*n))
            } else {
                g.decrement(dy(-*n))
            }
        }
        (H::H(h), Upd::HRec(vs)) => {
            for v in vs {
                h.record(*v)
            }
        }
        _ => panic!("update does not fit the handle"),
    }
}

fn register_via(rec: &DebuggingRecorder, via: Via, kind: u8, ku: &KeyUse) -> H {
    match via {
        Via::Direct => {
            let key = build_key(ku);
            match kind {
                0 => H::C(rec.register_counter(&key, &META)),
                1 => H::G(rec.register_gauge(&key, &META)),
                _ => H::H(rec.register_histogram(&key, &META)),
            }
        }
        Via::Local => {
            let key = build_key(ku);
            metrics::with_local_recorder(rec, || {
                metrics::with_recorder(|r| match kind {
                    0 => H::C(r.register_counter(&key, &META)),
                    1 => H::G(r.register_gauge(&key, &META)),
                    _ => H::H(r.register_histogram(&key, &META)),
                })
            })
        }
        Via::Macro => metrics::with_local_recorder(rec, || {
            // literal forms for two fixed keys, the expression form otherwise
            let lit1 = ku.name == "reqs" && ku.labels.len() == 1 && ku.labels[0] == ("host".to_string(), "a".to_string());
            let lit0 = ku.name == "lat" && ku.labels.is_empty();
            let labels: Vec<Label> = ku.labels.iter().map(|(k, v)| Label::new(k.clone(), v.clone())).collect();
            match kind {
                0 => H::C(if lit1 {
                    metrics::counter!("reqs", "host" => "a")
                } else if lit0 {
                    metrics::counter!("lat")
                } else {
                    metrics::counter!(ku.name.clone(), labels)
                }),
                1 => H::G(if lit1 {
                    metrics::gauge!("reqs", "host" => "a")
                } else if lit0 {
                    metrics::gauge!("lat")
                } else {
                    metrics::gauge!(ku.name.clone(), labels)
                }),
                _ => H::H(if lit1 {
                    metrics::histogram!("reqs", "host" => "a")
                } else if lit0 {
                    metrics::histogram!("lat")
                } else {
                    metrics::histogram!(ku.name.clone(), labels)
                }),
            }
        }),
    }
}

fn describe_via(rec: &DebuggingRecorder, via: Via, kind: u8, name: &str, unit: Option<Unit>, desc: &str) {
    let kn = || KeyName::from(name.to_string());
    let d = || SharedString::from(desc.to_string());
    match via {
        Via::Direct => match kind {
            0 => rec.describe_counter(kn(), unit, d()),
            1 => rec.describe_gauge(kn(), unit, d()),
            _ => rec.describe_histogram(kn(), unit, d()),
        },
        Via::Local => metrics::with_local_recorder(rec, || {
            metrics::with_recorder(|r| match kind {
                0 => r.describe_counter(kn(), unit, d()),
                1 => r.describe_gauge(kn(), unit, d()),
                _ => r.describe_histogram(kn(), unit, d()),
            })
        }),
        Via::Macro => metrics::with_local_recorder(rec, || match (kind, unit) {
            (0, Some(u)) => metrics::describe_counter!(name.to_string(), u, desc.to_string()),
            (0, None) => metrics::describe_counter!(name.to_string(), desc.to_string()),
            (1, Some(u)) => metrics::describe_gauge!(name.to_string(), u, desc.to_string()),
            (1, None) => metrics::describe_gauge!(name.to_string(), desc.to_string()),
            (_, Some(u)) => metrics::describe_histogram!(name.to_string(), u, desc.to_string()),
            (_, None) => metrics::describe_histogram!(name.to_string(), desc.to_string()),
        }),
    }
}

const WILD: [f64; 10] = [
    f64::NAN,
    f64::INFINITY,
    f64::NEG_INFINITY,
    -0.0,
    f64::MAX,
    f64::MIN_POSITIVE,
    5e-324,
    0.1,
    1e21,
    123456789.123456789,
];

fn is_dyadic(v: f64) -> bool {
    val_tok(v).starts_with('d')
}

fn exec(out: &mut Out, workers: &Workers, nrec: usize, script: &[G]) {
    let recs: Vec<Arc<DebuggingRecorder>> = (0..nrec).map(|_| Arc::new(DebuggingRecorder::new())).collect();
    let snaps: Vec<Snapshotter> = recs.iter().map(|r| r.snapshotter()).collect();
    let mut tallies: Vec<Tally> = (0..nrec).map(|_| Tally::default()).collect();
    let decoy = DebuggingRecorder::new();
    let decoy_snap = decoy.snapshotter();
    let mut kept: Vec<Kept> = vec![];
    let mut n_snap = 0;
    let mut n_hist_snap = 0;
    out.op(&format!("debug new {}", nrec), "ok");
    metrics::with_local_recorder(&decoy, || {
        for g in script {
            match g {
                G::Describe { rid, tid, via, kind, name, unit, desc } => {
                    let rec = recs[*rid].clone();
                    let (via2, kind2, name2, unit2, desc2) = (*via, *kind, name.clone(), *unit, desc.clone());
                    workers.on(*tid, move || describe_via(&rec, via2, kind2, &name2, unit2, &desc2));
                    let t = &mut tallies[*rid];
                    t.describe(*kind, name, *unit, desc);
                    out.op(
                        &format!("debug {} {} describe {} {} {} {}", rid, tid, kind_tok(*kind), hexs(name), unit_tok(*unit), hexs(desc)),
                        "ok",
                    );
                    out.count(&format!("op.describe.unit={}", unit.is_some()));
                    out.count(&format!("via.{:?}", via));
                }
                G::Reg { rid, tid, via, kind, key, upd, keep } => {
                    let rec = recs[*rid].clone();
                    let id = canon_id(&key.name, &key.labels);
                    // arithmetic only on gauges whose current value is an exact dyadic (IEEE rounding is not modelled)
                    let upd = &match upd {
                        Upd::GAdd(n) if !tallies[*rid].gauges.get(&id).map(|v| is_dyadic(*v)).unwrap_or(true) => Upd::GSet(dy(*n)),
                        u => u.clone(),
                    };
                    let (via2, kind2, key2, upd2) = (*via, *kind, key.clone(), upd.clone());
                    let h = workers.on(*tid, move || {
                        let h = register_via(&rec, via2, kind2, &key2);
                        apply(&h, &upd2);
                        Arc::new(h)
                    });
                    let t = &mut tallies[*rid];
                    t.register(*kind, &id);
                    t.update(&id, upd);
                    for l in upd_lines(*rid, *tid, *kind, key, upd) {
                        out.op(&l, "ok");
                    }
                    if *keep {
                        kept.push(Kept { rid: *rid, kind: *kind, key: key.clone(), h });
                    }
                    out.count(&format!("op.reg.{}.{}", kind_tok(*kind), match upd {
                        Upd::None => "only",
                        Upd::CInc(_) => "inc",
                        Upd::CAbs(_) => "abs",
                        Upd::GSet(_) => "set",
                        Upd::GAdd(_) => "add",
                        Upd::HRec(v) if v.len() > 64 => "burst",
                        Upd::HRec(_) => "rec",
                    }));
                    out.count(&format!("via.{:?}", via));
                    out.count(&format!("key.variant{}", key.variant % 8));
                }
                G::Handle { h, tid, other, upd_seed } => {
                    if kept.is_empty() {
                        continue;
                    }
                    let i = *h % kept.len();
                    let mut r = Rng::new(*upd_seed);
                    let k = &mut kept[i];
                    // is the gauge currently at a value that may be used arithmetically?
                    let id = canon_id(&k.key.name, &k.key.labels);
                    let g_ok = k.kind != 1 || tallies[k.rid].gauges.get(&id).map(|v| is_dyadic(*v)).unwrap_or(true);
                    let upd = gen_upd(&mut r, k.kind, g_ok, false);
                    let handle = k.h.clone();
                    let upd2 = upd.clone();
                    let other_rec = other.map(|o| recs[o % nrec].clone());
                    workers.on(*tid, move || match other_rec {
                        Some(o) => metrics::with_local_recorder(&*o, || apply(&handle, &upd2)),
                        None => apply(&handle, &upd2),
                    });
                    let (rid, kind, key) = (k.rid, k.kind, k.key.clone());
                    tallies[rid].update(&id, &upd);
                    for l in upd_lines(rid, *tid, kind, &key, &upd) {
                        out.op(&l, "ok");
                    }
                    out.count("op.handle");
                }
                G::Snapshot { rid, tid, map } => {
                    let s = snaps[*rid].clone();
                    let as_map = *map;
                    let snap: Snap = workers.on(*tid, move || {
                        if as_map {
                            // order is lost in the hash map; compared sorted
                            s.snapshot().into_hashmap().into_iter().map(|(k, (u, d, v))| (k, u, d, v)).collect()
                        } else {
                            s.snapshot().into_vec()
                        }
                    });
                    n_snap += 1;
                    if snap.iter().any(|e| matches!(&e.3, DebugValue::Histogram(v) if !v.is_empty())) {
                        n_hist_snap += 1;
                    }
                    let toks: Vec<String> = snap.iter().map(entry_tok).collect();
                    check_snapshot(out, &mut tallies[*rid], *rid, &snap, !as_map);
                    if as_map {
                        out.op(&format!("debug {} {} snapshotmap", rid, tid), &entries_tok(toks, true));
                        out.count("op.snapshot.map");
                    } else {
                        out.op(&format!("debug {} {} snapshot", rid, tid), &entries_tok(toks, false));
                        out.count("op.snapshot.vec");
                    }
                }
            }
        }
        // final snapshots: everything recorded must have been delivered exactly once
        for rid in 0..nrec {
            let snap: Snap = snaps[rid].snapshot().into_vec();
            let toks: Vec<String> = snap.iter().map(entry_tok).collect();
            check_snapshot(out, &mut tallies[rid], rid, &snap, true);
            out.op(&format!("debug {} 0 snapshot", rid), &entries_tok(toks, false));
            let t = &tallies[rid];
            for (id, rec) in &t.recorded {
                let mut a = rec.clone();
                a.sort();
                let mut b = t.delivered.get(id).cloned().unwrap_or_default();
                b.sort();
                if a != b {
                    out.oracle_fail(
                        "histogram values recorded and values delivered over all snapshots differ (lost or repeated)",
                        &format!("recorder {} {} recorded {} delivered {}", rid, id, a.len(), b.len()),
                    );
                }
            }
        }
    });
    let d = decoy_snap.snapshot().into_vec();
    if !d.is_empty() {
        out.oracle_fail(
            "a recorder installed locally on another thread received metrics meant for a different recorder",
            &format!("decoy holds {} entries", d.len()),
        );
    }
    if n_snap >= 2 && n_hist_snap >= 1 {
        out.nontrivial();
    }
}

// ---------------------------------------------------------------------------------------------
// generator

fn gen_upd(r: &mut Rng, kind: u8, gauge_arith_ok: bool, allow_none: bool) -> Upd {
    match kind {
        0 => {
            if allow_none && r.chance(1, 8) {
                Upd::None
            } else if r.chance(4, 5) {
                Upd::CInc(*r.pick(&[0u64, 1, 2, 7, 1000, u64::MAX, u64::MAX - 1, 1 << 63]))
            } else {
                Upd::CAbs(*r.pick(&[0u64, 5, 100, u64::MAX, 1 << 40]))
            }
        }
        1 => {
            if allow_none && r.chance(1, 8) {
                Upd::None
            } else if r.chance(1, 6) {
                Upd::GSet(*r.pick(&WILD))
            } else if !gauge_arith_ok || r.chance(1, 2) {
                Upd::GSet(dy(r.range(0, 1 << 21) as i64 - (1 << 20)))
            } else {
                Upd::GAdd(r.range(0, 1 << 21) as i64 - (1 << 20))
            }
        }
        _ => {
            if allow_none && r.chance(1, 8) {
                Upd::None
            } else {
                let n = match r.weighted(&[6, 3, 2]) {
                    0 => 1,
                    1 => r.range(2, 10),
                    _ => r.range(60, 200),
                };
                let mut vs = vec![];
                for _ in 0..n {
                    if r.chance(1, 12) {
                        vs.push(*r.pick(&WILD));
                    } else {
                        // few distinct values, so repeated values occur (multiset, not set)
                        vs.push(dy(r.range(0, 40) as i64 * 512 - 4096));
                    }
                }
                Upd::HRec(vs)
            }
        }
    }
}

fn gen_script(r: &mut Rng, out: &mut Out) -> (usize, usize, Vec<G>) {
    let nrec = r.range(1, 3);
    let nthreads = r.range(1, 3);
    // key pool: few names (shared across kinds), few label sets with distinct label names
    let names_all = ["reqs", "lat", "a", "Ünï x\n/;", ""];
    let nnames = r.range(1, 3);
    let names: Vec<String> = (0..nnames).map(|_| r.pick_str(&names_all).to_string()).collect();
    let lnames = ["host", "code", "zone", "é"];
    let lvals = ["a", "b", "", "x:y,z"];
    let mut pool: Vec<(String, Vec<(String, String)>)> = vec![];
    for _ in 0..r.range(2, 5) {
        let name = names[r.below(names.len())].clone();
        let mut ls: Vec<(String, String)> = vec![];
        let nl = r.weighted(&[3, 3, 3, 2, 1]);
        let mut avail: Vec<&str> = lnames.to_vec();
        for _ in 0..nl.min(avail.len()) {
            let k = avail.remove(r.below(avail.len()));
            ls.push((k.to_string(), r.pick_str(&lvals).to_string()));
        }
        pool.push((name, ls));
    }
    if r.chance(1, 3) {
        pool.push(("reqs".to_string(), vec![("host".to_string(), "a".to_string())]));
        pool.push(("lat".to_string(), vec![]));
    }
    out.count(&format!("cfg.recorders={} threads={}", nrec, nthreads));
    let mut script = vec![];
    let nops = r.range(5, 60);
    let pick_via = |r: &mut Rng| *r.pick(&[Via::Direct, Via::Local, Via::Local, Via::Macro]);
    let descs = ["first", "second help", "", "x\\y\n", "ünï"];
    for _ in 0..nops {
        let rid = r.below(nrec);
        let tid = r.below(nthreads);
        match r.weighted(&[5, 14, 3, 4]) {
            0 => {
                let kind = r.below(3) as u8;
                // sometimes a name that is never registered (described only)
                let name = if r.chance(1, 6) { "only-described".to_string() } else { names[r.below(names.len())].clone() };
                let unit = if r.chance(1, 2) { Some(*r.pick(&UNITS)) } else { None };
                script.push(G::Describe { rid, tid, via: pick_via(r), kind, name, unit, desc: r.pick_str(&descs).to_string() });
            }
            1 => {
                let kind = r.below(3) as u8;
                let (name, ls) = pool[r.below(pool.len())].clone();
                // a random permutation of the labels and a random way of building the key
                let mut labels = ls.clone();
                for i in (1..labels.len()).rev() {
                    labels.swap(i, r.below(i + 1));
                }
                let key = KeyUse { name, labels, variant: r.below(8) as u8 };
                let upd = gen_upd(r, kind, true, true);
                script.push(G::Reg { rid, tid, via: pick_via(r), kind, key, upd, keep: r.chance(1, 3) });
            }
            2 => {
                let other = if r.chance(2, 3) { Some(r.below(nrec)) } else { None };
                script.push(G::Handle { h: r.below(1000), tid, other, upd_seed: r.next() });
            }
            _ => script.push(G::Snapshot { rid, tid, map: r.chance(1, 4) }),
        }
    }
    (nrec, nthreads, script)
}

fn ku(name: &str, labels: &[(&str, &str)], variant: u8) -> KeyUse {
    KeyUse { name: name.to_string(), labels: labels.iter().map(|(k, v)| (k.to_string(), v.to_string())).collect(), variant }
}

/// hand-picked scripts (the wording of the property, one after the other)
fn corpus() -> Vec<(usize, Vec<G>)> {
    let d = |rid, kind, name: &str, unit, desc: &str| G::Describe {
        rid,
        tid: 0,
        via: Via::Direct,
        kind,
        name: name.to_string(),
        unit,
        desc: desc.to_string(),
    };
    let reg = |rid, tid, via, kind, key: KeyUse, upd| G::Reg { rid, tid, via, kind, key, upd, keep: true };
    let snap = |rid| G::Snapshot { rid, tid: 0, map: false };
    vec![
        // description before registration; a later description without unit keeps the earlier unit
        (1, vec![
            d(0, 0, "reqs", Some(Unit::Seconds), "first"),
            snap(0),
            d(0, 0, "reqs", None, "second"),
            reg(0, 0, Via::Direct, 0, ku("reqs", &[], 0), Upd::CInc(1)),
            snap(0),
            d(0, 0, "reqs", Some(Unit::Bytes), "third"),
            d(0, 0, "reqs", None, ""),
            snap(0),
        ]),
        // the same name under three kinds, one described-only name, metadata per kind
        (1, vec![
            d(0, 1, "m", Some(Unit::Percent), "gauge m"),
            d(0, 2, "only-described", Some(Unit::Count), "never registered"),
            reg(0, 0, Via::Local, 2, ku("m", &[("host", "a")], 0), Upd::HRec(vec![1.0, 1.0, 2.5])),
            reg(0, 1, Via::Macro, 0, ku("m", &[("host", "a")], 0), Upd::CAbs(7)),
            reg(0, 2, Via::Direct, 1, ku("m", &[("host", "a")], 1), Upd::GSet(-0.0)),
            snap(0),
            G::Snapshot { rid: 0, tid: 1, map: true },
        ]),
        // equal keys built differently are one metric; shown as first registered
        (1, vec![
            reg(0, 0, Via::Direct, 0, ku("k", &[("b", "2"), ("a", "1"), ("c", "3")], 0), Upd::CInc(u64::MAX)),
            reg(0, 1, Via::Local, 0, ku("k", &[("a", "1"), ("c", "3"), ("b", "2")], 1), Upd::CInc(2)),
            reg(0, 2, Via::Macro, 0, ku("k", &[("c", "3"), ("b", "2"), ("a", "1")], 0), Upd::CAbs(5)),
            reg(0, 0, Via::Direct, 0, ku("k", &[("a", "1"), ("b", "2"), ("c", "3")], 2), Upd::None),
            reg(0, 0, Via::Direct, 0, ku("k", &[("a", "1"), ("b", "2"), ("c", "4")], 5), Upd::CInc(9)),
            snap(0),
        ]),
        // bursts that span bucket blocks; every value in exactly one snapshot
        (1, vec![
            reg(0, 0, Via::Direct, 2, ku("lat", &[], 6), Upd::HRec((0..130).map(|i| dy(i * 3)).collect())),
            snap(0),
            reg(0, 1, Via::Macro, 2, ku("lat", &[], 0), Upd::HRec(vec![f64::NAN, 0.5, 0.5])),
            G::Handle { h: 0, tid: 2, other: None, upd_seed: 7 },
            snap(0),
            snap(0),
            reg(0, 0, Via::Local, 2, ku("lat", &[], 4), Upd::HRec((0..64).map(|i| dy(i)).collect())),
            reg(0, 0, Via::Local, 2, ku("lat", &[], 4), Upd::HRec(vec![dy(64)])),
            snap(0),
        ]),
        // two recorders, the same key, different threads; handles used under the other recorder
        (2, vec![
            reg(0, 1, Via::Local, 0, ku("reqs", &[("host", "a")], 0), Upd::CInc(5)),
            reg(1, 2, Via::Macro, 0, ku("reqs", &[("host", "a")], 0), Upd::CInc(11)),
            reg(1, 1, Via::Macro, 1, ku("lat", &[], 0), Upd::GAdd(1024)),
            G::Handle { h: 0, tid: 2, other: Some(1), upd_seed: 3 },
            G::Handle { h: 1, tid: 1, other: Some(0), upd_seed: 4 },
            d(1, 0, "reqs", Some(Unit::Count), "only on recorder 1"),
            snap(0),
            snap(1),
        ]),
    ]
}

pub fn run(cfg: &Cfg, out: &mut Out) {
    let workers = Workers::new(2);
    for (i, (nrec, script)) in corpus().into_iter().enumerate() {
        out.case(&format!("corpus {}", i));
        exec(out, &workers, nrec, &script);
    }
    let root = Rng::new(cfg.seed);
    for i in 0..cfg.cases {
        let mut r = root.fork(i as u64);
        out.case(&format!("seed={} i={}", cfg.seed, i));
        let (nrec, _nthreads, script) = gen_script(&mut r, out);
        exec(out, &workers, nrec, &script);
    }
}


// ---------------------------------------------------------------------------------------------
// concurrent stream: record() racing snapshot() on one histogram, under the deterministic scheduler (yield points
// of the lock-free bucket).  Every recorded value is distinct, so "each value appears in exactly one snapshot"
// is checked literally.  The only loss the unchanged code shows has the K1 trace signature of the bucket
// (K-C05-K1); anything else — a loss without that signature, or a value in two snapshots — is a violation.
pub fn run_concurrent(cfg: &Cfg, out: &mut Out) {
    use std::sync::Mutex;
    static META: metrics::Metadata<'static> = metrics::Metadata::new("mv", metrics::Level::INFO, None);
    let root = Rng::new(cfg.seed ^ 0xC19C);
    let n = if cfg.thorough { 600 } else { 120 };
    for i in 0..n {
        let mut r = root.fork(i as u64);
        out.case(&format!("concurrent seed={} i={}", cfg.seed, i));
        let rec = Arc::new(DebuggingRecorder::new());
        let snapper = rec.snapshotter();
        let key = Key::from_name("lat");
        let h = rec.register_histogram(&key, &META);
        // the first cases are targeted: a record() completes entirely between two steps of the snapshot's drain
        let targeted = i < 24;
        let prefill = if targeted { [0usize, 1, 63, 64][i % 4] } else { *r.pick(&[0usize, 1, 2, 62, 63, 64, 65]) };
        let mut next_val = 1u32;
        let mut recorded: Vec<u64> = vec![];
        for _ in 0..prefill {
            let v = next_val as f64;
            next_val += 1;
            h.record(v);
            recorded.push(v.to_bits());
        }
        let nrec = if targeted { 1 } else { r.range(1, 3) };
        let mut bodies: Vec<Box<dyn FnOnce() + Send + 'static>> = vec![];
        for _ in 0..nrec {
            let h = h.clone();
            let k = if targeted { 1 + (i / 12) % 2 } else { r.range(1, 3) };
            let mut vals = vec![];
            for _ in 0..k {
                let v = next_val as f64;
                next_val += 1;
                vals.push(v);
                recorded.push(v.to_bits());
            }
            bodies.push(Box::new(move || {
                for v in vals {
                    h.record(v);
                }
            }));
        }
        let snaps: Arc<Mutex<Vec<Vec<u64>>>> = Arc::new(Mutex::new(vec![]));
        let nsnap = if targeted { 1 } else { r.range(1, 3) };
        {
            let snapper = snapper.clone();
            let snaps = snaps.clone();
            bodies.push(Box::new(move || {
                for _ in 0..nsnap {
                    let s = snapper.snapshot().into_vec();
                    let mut vals = vec![];
                    for (_, _, _, v) in s {
                        if let DebugValue::Histogram(xs) = v {
                            vals.extend(xs.into_iter().map(|x| x.into_inner().to_bits()));
                        }
                    }
                    snaps.lock().unwrap().push(vals);
                }
            }));
        }
        let nt = bodies.len();
        let mut sch = vec![];
        if targeted {
            // snapshot thread advances `a` grants into its drain, then the recorder runs to completion, then the rest
            let a = 1 + (i / 4) % 6;
            sch.extend(vec![nt - 1; a]);
            sch.extend(vec![0; 12]);
            sch.extend(vec![nt - 1; 60]);
        }
        let mut cur = r.below(nt);
        for _ in 0..120 {
            if r.chance(2, 5) {
                cur = r.below(nt);
            }
            sch.push(cur);
        }
        let run = crate::sched::run(bodies, &sch);
        out.count(&format!("concurrent.prefill={}", prefill));
        if run.deadlock || run.timed_out || !run.panicked.is_empty() {
            out.oracle_fail("record racing snapshot: deadlock, timeout or panic", &format!("{:?}", run.trace));
            continue;
        }
        // one more snapshot at quiescence collects what is left
        {
            let s = snapper.snapshot().into_vec();
            let mut vals = vec![];
            for (_, _, _, v) in s {
                if let DebugValue::Histogram(xs) = v {
                    vals.extend(xs.into_iter().map(|x| x.into_inner().to_bits()));
                }
            }
            snaps.lock().unwrap().push(vals);
        }
        let snaps = snaps.lock().unwrap().clone();
        let sig = crate::c05::signatures_of_trace(&run.trace);
        if run.trace.iter().any(|(_, id)| id.starts_with("bkt.clear")) && run.trace.iter().any(|(_, id)| *id == "blk.push.claim") {
            out.nontrivial();
        }
        let mut seen: HashMap<u64, usize> = HashMap::new();
        for s in &snaps {
            for v in s {
                *seen.entry(*v).or_insert(0) += 1;
            }
        }
        let dup: Vec<f64> = seen.iter().filter(|(_, c)| **c > 1).map(|(v, _)| f64::from_bits(*v)).collect();
        let invented: Vec<f64> = seen.keys().filter(|v| !recorded.contains(v)).map(|v| f64::from_bits(*v)).collect();
        let lost: Vec<f64> = recorded.iter().filter(|v| !seen.contains_key(v)).map(|v| f64::from_bits(*v)).collect();
        let show = |snaps: &Vec<Vec<u64>>| -> Vec<Vec<f64>> { snaps.iter().map(|s| s.iter().map(|b| f64::from_bits(*b)).collect()).collect() };
        if !dup.is_empty() || !invented.is_empty() {
            out.oracle_fail(
                "a histogram value appears in two snapshots, or a value that was never recorded appears [no-known-signature]",
                &format!("duplicated {:?} invented {:?}; snapshots {:?}; trace {:?}", dup, invented, show(&snaps), run.trace),
            );
        }
        if !lost.is_empty() {
            out.oracle_fail(
                &format!(
                    "a recorded histogram value appears in no snapshot [{}]",
                    if sig.k1 { "K1:straggler-push-on-detached-block" } else { "no-known-signature" }
                ),
                &format!("lost {:?}; snapshots {:?}; trace {:?}", lost, show(&snaps), run.trace),
            );
        }
    }
}
