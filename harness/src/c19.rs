//! C19 — debugging snapshots show every registered metric with its true current state.
//!
//! Each case: 1-3 real `DebuggingRecorder`s, 1-3 real threads (thread 0 = the harness thread, the others
//! are workers that execute one call at a time, so the op order is deterministic), a script of
//! describe / register / update / snapshot calls.  Calls reach a recorder in one of four ways:
//!   direct   the `Recorder` trait method on the recorder value,
//!   local    `with_local_recorder(&rec, || with_recorder(|r| r.register_*(&key, ..)))`,
//!   macro    `counter!(name, labels)` / `describe_counter!(..)` under `with_local_recorder`,
//!   handle   an update through a handle obtained by an earlier registration, issued on a thread that has
//!            a *different* recorder (or none) installed locally.
//!   tree     a tree of nested local-recorder scopes executed on one thread (`with_local_recorder` closures
//!            and `set_default_local_recorder` guards, left by return or by a panic that unwinds through them
//!            and is caught further up on the same thread), with calls through the macros / `with_recorder`
//!            between them: each call must reach the recorder of the innermost open scope — the global
//!            recorder (a `DebuggingRecorder` installed with `install()` by the first case) outside any scope.
//! During the whole case a decoy recorder is installed locally on the harness thread; it shows only what was
//! called on the harness thread outside any other scope.
//!
//! The same ops go to the Lean model (`debug …`); every snapshot is compared entry by entry, in order
//! (`into_vec`) or sorted (`into_hashmap`), histogram value lists sorted.  Independent of the model, a tally
//! kept here checks the property directly on what the real code returned.
#![allow(dead_code)]

use crate::c08::{unit_tok, UNITS};
use crate::prom::{dy, val_tok};
use crate::util::*;
use metrics::{Counter, Gauge, Histogram, Key, KeyName, Label, Recorder, SharedString, Unit};
use metrics_util::debugging::{DebugValue, DebuggingRecorder, Snapshotter};
use metrics_util::{CompositeKey, MetricKind};
use std::collections::HashMap;
use std::sync::mpsc::{channel, Sender};
use std::sync::Arc;

static META: metrics::Metadata<'static> = metrics::Metadata::new("mv", metrics::Level::INFO, None);
/// every level, several targets / module paths: `register_*` must track the metric whatever the metadata says
static METAS: [metrics::Metadata<'static>; 7] = [
    metrics::Metadata::new("mv", metrics::Level::INFO, None),
    metrics::Metadata::new("mv", metrics::Level::TRACE, None),
    metrics::Metadata::new("", metrics::Level::DEBUG, Some("")),
    metrics::Metadata::new("other::target", metrics::Level::WARN, Some("mv_harness::c19")),
    metrics::Metadata::new("mv", metrics::Level::ERROR, Some("x")),
    metrics::Metadata::new("metrics_util::debugging", metrics::Level::TRACE, Some("metrics_util::debugging")),
    metrics::Metadata::new("Ünï \n", metrics::Level::DEBUG, None),
];
const N_META: usize = 7;
/// id of the globally installed recorder in the op stream
const GLOBAL: usize = 1000;

// ---------------------------------------------------------------------------------------------
// worker threads: execute one closure at a time, the caller waits for the result

type Job = Box<dyn FnOnce() + Send>;

struct Workers {
    tx: Vec<Sender<Job>>,
}

impl Workers {
    fn new(n: usize) -> Workers {
        let mut tx = vec![];
        for i in 0..n {
            let (s, r) = channel::<Job>();
            std::thread::Builder::new()
                .name(format!("c19-worker-{}", i + 1))
                .spawn(move || {
                    while let Ok(job) = r.recv() {
                        job();
                    }
                })
                .unwrap();
            tx.push(s);
        }
        Workers { tx }
    }
    /// abandon worker `tid` (its thread-local state is suspect) and start a fresh thread in its place
    fn replace(&mut self, tid: usize) {
        let (s, r) = channel::<Job>();
        std::thread::Builder::new()
            .name(format!("c19-worker-{}r", tid))
            .spawn(move || {
                while let Ok(job) = r.recv() {
                    job();
                }
            })
            .unwrap();
        self.tx[tid - 1] = s;
    }
    /// run `f` on thread `tid` (0 = the calling thread) and wait for its result
    fn on<R: Send + 'static>(&self, tid: usize, f: impl FnOnce() -> R + Send + 'static) -> R {
        if tid == 0 {
            return f();
        }
        let (s, r) = channel::<R>();
        self.tx[tid - 1]
            .send(Box::new(move || {
                let _ = s.send(f());
            }))
            .unwrap();
        r.recv().expect("worker died")
    }
}

// ---------------------------------------------------------------------------------------------
// script

#[derive(Clone, Debug)]
struct KeyUse {
    name: String,
    labels: Vec<(String, String)>, // in the order given to the constructor
    variant: u8,
}

#[derive(Clone, Copy, Debug, PartialEq)]
enum Via {
    Direct,
    Local,
    Macro,
}

#[derive(Clone, Debug)]
enum Upd {
    None, // register only
    CInc(u64),
    CAbs(u64),
    GSet(f64),
    GAdd(i64), // n/1024, negative = decrement
    HRec(Vec<f64>),
    /// `Histogram::record_many(v, n)` — ONE call on the handle (the model: `n` times `record(v)`; C19.record_many_is_n_records,
    /// C19.src_hist_handle_path)
    HRecMany(f64, usize),
}

#[derive(Clone, Debug)]
enum G {
    Describe { rid: usize, tid: usize, via: Via, kind: u8, name: String, unit: Option<Unit>, desc: String },
    /// register (and update through the fresh handle); `keep` = remember the handle
    Reg { rid: usize, tid: usize, via: Via, kind: u8, key: KeyUse, upd: Upd, keep: bool, meta: u8 },
    /// update through the `h`-th remembered handle (modulo the number of handles), on thread `tid` with
    /// recorder `other` (if any) installed locally
    Handle { h: usize, tid: usize, other: Option<usize>, upd_seed: u64 },
    Snapshot { rid: usize, tid: usize, map: bool },
    /// a tree of scopes and calls executed on thread `tid` in one go
    Tree { tid: usize, items: Vec<Item> },
}

/// one statement of a scope tree
#[derive(Clone, Debug)]
enum Item {
    /// `describe_*!` (or the trait method through `with_recorder`): reaches the current recorder
    Desc { mac: bool, kind: u8, name: String, unit: Option<Unit>, desc: String },
    /// `counter!/gauge!/histogram!` (or the trait method through `with_recorder`) + update through the fresh handle
    Reg { mac: bool, meta: u8, kind: u8, key: KeyUse, upd: Upd },
    /// `with_local_recorder(&rec, || body)` (`guard` = false) or `{ let _g = set_default_local_recorder(&rec); body }`;
    /// `panics`: 0 = the body returns, 1 = `panic_any`, 2 = `resume_unwind`, 3 = `panic!` at the end of the body;
    /// `catch_here`: a `catch_unwind` sits directly around this scope (else the unwinding goes on through the
    /// enclosing scopes up to the next one that catches, at the latest the root of the tree)
    Scope { rid: usize, guard: bool, body: Vec<Item>, panics: u8, catch_here: bool },
    /// `Snapshotter::snapshot()` of recorder `rid` (direct, whatever scope is open)
    Snap { rid: usize },
    /// what does `with_recorder` find right now?
    Probe,
}

/// what happened while a tree ran, in order (turned into op lines and tally updates by the harness thread)
enum Ev {
    Enter(usize),
    Exit(bool),
    Target(usize),
    Desc { reached: usize, kind: u8, name: String, unit: Option<Unit>, desc: String },
    Reg { reached: usize, kind: u8, key: KeyUse, upd: Upd },
    Snap { rid: usize, snap: Snap },
}

/// payload of the panics raised on purpose
struct ScopePanic;
const PANIC_MSG: &str = "c19 scope panic";

fn quiet_scope_panics() {
    static ONCE: std::sync::Once = std::sync::Once::new();
    ONCE.call_once(|| {
        let prev = std::panic::take_hook();
        std::panic::set_hook(Box::new(move |info| {
            let p = info.payload();
            if p.is::<ScopePanic>() || p.downcast_ref::<&str>().map(|s| *s == PANIC_MSG).unwrap_or(false) {
                return;
            }
            prev(info)
        }));
    });
}

/// address of the recorder `with_recorder` hands out on this thread right now
fn probe() -> usize {
    metrics::with_recorder(|r| r as *const dyn Recorder as *const () as usize)
}

struct Cx {
    recs: Vec<Arc<DebuggingRecorder>>, // 0..nrec-1, then the decoy
    snaps: Vec<Snapshotter>,
    gsnap: Snapshotter,
    evs: Vec<Ev>,
}

fn raise(kind: u8) {
    match kind {
        0 => {}
        1 => std::panic::panic_any(ScopePanic),
        2 => std::panic::resume_unwind(Box::new(ScopePanic)),
        _ => panic!("c19 scope panic"),
    }
}

fn run_items(cx: &mut Cx, items: &[Item]) {
    use std::panic::{catch_unwind, resume_unwind, AssertUnwindSafe};
    for it in items {
        match it {
            Item::Desc { mac, kind, name, unit, desc } => {
                let reached = probe();
                if *mac {
                    match (*kind, *unit) {
                        (0, Some(u)) => metrics::describe_counter!(name.to_string(), u, desc.to_string()),
                        (0, None) => metrics::describe_counter!(name.to_string(), desc.to_string()),
                        (1, Some(u)) => metrics::describe_gauge!(name.to_string(), u, desc.to_string()),
                        (1, None) => metrics::describe_gauge!(name.to_string(), desc.to_string()),
                        (_, Some(u)) => metrics::describe_histogram!(name.to_string(), u, desc.to_string()),
                        (_, None) => metrics::describe_histogram!(name.to_string(), desc.to_string()),
                    }
                } else {
                    let kn = KeyName::from(name.to_string());
                    let d = SharedString::from(desc.to_string());
                    metrics::with_recorder(|r| match kind {
                        0 => r.describe_counter(kn, *unit, d),
                        1 => r.describe_gauge(kn, *unit, d),
                        _ => r.describe_histogram(kn, *unit, d),
                    });
                }
                cx.evs.push(Ev::Desc { reached, kind: *kind, name: name.clone(), unit: *unit, desc: desc.clone() });
            }
            Item::Reg { mac, meta, kind, key, upd } => {
                let reached = probe();
                let h = if *mac {
                    register_macro(*kind, key, *meta)
                } else {
                    let k = build_key(key);
                    let m = &METAS[*meta as usize % N_META];
                    metrics::with_recorder(|r| match kind {
                        0 => H::C(r.register_counter(&k, m)),
                        1 => H::G(r.register_gauge(&k, m)),
                        _ => H::H(r.register_histogram(&k, m)),
                    })
                };
                apply(&h, upd);
                cx.evs.push(Ev::Reg { reached, kind: *kind, key: key.clone(), upd: upd.clone() });
            }
            Item::Scope { rid, guard, body, panics, catch_here } => {
                cx.evs.push(Ev::Enter(*rid));
                let rec = cx.recs[*rid].clone();
                let res = catch_unwind(AssertUnwindSafe(|| {
                    if *guard {
                        let _g = metrics::set_default_local_recorder(&*rec);
                        run_items(cx, body);
                        raise(*panics);
                    } else {
                        metrics::with_local_recorder(&*rec, || {
                            run_items(cx, body);
                            raise(*panics);
                        })
                    }
                }));
                cx.evs.push(Ev::Exit(res.is_err()));
                cx.evs.push(Ev::Target(probe()));
                if let Err(p) = res {
                    if !*catch_here {
                        resume_unwind(p);
                    }
                }
            }
            Item::Snap { rid } => {
                let s = if *rid == GLOBAL { cx.gsnap.clone() } else { cx.snaps[*rid].clone() };
                cx.evs.push(Ev::Snap { rid: *rid, snap: s.snapshot().into_vec() });
            }
            Item::Probe => cx.evs.push(Ev::Target(probe())),
        }
    }
}

/// the macro forms: plain, `level:`, `target:`, `target: …, level: …` (the metadata is a static of the call site)
fn register_macro(kind: u8, ku: &KeyUse, form: u8) -> H {
    let labels: Vec<Label> = ku.labels.iter().map(|(k, v)| Label::new(k.clone(), v.clone())).collect();
    let name = ku.name.clone();
    match (kind, form % 4) {
        (0, 0) => H::C(metrics::counter!(name, labels)),
        (0, 1) => H::C(metrics::counter!(level: metrics::Level::TRACE, name, labels)),
        (0, 2) => H::C(metrics::counter!(target: "c19::elsewhere", name, labels)),
        (0, _) => H::C(metrics::counter!(target: "", level: metrics::Level::ERROR, name, labels)),
        (1, 0) => H::G(metrics::gauge!(name, labels)),
        (1, 1) => H::G(metrics::gauge!(level: metrics::Level::DEBUG, name, labels)),
        (1, 2) => H::G(metrics::gauge!(target: "c19::elsewhere", name, labels)),
        (1, _) => H::G(metrics::gauge!(target: "", level: metrics::Level::WARN, name, labels)),
        (_, 0) => H::H(metrics::histogram!(name, labels)),
        (_, 1) => H::H(metrics::histogram!(level: metrics::Level::TRACE, name, labels)),
        (_, 2) => H::H(metrics::histogram!(target: "c19::elsewhere", name, labels)),
        (_, _) => H::H(metrics::histogram!(target: "", level: metrics::Level::ERROR, name, labels)),
    }
}

/// process-wide state: the workers, and the global recorder (one per process) with its tally
struct World {
    workers: Workers,
    gsnap: Snapshotter,
    gtally: Tally,
    gptr: usize,
    noop: usize,
}

fn leak(s: &str) -> &'static str {
    Box::leak(s.to_string().into_boxed_str())
}

fn build_key(u: &KeyUse) -> Key {
    let owned = |ls: &[(String, String)]| -> Vec<Label> {
        ls.iter().map(|(k, v)| Label::new(k.clone(), v.clone())).collect()
    };
    let leaked = |ls: &[(String, String)]| -> &'static [Label] {
        let v: Vec<Label> = ls.iter().map(|(k, v)| Label::from_static_parts(leak(k), leak(v))).collect();
        Box::leak(v.into_boxed_slice())
    };
    match u.variant % 8 {
        0 => Key::from_parts(u.name.clone(), owned(&u.labels)),
        1 => Key::from_static_parts(leak(&u.name), leaked(&u.labels)),
        2 => {
            let cut = u.labels.len() / 2;
            Key::from_parts(u.name.clone(), owned(&u.labels[..cut])).with_extra_labels(owned(&u.labels[cut..]))
        }
        3 => Key::from_static_labels(u.name.clone(), leaked(&u.labels)),
        4 => {
            let k = Key::from_parts(u.name.clone(), owned(&u.labels));
            let _ = k.get_hash(); // hash cached before the clone
            k.clone()
        }
        5 => Key::from_name(u.name.clone()).with_extra_labels(owned(&u.labels)),
        6 => {
            if u.labels.is_empty() {
                Key::from_static_name(leak(&u.name))
            } else {
                Key::from_parts(leak(&u.name), &u.labels)
            }
        }
        _ => {
            let k = Key::from_static_parts(leak(&u.name), leaked(&u.labels));
            k.clone()
        }
    }
}

fn kind_tok(k: u8) -> &'static str {
    ["c", "g", "h"][k as usize]
}
fn kind_of(k: MetricKind) -> u8 {
    match k {
        MetricKind::Counter => 0,
        MetricKind::Gauge => 1,
        MetricKind::Histogram => 2,
    }
}

/// identity of a key for the tally: name and labels sorted by label name (label names are distinct)
fn canon_id(name: &str, labels: &[(String, String)]) -> String {
    let mut ls: Vec<(String, String)> = labels.to_vec();
    ls.sort();
    format!("{} {}", hexs(name), pairs(&ls))
}

// ---------------------------------------------------------------------------------------------
// the tally: what the property says a snapshot must show, kept independently of the model

#[derive(Default)]
struct Tally {
    order: Vec<(u8, String)>,
    counters: HashMap<String, u64>,
    gauges: HashMap<String, f64>,
    pending: HashMap<String, Vec<u64>>,
    recorded: HashMap<String, Vec<u64>>,
    delivered: HashMap<String, Vec<u64>>,
    meta: HashMap<(u8, String), (Option<Unit>, String)>,
}

impl Tally {
    fn register(&mut self, kind: u8, id: &str) {
        if !self.order.iter().any(|(k, i)| *k == kind && i == id) {
            self.order.push((kind, id.to_string()));
        }
        match kind {
            0 => {
                self.counters.entry(id.to_string()).or_insert(0);
            }
            1 => {
                self.gauges.entry(id.to_string()).or_insert(0.0);
            }
            _ => {
                self.pending.entry(id.to_string()).or_default();
                self.recorded.entry(id.to_string()).or_default();
                self.delivered.entry(id.to_string()).or_default();
            }
        }
    }
    fn update(&mut self, id: &str, upd: &Upd) {
        match upd {
            Upd::None => {}
            Upd::CInc(n) => {
                let c = self.counters.get_mut(id).unwrap();
                *c = c.wrapping_add(*n);
            }
            Upd::CAbs(n) => {
                let c = self.counters.get_mut(id).unwrap();
                *c = (*c).max(*n);
            }
            Upd::GSet(v) => {
                self.gauges.insert(id.to_string(), *v);
            }
            Upd::GAdd(n) => {
                let g = self.gauges.get_mut(id).unwrap();
                if *n >= 0 {
                    *g += dy(*n);
                } else {
                    *g -= dy(-*n);
                }
            }
            Upd::HRec(vs) => {
                for v in vs {
                    self.pending.get_mut(id).unwrap().push(v.to_bits());
                    self.recorded.get_mut(id).unwrap().push(v.to_bits());
                }
            }
            Upd::HRecMany(v, n) => {
                for _ in 0..*n {
                    self.pending.get_mut(id).unwrap().push(v.to_bits());
                    self.recorded.get_mut(id).unwrap().push(v.to_bits());
                }
            }
        }
    }
    fn describe(&mut self, kind: u8, name: &str, unit: Option<Unit>, desc: &str) {
        // the property's rule: description = most recent; unit = most recent one given
        let e = self.meta.entry((kind, name.to_string())).or_insert((None, String::new()));
        if unit.is_some() {
            e.0 = unit;
        }
        e.1 = desc.to_string();
    }
}

type Snap = Vec<(CompositeKey, Option<Unit>, Option<SharedString>, DebugValue)>;

fn labels_of(k: &Key) -> Vec<(String, String)> {
    k.labels().map(|l| (l.key().to_string(), l.value().to_string())).collect()
}

fn entry_tok(e: &(CompositeKey, Option<Unit>, Option<SharedString>, DebugValue)) -> String {
    let (ck, unit, desc, value) = e;
    let v = match value {
        DebugValue::Counter(n) => format!("c{}", n),
        DebugValue::Gauge(g) => val_tok(g.0),
        DebugValue::Histogram(vs) => {
            // in the order the snapshot shows them (sequential histories: the model's `blockOrder`)
            let t: Vec<String> = vs.iter().map(|x| val_tok(x.0)).collect();
            list(t)
        }
    };
    format!(
        "{}/{}/{}/{}/{}/{}",
        kind_tok(kind_of(ck.kind())),
        hexs(ck.key().name()),
        pairs(&labels_of(ck.key())),
        unit_tok(*unit),
        match desc {
            Some(d) => hexs(d),
            None => "~".to_string(),
        },
        v
    )
}

fn entries_tok(mut toks: Vec<String>, sorted: bool) -> String {
    if sorted {
        toks.sort();
    }
    if toks.is_empty() {
        "empty".to_string()
    } else {
        toks.join(";")
    }
}

/// the property, checked on one real snapshot against the tally (then the tally's pending values are
/// moved to `delivered`)
fn check_snapshot(out: &mut Out, t: &mut Tally, rid: usize, snap: &Snap, ordered: bool) {
    let got: Vec<(u8, String)> =
        snap.iter().map(|(ck, _, _, _)| (kind_of(ck.kind()), canon_id(ck.key().name(), &labels_of(ck.key())))).collect();
    if ordered {
        if got != t.order {
            out.oracle_fail(
                "snapshot does not list exactly the registered metrics in first-registration order",
                &format!("recorder {} got {:?} expected {:?}", rid, got, t.order),
            );
        }
    } else {
        let mut a = got.clone();
        let mut b = t.order.clone();
        a.sort();
        b.sort();
        if a != b {
            out.oracle_fail(
                "snapshot (hash map) does not hold exactly the registered metrics",
                &format!("recorder {} got {:?} expected {:?}", rid, a, b),
            );
        }
    }
    if snap.iter().any(|(ck, _, _, _)| ck.key().name() == "only-described") {
        out.oracle_fail("snapshot lists a metric that was only described", &format!("recorder {}", rid));
    }
    let mut seen_hist: Vec<String> = vec![];
    for ((ck, unit, desc, value), (kind, id)) in snap.iter().zip(got.iter()) {
        match value {
            DebugValue::Counter(n) => {
                if *kind != 0 || t.counters.get(id) != Some(n) {
                    out.oracle_fail(
                        "counter value differs from its state at snapshot time",
                        &format!("recorder {} {} got {} expected {:?}", rid, id, n, t.counters.get(id)),
                    );
                }
            }
            DebugValue::Gauge(g) => {
                let exp = t.gauges.get(id).map(|x| x.to_bits());
                if *kind != 1 || exp != Some(g.0.to_bits()) {
                    out.oracle_fail(
                        "gauge value differs from its state at snapshot time",
                        &format!("recorder {} {} got {:x} expected {:x?}", rid, id, g.0.to_bits(), exp),
                    );
                }
            }
            DebugValue::Histogram(vs) => {
                let mut a: Vec<u64> = vs.iter().map(|x| x.0.to_bits()).collect();
                a.sort();
                let mut b: Vec<u64> = t.pending.get(id).cloned().unwrap_or_default();
                b.sort();
                if *kind != 2 || a != b {
                    out.oracle_fail(
                        "histogram values are not exactly those recorded since the previous snapshot",
                        &format!("recorder {} {} got {} values expected {} (first got {:x?} first expected {:x?})",
                                 rid, id, a.len(), b.len(), a.first(), b.first()),
                    );
                }
                if seen_hist.contains(id) {
                    out.oracle_fail("histogram listed twice in one snapshot", &format!("recorder {} {}", rid, id));
                }
                seen_hist.push(id.clone());
                t.delivered.entry(id.clone()).or_default().extend(a);
                if let Some(p) = t.pending.get_mut(id) {
                    p.clear();
                }
            }
        }
        let exp = t.meta.get(&(*kind, ck.key().name().to_string()));
        let (eu, ed) = match exp {
            Some((u, d)) => (*u, Some(d.clone())),
            None => (None, None),
        };
        if *unit != eu {
            out.oracle_fail(
                "unit is not the most recent one given for that kind and name",
                &format!("recorder {} {} got {:?} expected {:?}", rid, id, unit, eu),
            );
        }
        if desc.as_ref().map(|d| d.to_string()) != ed {
            out.oracle_fail(
                "description is not the most recent one given for that kind and name",
                &format!("recorder {} {} got {:?} expected {:?}", rid, id, desc, ed),
            );
        }
    }
}

// ---------------------------------------------------------------------------------------------
// execution of one script

enum H {
    C(Counter),
    G(Gauge),
    H(Histogram),
}

struct Kept {
    rid: usize,
    kind: u8,
    key: KeyUse,
    h: Arc<H>,
}

fn key_tok(k: &KeyUse) -> String {
    format!("{} {}", hexs(&k.name), pairs(&k.labels))
}

fn upd_lines(rid: usize, tid: usize, kind: u8, key: &KeyUse, upd: &Upd) -> Vec<String> {
    let p = format!("debug {} {}", rid, tid);
    match upd {
        Upd::None => vec![format!("{} register {} {}", p, kind_tok(kind), key_tok(key))],
        Upd::CInc(n) => vec![format!("{} cinc {} {}", p, key_tok(key), n)],
        Upd::CAbs(n) => vec![format!("{} cabs {} {}", p, key_tok(key), n)],
        Upd::GSet(v) => vec![format!("{} gset {} {}", p, key_tok(key), val_tok(*v))],
        Upd::GAdd(n) => vec![format!("{} gadd {} {}", p, key_tok(key), n)],
        Upd::HRec(vs) => {
            if vs.is_empty() {
                vec![format!("{} register {} {}", p, kind_tok(kind), key_tok(key))]
            } else {
                vs.iter().map(|v| format!("{} hrec {} {}", p, key_tok(key), val_tok(*v))).collect()
            }
        }
        // one `record_many(v, n)` call on the real handle is `n` model records (0 → nothing but the registration)
        Upd::HRecMany(v, n) => {
            if *n == 0 {
                vec![format!("{} register {} {}", p, kind_tok(kind), key_tok(key))]
            } else {
                (0..*n).map(|_| format!("{} hrec {} {}", p, key_tok(key), val_tok(*v))).collect()
            }
        }
    }
}

fn apply(h: &H, upd: &Upd) {
    match (h, upd) {
        (_, Upd::None) => {}
        (H::C(c), Upd::CInc(n)) => c.increment(*n),
        (H::C(c), Upd::CAbs(n)) => c.absolute(*n),
        (H::G(g), Upd::GSet(v)) => g.set(*v),
        (H::G(g), Upd::GAdd(n)) => {
            if *n >= 0 {
                g.increment(dy(*n))
            } else {
                g.decrement(dy(-*n))
            }
        }
        (H::H(h), Upd::HRec(vs)) => {
            for v in vs {
                h.record(*v)
            }
        }
        (H::H(h), Upd::HRecMany(v, n)) => h.record_many(*v, *n),
        _ => panic!("update does not fit the handle"),
    }
}

fn register_via(rec: &DebuggingRecorder, via: Via, kind: u8, ku: &KeyUse, meta: u8) -> H {
    let m = &METAS[meta as usize % N_META];
    match via {
        Via::Direct => {
            let key = build_key(ku);
            match kind {
                0 => H::C(rec.register_counter(&key, m)),
                1 => H::G(rec.register_gauge(&key, m)),
                _ => H::H(rec.register_histogram(&key, m)),
            }
        }
        Via::Local => {
            let key = build_key(ku);
            metrics::with_local_recorder(rec, || {
                metrics::with_recorder(|r| match kind {
                    0 => H::C(r.register_counter(&key, m)),
                    1 => H::G(r.register_gauge(&key, m)),
                    _ => H::H(r.register_histogram(&key, m)),
                })
            })
        }
        Via::Macro => metrics::with_local_recorder(rec, || {
            // literal forms for two fixed keys, the expression form otherwise
            let lit1 = ku.name == "reqs" && ku.labels.len() == 1 && ku.labels[0] == ("host".to_string(), "a".to_string());
            let lit0 = ku.name == "lat" && ku.labels.is_empty();
            if !lit1 && !lit0 && meta % 4 != 0 {
                return register_macro(kind, ku, meta);
            }
            let labels: Vec<Label> = ku.labels.iter().map(|(k, v)| Label::new(k.clone(), v.clone())).collect();
            match kind {
                0 => H::C(if lit1 {
                    metrics::counter!("reqs", "host" => "a")
                } else if lit0 {
                    metrics::counter!("lat")
                } else {
                    metrics::counter!(ku.name.clone(), labels)
                }),
                1 => H::G(if lit1 {
                    metrics::gauge!("reqs", "host" => "a")
                } else if lit0 {
                    metrics::gauge!("lat")
                } else {
                    metrics::gauge!(ku.name.clone(), labels)
                }),
                _ => H::H(if lit1 {
                    metrics::histogram!("reqs", "host" => "a")
                } else if lit0 {
                    metrics::histogram!("lat")
                } else {
                    metrics::histogram!(ku.name.clone(), labels)
                }),
            }
        }),
    }
}

fn describe_via(rec: &DebuggingRecorder, via: Via, kind: u8, name: &str, unit: Option<Unit>, desc: &str) {
    let kn = || KeyName::from(name.to_string());
    let d = || SharedString::from(desc.to_string());
    match via {
        Via::Direct => match kind {
            0 => rec.describe_counter(kn(), unit, d()),
            1 => rec.describe_gauge(kn(), unit, d()),
            _ => rec.describe_histogram(kn(), unit, d()),
        },
        Via::Local => metrics::with_local_recorder(rec, || {
            metrics::with_recorder(|r| match kind {
                0 => r.describe_counter(kn(), unit, d()),
                1 => r.describe_gauge(kn(), unit, d()),
                _ => r.describe_histogram(kn(), unit, d()),
            })
        }),
        Via::Macro => metrics::with_local_recorder(rec, || match (kind, unit) {
            (0, Some(u)) => metrics::describe_counter!(name.to_string(), u, desc.to_string()),
            (0, None) => metrics::describe_counter!(name.to_string(), desc.to_string()),
            (1, Some(u)) => metrics::describe_gauge!(name.to_string(), u, desc.to_string()),
            (1, None) => metrics::describe_gauge!(name.to_string(), desc.to_string()),
            (_, Some(u)) => metrics::describe_histogram!(name.to_string(), u, desc.to_string()),
            (_, None) => metrics::describe_histogram!(name.to_string(), desc.to_string()),
        }),
    }
}

const WILD: [f64; 10] = [
    f64::NAN,
    f64::INFINITY,
    f64::NEG_INFINITY,
    -0.0,
    f64::MAX,
    f64::MIN_POSITIVE,
    5e-324,
    0.1,
    1e21,
    123456789.123456789,
];

fn is_dyadic(v: f64) -> bool {
    val_tok(v).starts_with('d')
}

/// name of the recorder at address `ptr` in the op stream
fn ptr_tok(ptr: usize, recs: &[Arc<DebuggingRecorder>], w: &World) -> String {
    for (i, r) in recs.iter().enumerate() {
        if Arc::as_ptr(r) as *const () as usize == ptr {
            return format!("r{}", i);
        }
    }
    if ptr == w.noop {
        "noop".to_string()
    } else if ptr == w.gptr {
        format!("r{}", GLOBAL)
    } else {
        format!("unknown@{:x}", ptr)
    }
}

fn snap_has_hist(snap: &Snap) -> bool {
    snap.iter().any(|e| matches!(&e.3, DebugValue::Histogram(v) if !v.is_empty()))
}

fn exec(out: &mut Out, w: &mut World, nrec: usize, script: &[G]) {
    // recorders 0..nrec-1, then the decoy (id nrec)
    let decoy_id = nrec;
    let recs: Vec<Arc<DebuggingRecorder>> = (0..nrec + 1).map(|_| Arc::new(DebuggingRecorder::new())).collect();
    let snaps: Vec<Snapshotter> = recs.iter().map(|r| r.snapshotter()).collect();
    let mut tallies: Vec<Tally> = (0..nrec + 1).map(|_| Tally::default()).collect();
    let decoy = recs[decoy_id].clone();
    let mut kept: Vec<Kept> = vec![];
    let mut n_snap = 0;
    let mut n_hist_snap = 0;
    let mut suspect = false;
    out.op(&format!("debug new {}", nrec + 1), "ok");
    out.op(&format!("debug sc 0 enter {}", decoy_id), "ok");
    metrics::with_local_recorder(&*decoy, || {
        for g in script {
            match g {
                G::Describe { rid, tid, via, kind, name, unit, desc } => {
                    let rec = recs[*rid].clone();
                    let (via2, kind2, name2, unit2, desc2) = (*via, *kind, name.clone(), *unit, desc.clone());
                    w.workers.on(*tid, move || describe_via(&rec, via2, kind2, &name2, unit2, &desc2));
                    let t = &mut tallies[*rid];
                    t.describe(*kind, name, *unit, desc);
                    out.op(
                        &format!("debug {} {} describe {} {} {} {}", rid, tid, kind_tok(*kind), hexs(name), unit_tok(*unit), hexs(desc)),
                        "ok",
                    );
                    out.count(&format!("op.describe.unit={}", unit.is_some()));
                    out.count(&format!("via.{:?}", via));
                }
                G::Reg { rid, tid, via, kind, key, upd, keep, meta } => {
                    let rec = recs[*rid].clone();
                    let id = canon_id(&key.name, &key.labels);
                    // arithmetic only on gauges whose current value is an exact dyadic (IEEE rounding is not modelled)
                    let upd = &match upd {
                        Upd::GAdd(n) if !tallies[*rid].gauges.get(&id).map(|v| is_dyadic(*v)).unwrap_or(true) => Upd::GSet(dy(*n)),
                        u => u.clone(),
                    };
                    let (via2, kind2, key2, upd2, meta2) = (*via, *kind, key.clone(), upd.clone(), *meta);
                    let h = w.workers.on(*tid, move || {
                        let h = register_via(&rec, via2, kind2, &key2, meta2);
                        apply(&h, &upd2);
                        Arc::new(h)
                    });
                    let t = &mut tallies[*rid];
                    t.register(*kind, &id);
                    t.update(&id, upd);
                    for l in upd_lines(*rid, *tid, *kind, key, upd) {
                        out.op(&l, "ok");
                    }
                    if *keep {
                        kept.push(Kept { rid: *rid, kind: *kind, key: key.clone(), h });
                    }
                    out.count(&format!("op.reg.{}.{}", kind_tok(*kind), match upd {
                        Upd::None => "only",
                        Upd::CInc(_) => "inc",
                        Upd::CAbs(_) => "abs",
                        Upd::GSet(_) => "set",
                        Upd::GAdd(_) => "add",
                        Upd::HRec(v) if v.len() > 64 => "burst",
                        Upd::HRec(_) => "rec",
                        Upd::HRecMany(_, n) if *n > 64 => "record_many>64",
                        Upd::HRecMany(_, _) => "record_many",
                    }));
                    out.count(&format!("via.{:?}", via));
                    out.count(&format!("key.variant{}", key.variant % 8));
                    out.count(&format!("meta.{}", meta % N_META as u8));
                }
                G::Handle { h, tid, other, upd_seed } => {
                    if kept.is_empty() {
                        continue;
                    }
                    let i = *h % kept.len();
                    let mut r = Rng::new(*upd_seed);
                    let k = &mut kept[i];
                    // is the gauge currently at a value that may be used arithmetically?
                    let id = canon_id(&k.key.name, &k.key.labels);
                    let g_ok = k.kind != 1 || tallies[k.rid].gauges.get(&id).map(|v| is_dyadic(*v)).unwrap_or(true);
                    let upd = gen_upd(&mut r, k.kind, g_ok, false);
                    let handle = k.h.clone();
                    let upd2 = upd.clone();
                    let other_rec = other.map(|o| recs[o % nrec].clone());
                    w.workers.on(*tid, move || match other_rec {
                        Some(o) => metrics::with_local_recorder(&*o, || apply(&handle, &upd2)),
                        None => apply(&handle, &upd2),
                    });
                    let (rid, kind, key) = (k.rid, k.kind, k.key.clone());
                    tallies[rid].update(&id, &upd);
                    for l in upd_lines(rid, *tid, kind, &key, &upd) {
                        out.op(&l, "ok");
                    }
                    out.count("op.handle");
                }
                G::Snapshot { rid, tid, map } => {
                    let s = snaps[*rid].clone();
                    let as_map = *map;
                    let snap: Snap = w.workers.on(*tid, move || {
                        if as_map {
                            // order is lost in the hash map; compared sorted
                            s.snapshot().into_hashmap().into_iter().map(|(k, (u, d, v))| (k, u, d, v)).collect()
                        } else {
                            s.snapshot().into_vec()
                        }
                    });
                    n_snap += 1;
                    if snap_has_hist(&snap) {
                        n_hist_snap += 1;
                    }
                    let toks: Vec<String> = snap.iter().map(entry_tok).collect();
                    check_snapshot(out, &mut tallies[*rid], *rid, &snap, !as_map);
                    if as_map {
                        out.op(&format!("debug {} {} snapshotmap", rid, tid), &entries_tok(toks, true));
                        out.count("op.snapshot.map");
                    } else {
                        out.op(&format!("debug {} {} snapshot", rid, tid), &entries_tok(toks, false));
                        out.count("op.snapshot.vec");
                    }
                }
                G::Tree { tid, items } => {
                    let mut cx = Cx { recs: recs.clone(), snaps: snaps.clone(), gsnap: w.gsnap.clone(), evs: vec![] };
                    let items2 = items.clone();
                    let evs = w.workers.on(*tid, move || {
                        // an unwinding that no scope of the tree catches ends here
                        let _ = std::panic::catch_unwind(std::panic::AssertUnwindSafe(|| run_items(&mut cx, &items2)));
                        cx.evs.push(Ev::Target(probe()));
                        cx.evs
                    });
                    out.count("op.tree");
                    // the harness's own account of the open scopes of this thread (innermost last); outside all of
                    // them: the decoy on the harness thread, the global recorder elsewhere
                    let base = if *tid == 0 { decoy_id } else { GLOBAL };
                    let mut stack: Vec<usize> = vec![];
                    let mut unwound = false;
                    let n_evs = evs.len();
                    for (ei, ev) in evs.into_iter().enumerate() {
                        let expected = *stack.last().unwrap_or(&base);
                        let exp_tok = format!("r{}", expected);
                        match ev {
                            Ev::Enter(rid) => {
                                stack.push(rid);
                                out.op(&format!("debug sc {} enter {}", tid, rid), "ok");
                                out.count(&format!("scope.depth={}", stack.len()));
                            }
                            Ev::Exit(unw) => {
                                stack.pop();
                                unwound |= unw;
                                out.op(&format!("debug sc {} exit {}", tid, unw as u8), "ok");
                                out.count(&format!("scope.exit.unwinding={}", unw));
                            }
                            Ev::Target(ptr) => {
                                let got = ptr_tok(ptr, &recs, w);
                                out.op(&format!("debug sc {} target", tid), &got);
                                if got != exp_tok {
                                    suspect = true;
                                    out.oracle_fail(
                                        "the thread's current recorder is not the one of its innermost open scope",
                                        &format!(
                                            "thread {}: with_recorder finds {} expected {} (open scopes {:?}, a scope was left by unwinding before: {})",
                                            tid, got, exp_tok, stack, unwound
                                        ),
                                    );
                                    if ei + 1 == n_evs && *tid != 0 {
                                        // the worker's thread-local is stale: never let it dangle, never reuse the thread
                                        std::mem::forget(recs.clone());
                                        w.workers.replace(*tid);
                                    }
                                }
                            }
                            Ev::Desc { reached, kind, name, unit, desc } => {
                                let got = ptr_tok(reached, &recs, w);
                                out.op(
                                    &format!("debug sc {} cur describe {} {} {} {}", tid, kind_tok(kind), hexs(&name), unit_tok(unit), hexs(&desc)),
                                    &got,
                                );
                                if got != exp_tok {
                                    suspect = true;
                                    out.oracle_fail(
                                        "a describe call made inside a local-recorder scope reached another recorder",
                                        &format!("thread {}: reached {} expected {} (open scopes {:?}, unwound before: {})", tid, got, exp_tok, stack, unwound),
                                    );
                                }
                                let t = if expected == GLOBAL { &mut w.gtally } else { &mut tallies[expected] };
                                t.describe(kind, &name, unit, &desc);
                                out.count("tree.describe");
                            }
                            Ev::Reg { reached, kind, key, upd } => {
                                let got = ptr_tok(reached, &recs, w);
                                let lines = upd_lines(0, 0, kind, &key, &upd);
                                for (li, l) in lines.iter().enumerate() {
                                    // "debug 0 0 <op…>" → "debug sc <tid> cur <op…>"
                                    let rest = l.splitn(4, ' ').nth(3).unwrap();
                                    let _ = li;
                                    out.op(&format!("debug sc {} cur {}", tid, rest), &got);
                                }
                                if got != exp_tok {
                                    suspect = true;
                                    out.oracle_fail(
                                        "a metric registered inside a local-recorder scope reached another recorder",
                                        &format!("thread {}: reached {} expected {} (open scopes {:?}, unwound before: {})", tid, got, exp_tok, stack, unwound),
                                    );
                                }
                                let id = canon_id(&key.name, &key.labels);
                                let t = if expected == GLOBAL { &mut w.gtally } else { &mut tallies[expected] };
                                t.register(kind, &id);
                                t.update(&id, &upd);
                                out.count(&format!("tree.reg.to.{}", if expected == GLOBAL { "global" } else if expected == decoy_id { "decoy" } else { "local" }));
                            }
                            Ev::Snap { rid, snap } => {
                                n_snap += 1;
                                if snap_has_hist(&snap) {
                                    n_hist_snap += 1;
                                }
                                let toks: Vec<String> = snap.iter().map(entry_tok).collect();
                                let t = if rid == GLOBAL { &mut w.gtally } else { &mut tallies[rid] };
                                check_snapshot(out, t, rid, &snap, true);
                                out.op(&format!("debug {} {} snapshot", rid, tid), &entries_tok(toks, false));
                                out.count("tree.snapshot");
                            }
                        }
                    }
                }
            }
        }
        // final snapshots: everything recorded must have been delivered exactly once; the decoy (last) shows only
        // what the harness thread called outside any other scope
        for rid in 0..nrec + 1 {
            let snap: Snap = snaps[rid].snapshot().into_vec();
            let toks: Vec<String> = snap.iter().map(entry_tok).collect();
            check_snapshot(out, &mut tallies[rid], rid, &snap, true);
            out.op(&format!("debug {} 0 snapshot", rid), &entries_tok(toks, false));
            check_delivered(out, &tallies[rid], rid);
        }
        // the global recorder: only what was called outside every local scope on the worker threads
        {
            let snap: Snap = w.gsnap.snapshot().into_vec();
            let toks: Vec<String> = snap.iter().map(entry_tok).collect();
            check_snapshot(out, &mut w.gtally, GLOBAL, &snap, true);
            out.op(&format!("debug {} 0 snapshot", GLOBAL), &entries_tok(toks, false));
            check_delivered(out, &w.gtally, GLOBAL);
            // the global recorder outlives the case: start the next one with empty accounts
            w.gtally.recorded.values_mut().for_each(|v| v.clear());
            w.gtally.delivered.values_mut().for_each(|v| v.clear());
        }
    });
    out.op("debug sc 0 exit 0", "ok");
    let after = ptr_tok(probe(), &recs, w);
    out.op("debug sc 0 target", &after);
    if after != format!("r{}", GLOBAL) {
        out.oracle_fail(
            "after the decoy's scope the harness thread's recorder is not the global one",
            &format!("with_recorder finds {}", after),
        );
    }
    if suspect {
        // a thread-local may still point at one of these recorders
        std::mem::forget(recs.clone());
    }
    if n_snap >= 2 && n_hist_snap >= 1 {
        out.nontrivial();
    }
}

fn check_delivered(out: &mut Out, t: &Tally, rid: usize) {
    for (id, rec) in &t.recorded {
        let mut a = rec.clone();
        a.sort();
        let mut b = t.delivered.get(id).cloned().unwrap_or_default();
        b.sort();
        if a != b {
            out.oracle_fail(
                "histogram values recorded and values delivered over all snapshots differ (lost or repeated)",
                &format!("recorder {} {} recorded {} delivered {}", rid, id, a.len(), b.len()),
            );
        }
    }
}

// ---------------------------------------------------------------------------------------------
// generator

fn gen_upd(r: &mut Rng, kind: u8, gauge_arith_ok: bool, allow_none: bool) -> Upd {
    match kind {
        0 => {
            if allow_none && r.chance(1, 8) {
                Upd::None
            } else if r.chance(4, 5) {
                Upd::CInc(*r.pick(&[0u64, 1, 2, 7, 1000, u64::MAX, u64::MAX - 1, 1 << 63]))
            } else {
                Upd::CAbs(*r.pick(&[0u64, 5, 100, u64::MAX, 1 << 40]))
            }
        }
        1 => {
            if allow_none && r.chance(1, 8) {
                Upd::None
            } else if r.chance(1, 6) {
                Upd::GSet(*r.pick(&WILD))
            } else if !gauge_arith_ok || r.chance(1, 2) {
                Upd::GSet(dy(r.range(0, 1 << 21) as i64 - (1 << 20)))
            } else {
                Upd::GAdd(r.range(0, 1 << 21) as i64 - (1 << 20))
            }
        }
        _ => {
            if allow_none && r.chance(1, 8) {
                Upd::None
            } else if r.chance(1, 5) {
                // ONE record_many call: counts around the bucket's block size, zero, and several blocks
                let v = if r.chance(1, 10) { *r.pick(&WILD) } else { dy(r.range(0, 40) as i64 * 512 - 4096) };
                Upd::HRecMany(v, *r.pick(&[0usize, 1, 2, 3, 7, 63, 64, 65, 128, 129, 200]))
            } else {
                let n = match r.weighted(&[6, 3, 2]) {
                    0 => 1,
                    1 => r.range(2, 10),
                    _ => r.range(60, 200),
                };
                let mut vs = vec![];
                for _ in 0..n {
                    if r.chance(1, 12) {
                        vs.push(*r.pick(&WILD));
                    } else {
                        // few distinct values, so repeated values occur (multiset, not set)
                        vs.push(dy(r.range(0, 40) as i64 * 512 - 4096));
                    }
                }
                Upd::HRec(vs)
            }
        }
    }
}

/// keys used for calls that reach the global recorder (it lives as long as the process: keep its key set small)
const GLOBAL_NAMES: [&str; 2] = ["g.reqs", "g.lat"];

/// statements of a scope (or of the root of a tree: `depth` 0); `to_global`: calls made here reach the global
/// recorder (root of a tree on a worker thread)
fn gen_items(r: &mut Rng, nrec: usize, names: &[String], pool: &[(String, Vec<(String, String)>)], depth: usize, to_global: bool) -> Vec<Item> {
    let descs = ["in scope", "", "x\\y\n", "second"];
    let n = if depth == 0 { r.range(2, 6) } else { r.range(0, 4) };
    let mut items = vec![];
    for _ in 0..n {
        match r.weighted(&[6, 2, if depth < 3 { 5 } else { 0 }, 2, 1]) {
            0 => {
                let kind = r.below(3) as u8;
                let (name, mut labels) = if to_global {
                    let l = match r.below(3) {
                        0 => vec![],
                        1 => vec![("host".to_string(), "a".to_string())],
                        _ => vec![("zone".to_string(), "".to_string()), ("host".to_string(), "b".to_string())],
                    };
                    (r.pick_str(&GLOBAL_NAMES).to_string(), l)
                } else {
                    pool[r.below(pool.len())].clone()
                };
                for i in (1..labels.len()).rev() {
                    labels.swap(i, r.below(i + 1));
                }
                let key = KeyUse { name, labels, variant: r.below(8) as u8 };
                // no gauge arithmetic in trees (the receiving recorder's gauge may hold a non-dyadic value)
                let upd = match gen_upd(r, kind, false, true) {
                    Upd::HRec(v) if to_global && v.len() > 20 => Upd::HRec(v[..20].to_vec()),
                    Upd::HRecMany(v, n) if to_global && n > 20 => Upd::HRecMany(v, 20),
                    u => u,
                };
                items.push(Item::Reg { mac: r.chance(2, 3), meta: r.below(N_META) as u8, kind, key, upd });
            }
            1 => {
                let name = if to_global { r.pick_str(&GLOBAL_NAMES).to_string() } else { names[r.below(names.len())].clone() };
                let unit = if r.chance(1, 2) { Some(*r.pick(&UNITS)) } else { None };
                items.push(Item::Desc { mac: r.chance(2, 3), kind: r.below(3) as u8, name, unit, desc: r.pick_str(&descs).to_string() });
            }
            2 => {
                let body = gen_items(r, nrec, names, pool, depth + 1, false);
                // also the decoy (id nrec) now and then: the same recorder entered again below itself
                let rid = if r.chance(1, 10) { nrec } else { r.below(nrec) };
                items.push(Item::Scope {
                    rid,
                    guard: r.chance(1, 3),
                    body,
                    panics: r.weighted(&[5, 2, 1, 1]) as u8,
                    catch_here: r.chance(2, 3),
                });
            }
            3 => items.push(Item::Snap { rid: if r.chance(1, 5) { GLOBAL } else { r.below(nrec + 1) } }),
            _ => items.push(Item::Probe),
        }
    }
    items
}

fn gen_script(r: &mut Rng, out: &mut Out) -> (usize, usize, Vec<G>) {
    let nrec = r.range(1, 3);
    let nthreads = r.range(1, 3);
    // key pool: few names (shared across kinds), few label sets with distinct label names
    let names_all = ["reqs", "lat", "a", "Ünï x\n/;", ""];
    let nnames = r.range(1, 3);
    let names: Vec<String> = (0..nnames).map(|_| r.pick_str(&names_all).to_string()).collect();
    // a quarter of the scripts use a WIDE pool: 6-16 names (long ones, names that differ in their last byte only), up to
    // 9 labels per key out of 12 label names, label values of 9-48 bytes — whatever `snapshot` does per entry (metadata
    // look-up by kind and name, key look-up in the handle maps) meets keys that do not fit small fixed-size shortcuts
    let wide = r.chance(1, 4);
    let mut names = names;
    let lnames_small = ["host", "code", "zone", "é"];
    let lnames_wide = ["host", "code", "zone", "é", "l4", "l5", "region.with.a.long.label.name", "l7", "L7", "_", "ü8", "l9"];
    let lvals_small = ["a", "b", "", "x:y,z"];
    let lvals_wide = [
        "a", "", "x:y,z", "123456789", "a-label-value-longer-than-a-word", "ünïcödé välüé with blanks",
        "0123456789abcdef0123456789abcdef0123456789abcdef", "123456788",
    ];
    if wide {
        out.count("cfg.wide-key-pool");
        names.clear();
        let stem = *r.pick(&["m", "requests.duration.by.handler.and.status.total", "Ünï x\n/;"]);
        for i in 0..r.range(6, 16) {
            names.push(format!("{}{}", stem, i));
        }
    }
    let lnames: &[&str] = if wide { &lnames_wide } else { &lnames_small };
    let lvals: &[&str] = if wide { &lvals_wide } else { &lvals_small };
    let mut pool: Vec<(String, Vec<(String, String)>)> = vec![];
    for _ in 0..(if wide { r.range(6, 14) } else { r.range(2, 5) }) {
        let name = names[r.below(names.len())].clone();
        let mut ls: Vec<(String, String)> = vec![];
        let nl = if wide { r.weighted(&[1, 1, 1, 1, 1, 2, 2, 1, 1, 1]) } else { r.weighted(&[3, 3, 3, 2, 1]) };
        let mut avail: Vec<&str> = lnames.to_vec();
        for _ in 0..nl.min(avail.len()) {
            let k = avail.remove(r.below(avail.len()));
            ls.push((k.to_string(), r.pick_str(lvals).to_string()));
        }
        if ls.len() >= 5 {
            out.count("key.labels>=5");
        }
        pool.push((name, ls));
    }
    if r.chance(1, 3) {
        pool.push(("reqs".to_string(), vec![("host".to_string(), "a".to_string())]));
        pool.push(("lat".to_string(), vec![]));
    }
    out.count(&format!("cfg.recorders={} threads={}", nrec, nthreads));
    let mut script = vec![];
    let nops = r.range(5, 60);
    let pick_via = |r: &mut Rng| *r.pick(&[Via::Direct, Via::Local, Via::Local, Via::Macro]);
    let descs = ["first", "second help", "", "x\\y\n", "ünï"];
    for _ in 0..nops {
        let rid = r.below(nrec);
        let tid = r.below(nthreads);
        match r.weighted(&[5, 14, 3, 4, 3]) {
            4 => {
                let items = gen_items(r, nrec, &names, &pool, 0, tid != 0);
                script.push(G::Tree { tid, items });
            }
            0 => {
                let kind = r.below(3) as u8;
                // sometimes a name that is never registered (described only)
                let name = if r.chance(1, 6) { "only-described".to_string() } else { names[r.below(names.len())].clone() };
                let unit = if r.chance(1, 2) { Some(*r.pick(&UNITS)) } else { None };
                script.push(G::Describe { rid, tid, via: pick_via(r), kind, name, unit, desc: r.pick_str(&descs).to_string() });
            }
            1 => {
                let kind = r.below(3) as u8;
                let (name, ls) = pool[r.below(pool.len())].clone();
                // a random permutation of the labels and a random way of building the key
                let mut labels = ls.clone();
                for i in (1..labels.len()).rev() {
                    labels.swap(i, r.below(i + 1));
                }
                let key = KeyUse { name, labels, variant: r.below(8) as u8 };
                let upd = gen_upd(r, kind, true, true);
                let meta = if r.chance(1, 2) { 0 } else { r.below(N_META) as u8 };
                script.push(G::Reg { rid, tid, via: pick_via(r), kind, key, upd, keep: r.chance(1, 3), meta });
            }
            2 => {
                let other = if r.chance(2, 3) { Some(r.below(nrec)) } else { None };
                script.push(G::Handle { h: r.below(1000), tid, other, upd_seed: r.next() });
            }
            _ => script.push(G::Snapshot { rid, tid, map: r.chance(1, 4) }),
        }
    }
    (nrec, nthreads, script)
}

fn ku(name: &str, labels: &[(&str, &str)], variant: u8) -> KeyUse {
    KeyUse { name: name.to_string(), labels: labels.iter().map(|(k, v)| (k.to_string(), v.to_string())).collect(), variant }
}

/// hand-picked scripts (the wording of the property, one after the other)
fn corpus() -> Vec<(usize, Vec<G>)> {
    let d = |rid, kind, name: &str, unit, desc: &str| G::Describe {
        rid,
        tid: 0,
        via: Via::Direct,
        kind,
        name: name.to_string(),
        unit,
        desc: desc.to_string(),
    };
    let snap = |rid| G::Snapshot { rid, tid: 0, map: false };
    let reg = |rid, tid, via, kind, key: KeyUse, upd| G::Reg { rid, tid, via, kind, key, upd, keep: true, meta: 0 };
    let ireg = |kind, name: &str, upd| Item::Reg { mac: true, meta: 0, kind, key: ku(name, &[], 0), upd };
    let scope = |rid, guard, body, panics, catch_here| Item::Scope { rid, guard, body, panics, catch_here };
    // many metrics, many descriptions, one long histogram: nothing depends on the sizes
    let mut big = vec![];
    for i in 0..90usize {
        let name = format!("big{}", i % 45);
        let labels = [("host", if i < 45 { "a" } else { "b" }), ("code", "200")];
        let kind = (i % 3) as u8;
        big.push(d(0, kind, &name, if i % 2 == 0 { Some(Unit::Count) } else { None }, &format!("help {}", i)));
        let upd = match kind {
            0 => Upd::CInc(i as u64),
            1 => Upd::GSet(dy(i as i64)),
            _ => Upd::HRec(vec![dy(i as i64)]),
        };
        big.push(G::Reg { rid: 0, tid: i % 3, via: Via::Direct, kind, key: ku(&name, &labels, (i % 8) as u8), upd, keep: false, meta: (i % 7) as u8 });
    }
    big.push(reg(0, 0, Via::Direct, 2, ku("long", &[], 0), Upd::HRec((0..1500).map(|i| dy(i % 97)).collect())));
    big.push(snap(0));
    big.push(reg(0, 0, Via::Direct, 2, ku("long", &[], 0), Upd::HRec((0..700).map(|i| dy(i)).collect())));
    big.push(G::Snapshot { rid: 0, tid: 1, map: true });
    big.push(snap(0));
    // scale: more metrics than any power-of-two bound up to 1024 would hold (1100 counters, the first and the last ones
    // updated again afterwards, every one described), one histogram fed by ONE record_many of 4200 values (66 blocks):
    // every metric listed, in first-registration order, the earliest ones included
    let mut scale: Vec<G> = vec![];
    for i in 0..1100usize {
        scale.push(reg(0, i % 3, Via::Direct, 0, ku(&format!("s{}", i), &[], (i % 8) as u8), Upd::CInc(i as u64)));
    }
    for i in [0usize, 1, 2, 1023, 1024, 1099] {
        scale.push(reg(0, 0, Via::Direct, 0, ku(&format!("s{}", i), &[], 3), Upd::CInc(1)));
        scale.push(d(0, 0, &format!("s{}", i), Some(Unit::Count), "scaled"));
    }
    scale.push(reg(0, 0, Via::Direct, 2, ku("s.hist", &[], 0), Upd::HRecMany(0.5, 4200)));
    scale.push(snap(0));
    scale.push(reg(0, 1, Via::Local, 2, ku("s.hist", &[], 1), Upd::HRecMany(0.25, 1)));
    scale.push(snap(0));
    vec![
        // description before registration; a later description without unit keeps the earlier unit
        (1, vec![
            d(0, 0, "reqs", Some(Unit::Seconds), "first"),
            snap(0),
            d(0, 0, "reqs", None, "second"),
            reg(0, 0, Via::Direct, 0, ku("reqs", &[], 0), Upd::CInc(1)),
            snap(0),
            d(0, 0, "reqs", Some(Unit::Bytes), "third"),
            d(0, 0, "reqs", None, ""),
            snap(0),
        ]),
        // the same name under three kinds, one described-only name, metadata per kind
        (1, vec![
            d(0, 1, "m", Some(Unit::Percent), "gauge m"),
            d(0, 2, "only-described", Some(Unit::Count), "never registered"),
            reg(0, 0, Via::Local, 2, ku("m", &[("host", "a")], 0), Upd::HRec(vec![1.0, 1.0, 2.5])),
            reg(0, 1, Via::Macro, 0, ku("m", &[("host", "a")], 0), Upd::CAbs(7)),
            reg(0, 2, Via::Direct, 1, ku("m", &[("host", "a")], 1), Upd::GSet(-0.0)),
            snap(0),
            G::Snapshot { rid: 0, tid: 1, map: true },
        ]),
        // equal keys built differently are one metric; shown as first registered
        (1, vec![
            reg(0, 0, Via::Direct, 0, ku("k", &[("b", "2"), ("a", "1"), ("c", "3")], 0), Upd::CInc(u64::MAX)),
            reg(0, 1, Via::Local, 0, ku("k", &[("a", "1"), ("c", "3"), ("b", "2")], 1), Upd::CInc(2)),
            reg(0, 2, Via::Macro, 0, ku("k", &[("c", "3"), ("b", "2"), ("a", "1")], 0), Upd::CAbs(5)),
            reg(0, 0, Via::Direct, 0, ku("k", &[("a", "1"), ("b", "2"), ("c", "3")], 2), Upd::None),
            reg(0, 0, Via::Direct, 0, ku("k", &[("a", "1"), ("b", "2"), ("c", "4")], 5), Upd::CInc(9)),
            snap(0),
        ]),
        // bursts that span bucket blocks; every value in exactly one snapshot
        (1, vec![
            reg(0, 0, Via::Direct, 2, ku("lat", &[], 6), Upd::HRec((0..130).map(|i| dy(i * 3)).collect())),
            snap(0),
            reg(0, 1, Via::Macro, 2, ku("lat", &[], 0), Upd::HRec(vec![f64::NAN, 0.5, 0.5])),
            G::Handle { h: 0, tid: 2, other: None, upd_seed: 7 },
            snap(0),
            snap(0),
            reg(0, 0, Via::Local, 2, ku("lat", &[], 4), Upd::HRec((0..64).map(|i| dy(i)).collect())),
            reg(0, 0, Via::Local, 2, ku("lat", &[], 4), Upd::HRec(vec![dy(64)])),
            snap(0),
        ]),
        // ONE record_many call per line (the path `impl HistogramFn for AtomicBucket<f64>`, metrics-util/src/storage/mod.rs):
        // counts of zero, one, just below / at / above the block size, several blocks, mixed with single records,
        // through all three ways of reaching the recorder; every value exactly as often as the count says
        (1, vec![
            reg(0, 0, Via::Direct, 2, ku("many", &[], 0), Upd::HRecMany(0.5, 0)),
            snap(0),
            reg(0, 0, Via::Direct, 2, ku("many", &[], 1), Upd::HRecMany(0.25, 1)),
            reg(0, 1, Via::Local, 2, ku("many", &[], 2), Upd::HRecMany(1.5, 63)),
            reg(0, 1, Via::Local, 2, ku("many", &[], 2), Upd::HRec(vec![2.5])),
            snap(0),
            reg(0, 2, Via::Macro, 2, ku("many", &[], 3), Upd::HRecMany(3.0, 64)),
            snap(0),
            reg(0, 0, Via::Macro, 2, ku("many", &[("host", "a")], 4), Upd::HRecMany(4.0, 65)),
            reg(0, 0, Via::Direct, 2, ku("many", &[], 5), Upd::HRecMany(f64::INFINITY, 2)),
            reg(0, 0, Via::Direct, 2, ku("many", &[], 6), Upd::HRecMany(5.0, 200)),
            snap(0),
            snap(0),
        ]),
        (1, big),
        (1, scale),
        // a scope left by unwinding (panic caught on the same thread) gives the enclosing scope's recorder back:
        // what is registered afterwards belongs to the enclosing recorder / the decoy / the global recorder
        (2, vec![
            G::Tree { tid: 0, items: vec![
                scope(0, false, vec![
                    ireg(0, "outer.before", Upd::CInc(1)),
                    scope(1, false, vec![ireg(0, "inner", Upd::CInc(2))], 1, true),
                    ireg(0, "outer.after", Upd::CInc(3)),
                    scope(1, true, vec![ireg(2, "inner", Upd::HRec(vec![1.0]))], 3, true),
                    ireg(2, "outer.after", Upd::HRec(vec![2.0])),
                ], 0, true),
                ireg(1, "decoy.after", Upd::GSet(1.0)),
                Item::Snap { rid: 0 },
                Item::Snap { rid: 1 },
            ] },
            G::Tree { tid: 1, items: vec![
                scope(0, false, vec![scope(1, false, vec![scope(0, true, vec![ireg(0, "deep", Upd::CInc(1))], 2, false)], 0, false)], 0, true),
                ireg(0, "g.reqs", Upd::CInc(1)),
                Item::Probe,
                scope(1, false, vec![ireg(1, "inner", Upd::GSet(2.0))], 1, true),
                ireg(0, "g.reqs", Upd::CInc(1)),
                Item::Snap { rid: GLOBAL },
            ] },
            snap(0),
            snap(1),
        ]),
        // two recorders, the same key, different threads; handles used under the other recorder
        (2, vec![
            reg(0, 1, Via::Local, 0, ku("reqs", &[("host", "a")], 0), Upd::CInc(5)),
            reg(1, 2, Via::Macro, 0, ku("reqs", &[("host", "a")], 0), Upd::CInc(11)),
            reg(1, 1, Via::Macro, 1, ku("lat", &[], 0), Upd::GAdd(1024)),
            G::Handle { h: 0, tid: 2, other: Some(1), upd_seed: 3 },
            G::Handle { h: 1, tid: 1, other: Some(0), upd_seed: 4 },
            d(1, 0, "reqs", Some(Unit::Count), "only on recorder 1"),
            snap(0),
            snap(1),
        ]),
    ]
}

/// first case of every run: `DebuggingRecorder::install()`.  A snapshotter obtained BEFORE the installation must
/// show what the macros record afterwards on threads without a local recorder; a second installation fails.
fn install_global(out: &mut Out, workers: Workers) -> World {
    out.case("global install");
    out.op("debug new 1", "ok");
    let noop = workers.on(1, probe);
    let mut w = World { workers, gsnap: DebuggingRecorder::new().snapshotter(), gtally: Tally::default(), gptr: 0, noop };
    let none: Vec<Arc<DebuggingRecorder>> = vec![];
    out.op("debug sc 1 target", &ptr_tok(noop, &none, &w));
    // before the installation the macros reach the no-op recorder: nothing is registered anywhere
    let reached = w.workers.on(1, || {
        let p = probe();
        metrics::counter!("g.reqs").increment(5);
        p
    });
    out.op(&format!("debug sc 1 cur cinc {} . 5", hexs("g.reqs")), &ptr_tok(reached, &none, &w));
    let g = DebuggingRecorder::new();
    w.gsnap = g.snapshotter();
    let first = g.install().is_ok();
    out.op(&format!("debug sc 0 install {}", GLOBAL), if first { "ok" } else { "err" });
    let gptr = w.workers.on(2, probe);
    if gptr != noop {
        w.gptr = gptr;
    }
    out.op("debug sc 2 target", &ptr_tok(gptr, &none, &w));
    if !first || gptr == noop {
        out.oracle_fail("DebuggingRecorder::install() did not make the recorder the global one", &format!("install ok: {}", first));
    }
    let second = DebuggingRecorder::default().install().is_ok();
    out.op(&format!("debug sc 0 install {}", GLOBAL), if second { "ok" } else { "err" });
    if second {
        out.oracle_fail("a second install() succeeded", "");
    }
    // threads without a local recorder (worker, harness thread) reach the installed recorder through the macros
    for (tid, n) in [(1usize, 2u64), (0, 3), (2, 4)] {
        let reached = w.workers.on(tid, move || {
            let p = probe();
            metrics::counter!("g.reqs").increment(n);
            metrics::histogram!("g.lat", "host" => "a").record(n as f64);
            p
        });
        let tok = ptr_tok(reached, &none, &w);
        out.op(&format!("debug sc {} cur cinc {} . {}", tid, hexs("g.reqs"), n), &tok);
        out.op(&format!("debug sc {} cur hrec {} {}:{} {}", tid, hexs("g.lat"), hexs("host"), hexs("a"), val_tok(n as f64)), &tok);
        let id = canon_id("g.reqs", &[]);
        w.gtally.register(0, &id);
        w.gtally.update(&id, &Upd::CInc(n));
        let id = canon_id("g.lat", &[("host".to_string(), "a".to_string())]);
        w.gtally.register(2, &id);
        w.gtally.update(&id, &Upd::HRec(vec![n as f64]));
    }
    let snap: Snap = w.gsnap.snapshot().into_vec();
    let toks: Vec<String> = snap.iter().map(entry_tok).collect();
    check_snapshot(out, &mut w.gtally, GLOBAL, &snap, true);
    out.op(&format!("debug {} 0 snapshot", GLOBAL), &entries_tok(toks, false));
    // a recorder that was never installed and never called shows nothing
    if !DebuggingRecorder::default().snapshotter().snapshot().into_vec().is_empty() {
        out.oracle_fail("a fresh recorder shows metrics", "");
    }
    w
}

/// (round 4, after seed C19-8) keys that are equal although their labels were given in another order, INCLUDING two labels
/// that share one name (`Key` equality treats a pair of labels as unordered by the whole label): registered and updated
/// through both spellings they are ONE metric — one snapshot entry, in first-registration position, holding the fold of
/// all updates. Oracle only (the model's key identity is defined for pairwise distinct label names).
fn same_name_label_pairs(out: &mut Out) {
    use metrics::Label;
    for (i, (l1, l2)) in [(("a", "1"), ("a", "2")), (("a", "2"), ("a", "1")), (("x", "1"), ("y", "1")), (("le", ""), ("le", "x"))].iter().enumerate() {
        out.case(&format!("same-name label pair {}", i));
        let rec = DebuggingRecorder::new();
        let snap = rec.snapshotter();
        let k1 = Key::from_parts("pair", vec![Label::new(l1.0, l1.1), Label::new(l2.0, l2.1)]);
        let k2 = Key::from_parts("pair", vec![Label::new(l2.0, l2.1), Label::new(l1.0, l1.1)]);
        let other = Key::from_name("between");
        metrics::with_local_recorder(&rec, || {
            let m = metrics::Metadata::new("t", metrics::Level::INFO, None);
            metrics::with_recorder(|r| r.register_counter(&k1, &m)).increment(5);
            metrics::with_recorder(|r| r.register_counter(&other, &m)).increment(1);
            metrics::with_recorder(|r| r.register_counter(&k2, &m)).increment(7);
            metrics::with_recorder(|r| r.register_histogram(&k1, &m)).record(1.0);
            metrics::with_recorder(|r| r.register_histogram(&k2, &m)).record(2.0);
        });
        let v = snap.snapshot().into_vec();
        let counters: Vec<_> = v.iter().filter(|(ck, _, _, _)| ck.kind() == metrics_util::MetricKind::Counter).collect();
        let hists: Vec<_> = v.iter().filter(|(ck, _, _, _)| ck.kind() == metrics_util::MetricKind::Histogram).collect();
        let ok = k1 == k2
            && counters.len() == 2
            && counters[0].0.key() == &k1
            && matches!(counters[0].3, metrics_util::debugging::DebugValue::Counter(12))
            && hists.len() == 1
            && matches!(&hists[0].3, metrics_util::debugging::DebugValue::Histogram(h) if h.len() == 2);
        out.count("same-name label pairs");
        if !ok {
            out.oracle_fail(
                "equal keys whose labels were given in another order (incl. two labels sharing a name) are not ONE metric in the snapshot",
                &format!("labels {:?} / {:?}: snapshot {:?}", l1, l2, v.iter().map(|(ck, _, _, val)| format!("{:?} {:?} = {:?}", ck.kind(), ck.key(), val)).collect::<Vec<_>>()),
            );
        }
    }
}

/// (round 5, after seed C19-10) a snapshot taken WHILE another thread is inside a first-time registration (and holds the
/// subshard's write lock) must wait for it and then list every metric that was registered before: a listing that skips a
/// locked subshard silently omits its metrics. No scheduler: the registering thread is held inside `key.clone()` under
/// the write lock (through the `cow-clone` yield hook) for a while; the oracle is order-based — whenever the snapshot
/// returns, it must contain all keys registered before it began (if the holder finished first, it trivially does).
#[cfg(has_cow_hook)]
fn snapshot_vs_lock_holder(out: &mut Out) {
    use std::sync::atomic::{AtomicBool, AtomicUsize, Ordering as O};
    static ARMED: AtomicBool = AtomicBool::new(false);
    static INSIDE: AtomicUsize = AtomicUsize::new(0);
    thread_local! { static HOLDER: std::cell::Cell<usize> = std::cell::Cell::new(0); }
    // `register_counter` clones the key twice: once for the `seen` list (two `Cow::clone` points: name, labels — outside
    // the registry) and once inside `get_or_create_counter`'s slow path, UNDER the subshard's write lock (points 3 and 4
    // of the holder thread). The holder is kept at its third point.
    fn hook(id: &'static str) {
        if id == "cow-clone" && ARMED.load(O::SeqCst) {
            let n = HOLDER.with(|h| {
                let v = h.get();
                if v > 0 {
                    h.set(v + 1);
                }
                v
            });
            if n == 3 {
                INSIDE.fetch_add(1, O::SeqCst);
                std::thread::sleep(std::time::Duration::from_millis(150));
            }
        }
    }
    out.case("snapshot while a registration holds a subshard lock");
    let rec = Arc::new(DebuggingRecorder::new());
    let snap = rec.snapshotter();
    let meta = metrics::Metadata::new("t", metrics::Level::INFO, None);
    let n = 400usize;
    for i in 0..n {
        rec.register_counter(&Key::from_name(format!("held_{}", i)), &meta).increment(1);
    }
    let mut worst_missing = 0usize;
    let mut rounds_overlapped = 0usize;
    for round in 0..6 {
        INSIDE.store(0, O::SeqCst);
        metrics::verif_key_hook::set(Some(hook));
        ARMED.store(true, O::SeqCst);
        let r2 = rec.clone();
        let holder = std::thread::spawn(move || {
            HOLDER.with(|h| h.set(1));
            let meta = metrics::Metadata::new("t", metrics::Level::INFO, None);
            // a NEW key: the slow path clones it under the subshard's write lock
            r2.register_counter(&Key::from_name(format!("newcomer_{}", round)), &meta).increment(1);
        });
        let t0 = std::time::Instant::now();
        while INSIDE.load(O::SeqCst) == 0 && t0.elapsed() < std::time::Duration::from_secs(5) {
            std::thread::yield_now();
        }
        let overlapped = INSIDE.load(O::SeqCst) > 0;
        let v = snap.snapshot().into_vec();
        ARMED.store(false, O::SeqCst);
        let _ = holder.join();
        metrics::verif_key_hook::set(None);
        let listed = v.iter().filter(|(ck, _, _, _)| ck.key().name().starts_with("held_")).count();
        if overlapped {
            rounds_overlapped += 1;
        }
        worst_missing = worst_missing.max(n - listed.min(n));
    }
    out.count(&format!("snapshot vs lock holder: rounds with the holder inside when the snapshot began: {}", rounds_overlapped.min(6)));
    out.nontrivial();
    if worst_missing > 0 {
        out.oracle_fail(
            "a snapshot taken while another thread was registering a new metric omits metrics that were registered before it began",
            &format!("{} pre-registered counters, up to {} missing from a snapshot that overlapped a first-time registration", n, worst_missing),
        );
    }
}
#[cfg(not(has_cow_hook))]
fn snapshot_vs_lock_holder(out: &mut Out) {
    out.count("snapshot vs lock holder: skipped (cow-clone hook absent)");
}

pub fn run(cfg: &Cfg, out: &mut Out) {
    snapshot_vs_lock_holder(out);
    same_name_label_pairs(out);
    quiet_scope_panics();
    let mut w = install_global(out, Workers::new(2));
    for (i, (nrec, script)) in corpus().into_iter().enumerate() {
        out.case(&format!("corpus {}", i));
        exec(out, &mut w, nrec, &script);
    }
    let root = Rng::new(cfg.seed);
    for i in 0..cfg.cases {
        let mut r = root.fork(i as u64);
        out.case(&format!("seed={} i={}", cfg.seed, i));
        let (nrec, _nthreads, script) = gen_script(&mut r, out);
        exec(out, &mut w, nrec, &script);
    }
}


// ---------------------------------------------------------------------------------------------
// concurrent stream: record() racing snapshot() on one histogram, under the deterministic scheduler (yield points
// of the lock-free bucket).  Every recorded value is distinct, so "each value appears in exactly one snapshot"
// is checked literally.  The only loss the unchanged code shows has the K1 trace signature of the bucket
// (K-C05-K1); anything else — a loss without that signature, or a value in two snapshots — is a violation.
// ---------------------------------------------------------------------------------------------
// concurrent stream: several threads register / update / snapshot through ONE recorder under the deterministic
// scheduler; the yield points are the harness's own `c19.call` (before every call) and the registry's
// `reg.goc.read` / `reg.goc.write` (the read-miss / write-section window of `get_or_create_*`).  Histogram
// `record` and `snapshot` run as one step (`sched::muted`; the points inside the bucket are the other stream's).
// The schedule that was taken goes to the model (`debug conc`, Model/DebuggingConc); independently a reference
// kept here ("one cell per (kind, key class), whoever registered it") replays the calls in the order their grants
// took effect and says what every snapshot must show.

#[derive(Clone, Debug)]
enum RUpd {
    CInc(u64),
    CAbs(u64),
    GSet(i64),
    GAdd(i64),
    HRec(i64),
}

#[derive(Clone, Debug)]
enum RCall {
    Reg { kind: u8, cls: usize, key: Key },
    Upd { h: usize, u: RUpd },
    Snap,
}

fn rupd_tok(u: &RUpd) -> String {
    match u {
        RUpd::CInc(n) => format!("ci{}", n),
        RUpd::CAbs(n) => format!("ca{}", n),
        RUpd::GSet(v) => format!("gs{}", v),
        RUpd::GAdd(v) => format!("ga{}", v),
        RUpd::HRec(v) => format!("hr{}", v),
    }
}

fn rcall_tok(c: &RCall) -> String {
    match c {
        RCall::Reg { kind, cls, key } => format!("r/{}/{}:{}", kind_tok(*kind), cls, key.get_hash()),
        RCall::Upd { h, u } => format!("u/{}/{}", h, rupd_tok(u)),
        RCall::Snap => "s".to_string(),
    }
}

fn rprog_tok(p: &[RCall]) -> String {
    if p.is_empty() {
        "-".into()
    } else {
        p.iter().map(rcall_tok).collect::<Vec<_>>().join("+")
    }
}

/// dyadic numerator of a value the stream recorded (all of them are n/1024)
fn num_of(v: f64) -> String {
    let s = v * 1024.0;
    if v.is_finite() && s.fract() == 0.0 && s.abs() < 9.0e15 {
        format!("{}", s as i64)
    } else {
        format!("bits{}", v.to_bits())
    }
}

fn rsnap_tok(snap: &Snap, classes: &[String]) -> String {
    let toks: Vec<String> = snap
        .iter()
        .map(|(ck, _, _, v)| {
            let id = canon_id(ck.key().name(), &labels_of(ck.key()));
            let cls = classes.iter().position(|c| *c == id).map(|i| i.to_string()).unwrap_or_else(|| "?".into());
            let val = match v {
                DebugValue::Counter(n) => format!("c{}", n),
                DebugValue::Gauge(g) => format!("g{}", num_of(g.0)),
                DebugValue::Histogram(vs) => format!("h{}", vs.iter().map(|x| num_of(x.0)).collect::<Vec<_>>().join("_")),
            };
            format!("{}/{}/{}", kind_tok(kind_of(ck.kind())), cls, val)
        })
        .collect();
    if toks.is_empty() {
        "empty".into()
    } else {
        toks.join(";")
    }
}

fn real_shard_count() -> usize {
    let dbg = format!("{:?}", DebuggingRecorder::new());
    dbg.rsplit("shard_mask: ")
        .next()
        .and_then(|s| s.split(|c: char| !c.is_ascii_digit()).next())
        .and_then(|s| s.parse::<usize>().ok())
        .expect("shard_mask")
        + 1
}

struct ROutcome {
    run: crate::sched::RunResult,
    snaps: Vec<Vec<String>>,
    fin: String,
}

fn r_execute(progs: &[Vec<RCall>], classes: &[String], schedule: &[usize]) -> ROutcome {
    use std::sync::Mutex;
    let rec = Arc::new(DebuggingRecorder::new());
    let snapper = rec.snapshotter();
    let snaps: Arc<Mutex<Vec<Vec<String>>>> = Arc::new(Mutex::new(vec![vec![]; progs.len()]));
    let classes_a: Arc<Vec<String>> = Arc::new(classes.to_vec());
    let mut bodies: Vec<Box<dyn FnOnce() + Send + 'static>> = vec![];
    for (t, prog) in progs.iter().enumerate() {
        let prog = prog.clone();
        let rec = rec.clone();
        let snapper = snapper.clone();
        let snaps = snaps.clone();
        let classes = classes_a.clone();
        bodies.push(Box::new(move || {
            let mut hs: Vec<H> = vec![];
            for c in prog {
                metrics::verif::point("c19.call");
                match c {
                    RCall::Reg { kind, key, .. } => hs.push(match kind {
                        0 => H::C(rec.register_counter(&key, &META)),
                        1 => H::G(rec.register_gauge(&key, &META)),
                        _ => H::H(rec.register_histogram(&key, &META)),
                    }),
                    RCall::Upd { h, u } => match (&hs[h], u) {
                        (H::C(c), RUpd::CInc(n)) => c.increment(n),
                        (H::C(c), RUpd::CAbs(n)) => c.absolute(n),
                        (H::G(g), RUpd::GSet(v)) => g.set(dy(v)),
                        (H::G(g), RUpd::GAdd(d)) => {
                            if d >= 0 {
                                g.increment(dy(d))
                            } else {
                                g.decrement(dy(-d))
                            }
                        }
                        (H::H(hh), RUpd::HRec(v)) => crate::sched::muted(|| hh.record(dy(v))),
                        _ => panic!("update of the wrong kind generated"),
                    },
                    RCall::Snap => {
                        let s = crate::sched::muted(|| snapper.snapshot().into_vec());
                        snaps.lock().unwrap()[t].push(rsnap_tok(&s, &classes));
                    }
                }
            }
        }));
    }
    let run = crate::sched::run(bodies, schedule);
    let fin = rsnap_tok(&snapper.snapshot().into_vec(), classes);
    let snaps = snaps.lock().unwrap().clone();
    ROutcome { run, snaps, fin }
}

/// what every snapshot must show, from the property alone: replay of the calls in the order of their grants
fn r_reference(progs: &[Vec<RCall>], trace: &[(usize, &'static str)]) -> Option<(Vec<Vec<String>>, String)> {
    #[derive(Clone)]
    enum Cell {
        C(u64),
        G(i64),
        H(Vec<i64>),
    }
    let mut seen: Vec<(u8, usize)> = vec![]; // (kind, class) in order of first track_metric
    let mut cells: HashMap<(u8, usize), Cell> = HashMap::new(); // exists once some registration has completed its creation
    let mut pc: Vec<usize> = vec![0; progs.len()]; // index of the call that is running / next
    let mut handles: Vec<Vec<(u8, usize)>> = vec![vec![]; progs.len()];
    let mut snaps: Vec<Vec<String>> = vec![vec![]; progs.len()];
    fn show(seen: &[(u8, usize)], cells: &mut HashMap<(u8, usize), Cell>) -> String {
        let mut toks = vec![];
        for m in seen {
            if let Some(c) = cells.get_mut(m) {
                let v = match c {
                    Cell::C(n) => format!("c{}", n),
                    Cell::G(g) => format!("g{}", g),
                    Cell::H(vs) => {
                        let t = format!("h{}", vs.iter().map(|x| x.to_string()).collect::<Vec<_>>().join("_"));
                        vs.clear();
                        t
                    }
                };
                toks.push(format!("{}/{}/{}", kind_tok(m.0), m.1, v));
            }
        }
        if toks.is_empty() {
            "empty".into()
        } else {
            toks.join(";")
        }
    }
    for (t, id) in trace {
        let t = *t;
        match *id {
            "start" => {}
            "c19.call" => match progs[t].get(pc[t])? {
                RCall::Reg { kind, cls, .. } => {
                    if !seen.contains(&(*kind, *cls)) {
                        seen.push((*kind, *cls));
                    }
                }
                RCall::Upd { h, u } => {
                    let m = *handles[t].get(*h)?;
                    let c = cells.get_mut(&m)?;
                    match (c, u) {
                        (Cell::C(c), RUpd::CInc(n)) => *c = c.wrapping_add(*n),
                        (Cell::C(c), RUpd::CAbs(n)) => *c = (*c).max(*n),
                        (Cell::G(g), RUpd::GSet(v)) => *g = *v,
                        (Cell::G(g), RUpd::GAdd(d)) => *g += *d,
                        (Cell::H(vs), RUpd::HRec(v)) => vs.push(*v),
                        _ => return None,
                    }
                    pc[t] += 1;
                }
                RCall::Snap => {
                    let s = show(&seen, &mut cells);
                    snaps[t].push(s);
                    pc[t] += 1;
                }
            },
            // the read section: the registration completes iff the metric exists by now
            "reg.goc.read" => {
                if let RCall::Reg { kind, cls, .. } = progs[t].get(pc[t])? {
                    if cells.contains_key(&(*kind, *cls)) {
                        handles[t].push((*kind, *cls));
                        pc[t] += 1;
                    }
                } else {
                    return None;
                }
            }
            // the write section: creates the metric unless it exists by now; either way the registration completes
            "reg.goc.write" => {
                if let RCall::Reg { kind, cls, .. } = progs[t].get(pc[t])? {
                    cells.entry((*kind, *cls)).or_insert(match kind {
                        0 => Cell::C(0),
                        1 => Cell::G(0),
                        _ => Cell::H(vec![]),
                    });
                    handles[t].push((*kind, *cls));
                    pc[t] += 1;
                } else {
                    return None;
                }
            }
            _ => return None,
        }
    }
    if pc.iter().zip(progs).any(|(p, prog)| *p != prog.len()) {
        return None;
    }
    let fin = show(&seen, &mut cells);
    Some((snaps, fin))
}

fn r_one(out: &mut Out, progs: &[Vec<RCall>], classes: &[String], count: usize, sch: &[usize]) {
    let o = r_execute(progs, classes, sch);
    let taken: Vec<usize> = o.run.trace.iter().map(|(t, _)| *t).collect();
    let labels: Vec<&str> = o.run.trace.iter().map(|(_, id)| *id).collect();
    let per = list(o.snaps.iter().map(|s| if s.is_empty() { ".".to_string() } else { s.join("+") }));
    let pcs = list(progs.iter().map(|_| "done".to_string()));
    out.op(
        &format!("debug conc {} {} {}", count, list(progs.iter().map(|p| rprog_tok(p))), crate::sched::sched_tok(&taken)),
        &format!("{} | {} | {} | {}", labels.join("."), per, o.fin, pcs),
    );
    if o.run.deadlock || o.run.timed_out || !o.run.panicked.is_empty() {
        out.oracle_fail("concurrent registration: deadlock, timeout or panic", &format!("{:?}", o.run));
        return;
    }
    // a write section that ran although the metric existed already = the re-check under the write lock was needed
    let mut created: Vec<(u8, usize)> = vec![];
    let mut cur: Vec<usize> = vec![0; progs.len()];
    let mut recheck = false;
    for (t, id) in &o.run.trace {
        match *id {
            "c19.call" => {
                if !matches!(progs[*t].get(cur[*t]), Some(RCall::Reg { .. })) {
                    cur[*t] += 1;
                }
            }
            "reg.goc.read" => {
                if let Some(RCall::Reg { kind, cls, .. }) = progs[*t].get(cur[*t]) {
                    if created.contains(&(*kind, *cls)) {
                        cur[*t] += 1;
                    }
                }
            }
            "reg.goc.write" => {
                if let Some(RCall::Reg { kind, cls, .. }) = progs[*t].get(cur[*t]) {
                    if created.contains(&(*kind, *cls)) {
                        recheck = true;
                    } else {
                        created.push((*kind, *cls));
                    }
                    cur[*t] += 1;
                }
            }
            _ => {}
        }
    }
    if recheck {
        out.nontrivial();
        out.count("reg_race.write_section_found_entry");
    }
    out.count("reg_race.runs");
    match r_reference(progs, &o.run.trace) {
        None => out.oracle_fail(
            "concurrent registration: a thread stopped at unexpected yield points or did not finish its calls",
            &format!("trace {:?}", o.run.trace),
        ),
        Some((want_snaps, want_fin)) => {
            if want_snaps != o.snaps || want_fin != o.fin {
                out.oracle_fail(
                    "several threads registered / updated one metric at the same time: a snapshot does not show the fold of all updates made through all handles of the key (or lists other metrics than the registered ones, or shows a histogram value twice / never) [no-known-signature]",
                    &format!(
                        "programs {} ; schedule {} ; snapshots of the threads {:?}, expected {:?} ; snapshot at the end {}, expected {} ; trace {:?}",
                        list(progs.iter().map(|p| rprog_tok(p))),
                        crate::sched::sched_tok(&taken),
                        o.snaps,
                        want_snaps,
                        o.fin,
                        want_fin,
                        o.run.trace
                    ),
                );
            }
        }
    }
}

/// key classes of a case: 1-2 names x label sets; every use builds the key anew (one of 8 constructors, labels
/// permuted), so racing registrations hand the registry equal keys that are different instances
fn r_key(r: &mut Rng, cls: usize) -> Key {
    let (name, labels): (&str, Vec<(&str, &str)>) = match cls {
        0 => ("reqs", vec![("host", "a"), ("zone", "1"), ("app", "x")]),
        1 => ("reqs", vec![]),
        _ => ("lat", vec![("host", "a")]),
    };
    let mut ls: Vec<(String, String)> = labels.iter().map(|(a, b)| (a.to_string(), b.to_string())).collect();
    for i in (1..ls.len()).rev() {
        let j = r.below(i + 1);
        ls.swap(i, j);
    }
    build_key(&KeyUse { name: name.to_string(), labels: ls, variant: r.below(8) as u8 })
}

fn r_classes() -> Vec<String> {
    let c = |name: &str, ls: &[(&str, &str)]| {
        let v: Vec<(String, String)> = ls.iter().map(|(a, b)| (a.to_string(), b.to_string())).collect();
        canon_id(name, &v)
    };
    vec![c("reqs", &[("host", "a"), ("zone", "1"), ("app", "x")]), c("reqs", &[]), c("lat", &[("host", "a")])]
}

fn r_upd(r: &mut Rng, kind: u8, next_val: &mut i64) -> RUpd {
    match kind {
        0 => {
            if r.chance(1, 5) {
                RUpd::CAbs(r.range(1, 40) as u64)
            } else if r.chance(1, 12) {
                RUpd::CInc(u64::MAX - r.below(3) as u64)
            } else {
                RUpd::CInc(r.range(1, 9) as u64)
            }
        }
        1 => {
            if r.chance(1, 2) {
                RUpd::GSet(r.range(0, 4096) as i64 - 2048)
            } else {
                RUpd::GAdd(r.range(0, 2048) as i64 - 1024)
            }
        }
        _ => {
            *next_val += 1;
            RUpd::HRec(*next_val * 1024)
        }
    }
}

fn r_gen(r: &mut Rng, out: &mut Out) -> (Vec<Vec<RCall>>, Vec<usize>) {
    // the metrics of the case: mostly ONE (kind, class) that every thread registers
    let nm = if r.chance(2, 3) { 1 } else { 2 };
    let metrics: Vec<(u8, usize)> = (0..nm).map(|_| ([0u8, 1, 2][r.weighted(&[4, 2, 3])], r.below(3))).collect();
    let nt = r.range(2, 3);
    let mut next_val = 0i64;
    let mut progs = vec![];
    for _ in 0..nt {
        let mut p = vec![];
        let mut kinds: Vec<u8> = vec![];
        let nreg = if r.chance(3, 4) { 1 } else { 2 };
        for _ in 0..nreg {
            let (kind, cls) = metrics[if r.chance(4, 5) { 0 } else { r.below(nm) }];
            p.push(RCall::Reg { kind, cls, key: r_key(r, cls) });
            kinds.push(kind);
            for _ in 0..r.range(1, 3) {
                let h = r.below(kinds.len());
                p.push(RCall::Upd { h, u: r_upd(r, kinds[h], &mut next_val) });
            }
            if r.chance(1, 4) {
                p.push(RCall::Snap);
            }
        }
        progs.push(p);
    }
    if r.chance(1, 2) {
        progs.push((0..r.range(1, 3)).map(|_| RCall::Snap).collect());
    }
    let n = progs.len();
    out.count(&format!("reg_race.threads={}", n));
    // schedules: lock-step (everybody reaches the read section before anybody writes), or random with runs
    let mut sch = vec![];
    match r.below(3) {
        0 => {
            for _ in 0..4 {
                sch.extend(0..n);
            }
        }
        1 => {
            let a = r.below(n);
            let b = (a + 1 + r.below(n - 1)) % n;
            // a and b up to their write points, then b first
            sch.extend([a, b, a, b, a, b, b, a]);
        }
        _ => {}
    }
    let mut cur = r.below(n);
    for _ in 0..80 {
        if r.chance(1, 2) {
            cur = r.below(n);
        }
        sch.push(cur);
    }
    (progs, sch)
}

pub fn run_registration_races(cfg: &Cfg, out: &mut Out) {
    let classes = r_classes();
    let count = real_shard_count();
    let root = Rng::new(cfg.seed ^ 0x19_6E6);
    // corpus: the race of the missed seed C19-6, per kind — two threads register the same new key (built
    // differently), both miss under the read lock, the second write section finds the first one's entry; updates
    // through both handles; a third thread snapshots in between and at the end
    for kind in 0..3u8 {
        let mut r = root.fork(1000 + kind as u64);
        let mut nv = 0i64;
        let mut mk = |r: &mut Rng| vec![RCall::Reg { kind, cls: 0, key: r_key(r, 0) }, RCall::Upd { h: 0, u: r_upd(r, kind, &mut nv) }, RCall::Upd { h: 0, u: r_upd(r, kind, &mut nv) }];
        let progs = vec![mk(&mut r), mk(&mut r), vec![RCall::Snap, RCall::Snap]];
        for sch in [
            vec![0usize, 1, 0, 1, 0, 1, 0, 1, 0, 2, 2, 1, 1, 0, 2],
            vec![0, 1, 0, 1, 0, 1, 1, 0, 1, 1, 2, 2, 0, 0, 2],
            vec![0, 0, 0, 0, 0, 0, 1, 1, 1, 1, 1, 2, 2, 2],
        ] {
            out.case(&format!("registration race corpus kind={} sched={}", kind_tok(kind), crate::sched::sched_tok(&sch)));
            r_one(out, &progs, &classes, count, &sch);
        }
    }
    // exhaustive: EVERY schedule of two threads that register one new key and update it once each, per kind
    // (quick tier: counters; thorough: all three kinds, and a third thread that snapshots once)
    let kinds: &[u8] = if cfg.thorough { &[0, 1, 2] } else { &[0] };
    for &kind in kinds {
        for with_snap in [false, true] {
            if with_snap && !cfg.thorough {
                continue;
            }
            let mut r = root.fork(2000 + kind as u64);
            let mut nv = 0i64;
            let mut progs = vec![
                vec![RCall::Reg { kind, cls: 0, key: r_key(&mut r, 0) }, RCall::Upd { h: 0, u: r_upd(&mut r, kind, &mut nv) }],
                vec![RCall::Reg { kind, cls: 0, key: r_key(&mut r, 0) }, RCall::Upd { h: 0, u: r_upd(&mut r, kind, &mut nv) }],
            ];
            if with_snap {
                progs.push(vec![RCall::Snap]);
            }
            // depth-first enumeration by replay (as `sched::enumerate`, but every run goes through `r_one`)
            let mut prefix: Vec<usize> = vec![];
            let mut runs = 0usize;
            let limit = if cfg.thorough { 4000 } else { 400 };
            loop {
                out.case(&format!("registration race exhaustive kind={} snap={} #{}", kind_tok(kind), with_snap, runs));
                let o = r_execute(&progs, &classes, &prefix);
                let taken: Vec<usize> = o.run.trace.iter().map(|(t, _)| *t).collect();
                // the same schedule again through the full comparison (replays exactly)
                r_one(out, &progs, &classes, count, &taken);
                runs += 1;
                if runs >= limit {
                    out.count("reg_race.exhaustive_cut");
                    break;
                }
                let mut i = taken.len();
                let mut next = None;
                while i > 0 {
                    i -= 1;
                    if let Some(alt) = o.run.choices[i].iter().copied().filter(|c| *c > taken[i]).min() {
                        next = Some((i, alt));
                        break;
                    }
                }
                match next {
                    None => {
                        out.count("reg_race.exhaustive_complete");
                        break;
                    }
                    Some((i, alt)) => {
                        prefix = taken[..i].to_vec();
                        prefix.push(alt);
                    }
                }
            }
            out.count_n("reg_race.exhaustive_runs", runs as u64);
        }
    }
    let n = if cfg.thorough { 1500 } else { 150 };
    for i in 0..n {
        let mut r = root.fork(i as u64);
        out.case(&format!("registration race seed={} i={}", cfg.seed, i));
        let (progs, sch) = r_gen(&mut r, out);
        r_one(out, &progs, &classes, count, &sch);
    }
}


/// a yield point of the lock-free bucket (one step of `Model/Bucket.lean`); everything else a scheduled thread stops at
/// (registry sections of a late registration) is no step of the histogram model
fn h_is_bucket_point(id: &str) -> bool {
    id == "start" || id.starts_with("bkt.") || id.starts_with("blk.") || id.starts_with("spin:bkt.")
}

/// EXACT K1 steps of a trace (the Lean predicate `Bucket.k1Step`; same rule as `c05::Sig::k1_exact`, which is checked
/// to give the same number): slot claims that really take a slot (the pusher's next point is the publish step) on a block
/// that a clear has detached since the pusher obtained it (a successful `bkt.clear.cas` — the clearer's next point is
/// `bkt.clear.quiesced` — between the pusher's previous grant and the claim).  Answers (thread, number of pushes that
/// thread had completed before) per K1 claim: WHICH record() it is.
fn h_k1_claims(tr: &[(usize, &'static str)]) -> Vec<(usize, usize)> {
    let next_of = |gi: usize, t: usize| tr[gi + 1..].iter().find(|(t2, _)| *t2 == t).map(|x| x.1);
    let detaches: Vec<usize> = tr
        .iter()
        .enumerate()
        .filter(|(gi, (t, id))| *id == "bkt.clear.cas" && next_of(*gi, *t) == Some("bkt.clear.quiesced"))
        .map(|x| x.0)
        .collect();
    let mut claims = vec![];
    for (gi, (t, id)) in tr.iter().enumerate() {
        if *id == "blk.push.claim" && next_of(gi, *t) == Some("blk.push.publish") {
            if let Some(p) = tr[..gi].iter().rposition(|(t2, _)| t2 == t) {
                if detaches.iter().any(|c| *c > p && *c < gi) {
                    let done = tr[..gi].iter().filter(|(t2, id2)| t2 == t && *id2 == "blk.push.publish").count();
                    claims.push((*t, done));
                }
            }
        }
    }
    claims
}

#[derive(Clone, Copy, PartialEq, Debug)]
enum HRole {
    /// k-th recording thread (model thread k)
    Rec(usize),
    /// j-th snapshotting thread (model thread nrec + 1 + j; the prefill is model thread nrec)
    Snap(usize),
    /// registers new metrics while snapshots run (scene not replayed on the histogram model)
    Late,
}

fn h_vals_tok(vs: &[u64]) -> String {
    if vs.is_empty() {
        "e".to_string()
    } else {
        vs.iter()
            .map(|b| {
                let v = f64::from_bits(*b);
                if v >= 0.0 && v.fract() == 0.0 && v < 1e15 { format!("{}", v as u64) } else { format!("?{:x}", b) }
            })
            .collect::<Vec<_>>()
            .join("_")
    }
}

pub fn run_concurrent(cfg: &Cfg, out: &mut Out) {
    use std::sync::Mutex;
    run_registration_races(cfg, out);
    static META: metrics::Metadata<'static> = metrics::Metadata::new("mv", metrics::Level::INFO, None);
    let root = Rng::new(cfg.seed ^ 0xC19C);
    let n = if cfg.thorough { 600 } else { 120 };
    // case 0 of the stream: the witness of `C19.conc_hist_exact_fails` (K-C19-K1) replayed on the real recorder, block
    // size 64 (recorder 1 loads the tail, the snapshot detaches, waits for recorder 0 and shows its value, then recorder 1
    // claims and publishes on the detached block)
    const WITNESS: [usize; 15] = [0, 1, 2, 0, 0, 0, 0, 1, 2, 2, 2, 2, 2, 1, 1];
    // (the witness runs first; its index `n` keeps the PRNG forks of the generated cases unchanged)
    for i in std::iter::once(n).chain(0..n) {
        let witness = i == n;
        let mut r = root.fork(i as u64);
        out.case(&format!("concurrent seed={} i={}{}", cfg.seed, i, if witness { " (witness of C19.conc_hist_exact_fails)" } else { "" }));
        let rec = Arc::new(DebuggingRecorder::new());
        let snapper = rec.snapshotter();
        let key = Key::from_name("lat");
        let h = rec.register_histogram(&key, &META);
        // the first cases are targeted: a record() completes entirely between two steps of the snapshot's drain
        let targeted = i < 24 && !witness;
        let prefill = if witness { 0 } else if targeted { [0usize, 1, 63, 64][i % 4] } else { *r.pick(&[0usize, 1, 2, 62, 63, 64, 65]) };
        let mut next_val = 1u32;
        let mut recorded: Vec<u64> = vec![];
        let mut prefilled: Vec<u64> = vec![];
        for _ in 0..prefill {
            let v = next_val as f64;
            next_val += 1;
            h.record(v);
            recorded.push(v.to_bits());
            prefilled.push(v.to_bits());
        }
        let nrec = if witness { 2 } else if targeted { 1 } else { r.range(1, 3) };
        let mut bodies: Vec<Box<dyn FnOnce() + Send + 'static>> = vec![];
        let mut roles: Vec<HRole> = vec![];
        // per recording thread: its calls (value, count): count 1 = record(v), otherwise ONE record_many(v, count)
        let mut rec_calls: Vec<Vec<(f64, usize)>> = vec![];
        for k in 0..nrec {
            let h = h.clone();
            let ncalls = if witness { 1 } else if targeted { 1 + (i / 12) % 2 } else { r.range(1, 3) };
            let mut calls = vec![];
            for _ in 0..ncalls {
                let v = next_val as f64;
                next_val += 1;
                let c = if !witness && !targeted && r.chance(1, 4) { *r.pick(&[0usize, 2, 3]) } else { 1 };
                calls.push((v, c));
                for _ in 0..c {
                    recorded.push(v.to_bits());
                }
                if c != 1 {
                    out.count("concurrent.record_many");
                }
            }
            rec_calls.push(calls.clone());
            roles.push(HRole::Rec(k));
            bodies.push(Box::new(move || {
                for (v, c) in calls {
                    if c == 1 {
                        h.record(v);
                    } else {
                        h.record_many(v, c);
                    }
                }
            }));
        }
        // (snapshotting thread j, what its snapshot showed for the histograms), in the order the snapshots returned
        let snaps: Arc<Mutex<Vec<(usize, Vec<u64>)>>> = Arc::new(Mutex::new(vec![]));
        let nsnap = if witness || targeted { 1 } else { r.range(1, 3) };
        {
            let snapper = snapper.clone();
            let snaps = snaps.clone();
            roles.push(HRole::Snap(0));
            bodies.push(Box::new(move || {
                for _ in 0..nsnap {
                    let s = snapper.snapshot().into_vec();
                    let mut vals = vec![];
                    for (_, _, _, v) in s {
                        if let DebugValue::Histogram(xs) = v {
                            vals.extend(xs.into_iter().map(|x| x.into_inner().to_bits()));
                        }
                    }
                    snaps.lock().unwrap().push((0, vals));
                }
            }));
        }
        // sometimes a second Snapshotter clone snapshots concurrently (each value must still be in exactly one
        // snapshot), and sometimes a thread registers NEW metrics while snapshots run (a metric whose registration
        // races a snapshot is listed from some snapshot on, with every value exactly once)
        let late = Arc::new(Mutex::new(Vec::<u64>::new())); // counter values of "late" seen by the snapshots
        let mut has_late = false;
        let mut second = false;
        if !witness && !targeted && r.chance(1, 3) {
            let snapper = snapper.clone();
            let snaps = snaps.clone();
            let late = late.clone();
            second = true;
            roles.insert(0, HRole::Snap(1));
            bodies.insert(0, Box::new(move || {
                let s = snapper.snapshot().into_vec();
                let mut vals = vec![];
                for (ck, _, _, v) in s {
                    match v {
                        DebugValue::Histogram(xs) => vals.extend(xs.into_iter().map(|x| x.into_inner().to_bits())),
                        DebugValue::Counter(c) if ck.key().name() == "late" => late.lock().unwrap().push(c),
                        _ => {}
                    }
                }
                snaps.lock().unwrap().push((1, vals));
            }));
            out.count("concurrent.second_snapshotter");
        }
        let mut late_val = None;
        if !witness && !targeted && r.chance(1, 3) {
            has_late = true;
            let rec2 = rec.clone();
            let v = next_val as f64;
            recorded.push(v.to_bits());
            late_val = Some(v.to_bits());
            roles.insert(0, HRole::Late);
            bodies.insert(0, Box::new(move || {
                let k = Key::from_parts("late", vec![Label::new("host", "a")]);
                rec2.register_counter(&k, &META).increment(1);
                rec2.describe_counter(KeyName::from("late"), Some(Unit::Count), SharedString::from("registered late"));
                rec2.register_histogram(&Key::from_name("lat2"), &META).record(v);
            }));
            out.count("concurrent.late_registration");
        }
        let nt = bodies.len();
        let mut sch = vec![];
        if witness {
            sch.extend(WITNESS);
        } else if targeted {
            // snapshot thread advances `a` grants into its drain, then the recorder runs to completion, then the rest
            let a = 1 + (i / 4) % 6;
            sch.extend(vec![nt - 1; a]);
            sch.extend(vec![0; 12]);
            sch.extend(vec![nt - 1; 60]);
        }
        let mut cur = r.below(nt);
        for _ in 0..120 {
            if r.chance(2, 5) {
                cur = r.below(nt);
            }
            sch.push(cur);
        }
        let run = crate::sched::run(bodies, &sch);
        out.count(&format!("concurrent.prefill={}", prefill));
        if run.deadlock || run.timed_out || !run.panicked.is_empty() {
            out.oracle_fail("record racing snapshot: deadlock, timeout or panic", &format!("{:?}", run.trace));
            continue;
        }
        // one more snapshot at quiescence collects what is left
        let final_vals: Vec<u64>;
        {
            let s = snapper.snapshot().into_vec();
            let mut vals = vec![];
            let mut late_final = None;
            let names: Vec<String> = s.iter().map(|(ck, _, _, _)| format!("{}:{}", kind_tok(kind_of(ck.kind())), ck.key().name())).collect();
            for (ck, unit, desc, v) in s {
                match v {
                    DebugValue::Histogram(xs) => vals.extend(xs.into_iter().map(|x| x.into_inner().to_bits())),
                    DebugValue::Counter(c) if ck.key().name() == "late" => late_final = Some((c, unit, desc.map(|d| d.to_string()))),
                    _ => {}
                }
            }
            final_vals = vals;
            if has_late {
                let want = vec!["h:lat".to_string(), "c:late".to_string(), "h:lat2".to_string()];
                if names != want || late_final != Some((1, Some(Unit::Count), Some("registered late".to_string()))) {
                    out.oracle_fail(
                        "metrics registered while snapshots were running are not listed (in registration order, with value and description) at quiescence [no-known-signature]",
                        &format!("listed {:?} late {:?}; trace {:?}", names, late_final, run.trace),
                    );
                }
                if late.lock().unwrap().iter().any(|c| *c > 1) {
                    out.oracle_fail("a racing snapshot shows a counter value it never had [no-known-signature]", &format!("{:?}", late.lock().unwrap()));
                }
            }
        }
        let by_thread = snaps.lock().unwrap().clone();
        let mut snaps: Vec<Vec<u64>> = by_thread.iter().map(|x| x.1.clone()).collect();
        snaps.push(final_vals.clone());
        if run.trace.iter().any(|(_, id)| id.starts_with("bkt.clear")) && run.trace.iter().any(|(_, id)| *id == "blk.push.claim") {
            out.nontrivial();
        }
        // ---- the K1 steps of this run, EXACTLY (Lean `k1Step`; `C05.conservation_except_K1`, `C19.conc_hist_partition_partial`
        // hold for runs without one), and WHICH values they are: the thread's value list (record_many expanded) at the
        // number of pushes it had completed.  In a scene with a late registration two buckets (`lat`, `lat2`) share the
        // point ids, so there the count can only be too large (a detach of one bucket blamed for a claim on the other).
        let expanded = |t: usize| -> Vec<u64> {
            match roles[t] {
                HRole::Rec(k) => rec_calls[k].iter().flat_map(|(v, c)| std::iter::repeat(v.to_bits()).take(*c)).collect(),
                HRole::Late => late_val.into_iter().collect(),
                HRole::Snap(_) => vec![],
            }
        };
        let claims = h_k1_claims(&run.trace);
        let k1_exact = crate::c05::signatures_of_trace(&run.trace).k1_exact;
        if claims.len() != k1_exact {
            out.oracle_fail(
                "harness: the K1 claims of the trace (c19) and the exact K1 count (c05::signatures_of_trace) differ [no-known-signature]",
                &format!("{:?} vs {}; trace {:?}", claims, k1_exact, run.trace),
            );
        }
        let mut k1_vals: Vec<u64> = vec![];
        for (t, done) in &claims {
            match expanded(*t).get(*done) {
                Some(v) => k1_vals.push(*v),
                None => out.oracle_fail(
                    "harness: a K1 claim of the trace belongs to no record() of its thread [no-known-signature]",
                    &format!("thread {} after {} completed pushes; trace {:?}", t, done, run.trace),
                ),
            }
        }
        if k1_exact > 0 {
            out.count("concurrent.runs-with-a-K1-step(Lean k1Step)");
        }
        // ---- replay on the Lean model (`debug hconc`, Model/DebuggingHist.lean): every snapshot of every thread, value by
        // value in the order shown, the K1 count, the blamed values and what the snapshot after the run shows must be what
        // the bucket step machine gives under the executed schedule
        if !has_late {
            let nsnapth = if second { 2 } else { 1 };
            let lid = |t: usize| match roles[t] {
                HRole::Rec(k) => k,
                HRole::Snap(j) => nrec + j,
                HRole::Late => usize::MAX,
            };
            let toks: Vec<String> =
                run.trace.iter().map(|(t, id)| if h_is_bucket_point(id) { format!("{}", lid(*t)) } else { format!("{}n", lid(*t)) }).collect();
            let labels: Vec<&str> = run.trace.iter().filter(|(_, id)| h_is_bucket_point(id)).map(|x| x.1).collect();
            let recs_tok: Vec<String> = rec_calls
                .iter()
                .map(|calls| {
                    if calls.is_empty() {
                        "-".to_string()
                    } else {
                        calls.iter().map(|(v, c)| if *c == 1 { format!("{}", *v as u64) } else { format!("{}*{}", *v as u64, c) }).collect::<Vec<_>>().join("+")
                    }
                })
                .collect();
            let pre_tok = if prefilled.is_empty() { "-".to_string() } else { prefilled.iter().map(|b| format!("{}", f64::from_bits(*b) as u64)).collect::<Vec<_>>().join("+") };
            let snaps_tok: Vec<String> = (0..nsnapth).map(|j| if j == 0 { nsnap.to_string() } else { "1".to_string() }).collect();
            let per: Vec<String> = (0..nsnapth)
                .map(|j| {
                    let mine: Vec<String> = by_thread.iter().filter(|(jj, _)| *jj == j).map(|(_, vs)| h_vals_tok(vs)).collect();
                    if mine.is_empty() { ".".to_string() } else { mine.join("+") }
                })
                .collect();
            out.op(
                &format!("debug hconc 64 {} {} {} {}", pre_tok, recs_tok.join(","), snaps_tok.join(","), if toks.is_empty() { "-".to_string() } else { toks.join(".") }),
                &format!("{} | k1={} | k1vals={} | snaps={} | pending={}", labels.join("."), k1_exact, h_vals_tok(&k1_vals), per.join(","), h_vals_tok(&final_vals)),
            );
            out.count("concurrent.replayed-on-the-Lean-model(debug hconc)");
        }
        // ---- independent of the model: multiset accounting over all snapshots
        let mut seen: HashMap<u64, usize> = HashMap::new();
        for s in &snaps {
            for v in s {
                *seen.entry(*v).or_insert(0) += 1;
            }
        }
        let mut want: HashMap<u64, usize> = HashMap::new();
        for v in &recorded {
            *want.entry(*v).or_insert(0) += 1;
        }
        let mut blamed: HashMap<u64, usize> = HashMap::new();
        for v in &k1_vals {
            *blamed.entry(*v).or_insert(0) += 1;
        }
        let mut dup: Vec<f64> = vec![];
        let mut invented: Vec<f64> = vec![];
        let mut lost: Vec<f64> = vec![];
        let mut unexcused: Vec<f64> = vec![];
        for (v, c) in &seen {
            let w = want.get(v).copied().unwrap_or(0);
            if w == 0 {
                invented.push(f64::from_bits(*v));
            } else if *c > w {
                dup.push(f64::from_bits(*v));
            }
        }
        for (v, w) in &want {
            let c = seen.get(v).copied().unwrap_or(0);
            if c < *w {
                for _ in 0..(*w - c) {
                    lost.push(f64::from_bits(*v));
                }
                // every missing occurrence must be one whose slot claim was a K1 step
                if *w - c > blamed.get(v).copied().unwrap_or(0) {
                    unexcused.push(f64::from_bits(*v));
                }
            }
        }
        lost.sort_by(|a, b| a.partial_cmp(b).unwrap());
        let show = |snaps: &Vec<Vec<u64>>| -> Vec<Vec<f64>> { snaps.iter().map(|s| s.iter().map(|b| f64::from_bits(*b)).collect()).collect() };
        if !dup.is_empty() || !invented.is_empty() {
            out.oracle_fail(
                "a histogram value appears in more snapshots than it was recorded, or a value that was never recorded appears [no-known-signature]",
                &format!("duplicated {:?} invented {:?}; snapshots {:?}; trace {:?}", dup, invented, show(&snaps), run.trace),
            );
        }
        if !lost.is_empty() {
            // excused as the known finding only when EVERY lost occurrence is a value whose own slot claim was a K1 step
            // (so: not more lost values than K1 steps, and no other value than theirs)
            let excused = unexcused.is_empty() && lost.len() <= k1_exact;
            out.oracle_fail(
                &format!("a recorded histogram value appears in no snapshot [{}]", if excused { "K1:straggler-push-on-detached-block" } else { "no-known-signature" }),
                &format!(
                    "lost {:?}; K1 steps in the trace {} (values {:?}); lost without a K1 step of their own {:?}; snapshots {:?}; trace {:?}",
                    lost,
                    k1_exact,
                    k1_vals.iter().map(|b| f64::from_bits(*b)).collect::<Vec<_>>(),
                    unexcused,
                    show(&snaps),
                    run.trace
                ),
            );
        }
        if witness {
            let ok = k1_exact == 1 && lost == vec![2.0] && show(&snaps) == vec![vec![1.0], vec![]];
            out.count(if ok { "concurrent.corpus:K-C19-K1-witness-replayed(value 2 in no snapshot)" } else { "concurrent.corpus:K-C19-K1-witness-did-not-replay" });
        }
    }
}
