//! C12 — idle metrics are dropped exactly when they were idle longer than the timeout.
//!
//! Stream A: the real `Recency<Key>` + `Registry<Key, GenerationalAtomicStorage>` under `quanta::Clock::mock()`,
//!           observed by the same loop as `Inner::get_recent_metrics` (counters, gauges, histograms).
//! Stream B: a real `PrometheusRecorder` built through the `verif_build_with_clock` hook, observed by `render()`.
//!
//! Both streams send the same ops to the Lean model (`recency …`) and run an implementation-side oracle that
//! re-states the property directly over the recorded history (time of the observations since the last change
//! of each metric), independent of the model.
#![allow(dead_code)]

use crate::expo;
use crate::util::*;
use metrics::{Key, Label, Recorder};
use metrics_exporter_prometheus::PrometheusBuilder;
use metrics_util::registry::{GenerationalAtomicStorage, Recency, Registry};
use metrics_util::{MetricKind, MetricKindMask};
use quanta::Clock;
use std::collections::BTreeMap;
use std::sync::atomic::Ordering;
use std::sync::Arc;
use std::time::Duration;

static META: metrics::Metadata<'static> = metrics::Metadata::new("mv", metrics::Level::INFO, None);

const KINDS: [char; 3] = ['c', 'g', 'h'];

fn mask_of(bits: u8) -> MetricKindMask {
    let mut m = MetricKindMask::NONE;
    if bits & 1 != 0 {
        m = m | MetricKindMask::COUNTER;
    }
    if bits & 2 != 0 {
        m = m | MetricKindMask::GAUGE;
    }
    if bits & 4 != 0 {
        m = m | MetricKindMask::HISTOGRAM;
    }
    m
}

fn kind_of(k: usize) -> MetricKind {
    match k {
        0 => MetricKind::Counter,
        1 => MetricKind::Gauge,
        _ => MetricKind::Histogram,
    }
}

/// one update, as decided by the generator
#[derive(Clone, Copy, Debug)]
enum Upd {
    Inc(u64),
    Abs(u64),
    Set(i64),
    Add(i64),
    Rec(i64),
    /// `Histogram::record_many(v, n)`: the default method, n × `record` (n = 0: no update at all)
    RecMany(i64, usize),
}

impl Upd {
    fn tok(&self) -> String {
        match self {
            Upd::Inc(n) => format!("inc:{}", n),
            Upd::Abs(n) => format!("abs:{}", n),
            Upd::Set(v) => format!("set:{}", v),
            Upd::Add(v) => format!("add:{}", v),
            Upd::Rec(v) => format!("rec:{}", v),
            Upd::RecMany(v, n) => format!("recmany:{}x{}", v, n),
        }
    }
}

/// the oracle's own tally of a metric's value
#[derive(Clone, Debug, PartialEq)]
enum Tally {
    C(u64),
    G(i64),
    H(u64, i64),
}

impl Tally {
    fn zero(kind: usize) -> Tally {
        match kind {
            0 => Tally::C(0),
            1 => Tally::G(0),
            _ => Tally::H(0, 0),
        }
    }
    fn apply(&mut self, u: Upd) {
        match (self, u) {
            (Tally::C(a), Upd::Inc(n)) => *a = a.wrapping_add(n),
            (Tally::C(a), Upd::Abs(n)) => *a = (*a).max(n),
            (Tally::G(a), Upd::Set(v)) => *a = v,
            (Tally::G(a), Upd::Add(v)) => *a += v,
            (Tally::H(c, s), Upd::Rec(v)) => {
                *c += 1;
                *s += v
            }
            (Tally::H(c, s), Upd::RecMany(v, n)) => {
                *c += n as u64;
                *s += v * n as i64
            }
            _ => unreachable!(),
        }
    }
    fn tok(&self) -> String {
        match self {
            Tally::C(a) => a.to_string(),
            Tally::G(a) => a.to_string(),
            Tally::H(c, s) => format!("{}+{}", c, s),
        }
    }
}

/// History oracle: what the property says, from the recorded history only.
///
/// Per metric: whether it is alive, its tallied value, the number of updates since it was (re-)created, and
/// the times of the observations that saw it since its last change (creation or update).  At an observation
/// at time `t` a covered metric must be gone iff one of those times is more than `timeout` before `t`;
/// everything else must still be there with its full value.
struct Oracle {
    mask: u8,
    timeout: Option<u64>,
    now: u64,
    life: BTreeMap<(usize, usize), Life>, // (kind, key index)
    /// ids whose `Recency` entry may no longer describe the registered metric: 1 = the metric was removed from the
    /// registry behind `Recency`'s back (`delete_*` / `clear`), so an entry may have outlived it (can only make a later
    /// drop come too EARLY); 2 = a stale-snapshot `should_store_*` was made for it (can also delay a drop).  Verdict
    /// failures on such ids are the finding K-C12-orphan-entry, not new violations.  Cleared when the id is dropped.
    tainted: BTreeMap<(usize, usize), u8>,
}

struct Life {
    tally: Tally,
    updates: u64,
    seen_since_change: Vec<u64>,
    changed_since_obs: bool,
}

impl Oracle {
    fn new(mask: u8, timeout: Option<u64>) -> Oracle {
        Oracle { mask, timeout, now: 0, life: BTreeMap::new(), tainted: BTreeMap::new() }
    }
    fn covered(&self, kind: usize) -> bool {
        self.timeout.is_some() && (self.mask >> kind) & 1 == 1
    }
    /// returns true when this (re-)creates the metric
    fn register(&mut self, id: (usize, usize)) -> bool {
        if self.life.contains_key(&id) {
            return false;
        }
        self.life.insert(
            id,
            Life { tally: Tally::zero(id.0), updates: 0, seen_since_change: vec![], changed_since_obs: true },
        );
        true
    }
    fn update(&mut self, id: (usize, usize), u: Upd) {
        self.register(id);
        let l = self.life.get_mut(&id).unwrap();
        l.tally.apply(u);
        if let Upd::RecMany(_, n) = u {
            // n single `record`s; none at all for n = 0 (the metric is registered, not updated)
            l.updates += n as u64;
            if n == 0 {
                return;
            }
        } else {
            l.updates += 1;
        }
        l.seen_since_change.clear();
        l.changed_since_obs = true;
    }
    fn taint(&mut self, id: (usize, usize), level: u8) {
        if self.covered(id.0) {
            let e = self.tainted.entry(id).or_insert(0);
            *e = (*e).max(level);
        }
    }
    /// `Registry::delete_*` from outside: the metric is gone (a later registration is a fresh series)
    fn ext_delete(&mut self, id: (usize, usize)) -> bool {
        let was = self.life.remove(&id).is_some();
        if was {
            self.taint(id, 1);
        }
        was
    }
    /// `Registry::clear`
    fn ext_clear(&mut self) {
        let ids: Vec<(usize, usize)> = self.life.keys().cloned().collect();
        for id in ids {
            self.ext_delete(id);
        }
    }
    /// the finding's reproduction is always counted; it is an oracle failure only once known_findings.json lists it
    fn orphan_finding(&self, out: &mut Out, what: &str, detail: &str) {
        out.count("finding.orphan-entry: reproduced (a Recency entry that no longer describes the registered metric decided a drop)");
        if known_has("K-C12-orphan-entry") {
            out.oracle_fail(&format!("K-C12-orphan-entry: {}", what), detail);
        }
    }
    /// one metric visited by a second observer through a handle of its live storage: kept or deleted?
    fn observe_one(&mut self, id: (usize, usize), kept: bool, keys: &[String], out: &mut Out) {
        let t = self.now;
        let covered = self.covered(id.0);
        let timeout = self.timeout;
        let l = match self.life.get_mut(&id) {
            Some(l) => l,
            None => return,
        };
        let idle_too_long = match timeout {
            Some(to) if covered => l.seen_since_change.iter().any(|t0| t - *t0 > to),
            _ => false,
        };
        let detail = format!(
            "{}:{} at t={} timeout={:?} (single visit by a second observer) observed-unchanged-at={:?} value {} kept={}",
            KINDS[id.0], keys[id.1], t, timeout, l.seen_since_change, l.tally.tok(), kept
        );
        let changed = l.changed_since_obs;
        if kept {
            l.seen_since_change.push(t);
            l.changed_since_obs = false;
        } else {
            self.life.remove(&id);
        }
        match (idle_too_long, kept) {
            (true, false) => {
                out.count("oracle.dropped");
                self.tainted.remove(&id);
            }
            (false, true) => out.count("oracle.kept.single-visit"),
            (true, true) => {
                let what = "covered metric kept although unchanged since an observation made more than the timeout ago";
                if self.tainted.get(&id) == Some(&2) {
                    self.orphan_finding(out, what, &detail);
                } else {
                    out.oracle_fail(what, &detail);
                }
            }
            (false, false) => {
                let why = if !covered {
                    "metric dropped although its kind is outside the mask or no timeout is set"
                } else if changed {
                    "metric dropped although it was updated (or created) since the previous observation"
                } else {
                    "metric dropped although idle for no longer than the timeout"
                };
                if covered && self.tainted.remove(&id).is_some() {
                    self.orphan_finding(out, why, &detail);
                } else {
                    out.oracle_fail(why, &detail);
                }
            }
        }
    }
    /// `seen`: what the implementation still has after the observation: id ↦ (generation if visible, value token)
    fn observe(
        &mut self,
        seen: &BTreeMap<(usize, usize), (Option<u64>, String)>,
        keys: &[String],
        out: &mut Out,
    ) {
        let t = self.now;
        let ids: Vec<(usize, usize)> = self.life.keys().cloned().collect();
        for id in ids {
            let covered = self.covered(id.0);
            let l = self.life.get_mut(&id).unwrap();
            let idle_too_long = match self.timeout {
                Some(to) if covered => l.seen_since_change.iter().any(|t0| t - *t0 > to),
                _ => false,
            };
            let name = format!("{}:{}", KINDS[id.0], keys[id.1]);
            match (idle_too_long, seen.get(&id)) {
                (true, Some(v)) => {
                    let what = "covered metric kept although unchanged since an observation made more than the timeout ago";
                    let detail = format!(
                        "{} at t={} timeout={:?} observed-unchanged-at={:?} still there as {:?}",
                        name, t, self.timeout, l.seen_since_change, v
                    );
                    l.seen_since_change.push(t);
                    l.changed_since_obs = false;
                    if self.tainted.get(&id) == Some(&2) {
                        self.orphan_finding(out, what, &detail);
                    } else {
                        out.oracle_fail(what, &detail);
                    }
                }
                (true, None) => {
                    out.count("oracle.dropped");
                    self.life.remove(&id);
                    self.tainted.remove(&id);
                }
                (false, None) => {
                    let why = if !covered {
                        "metric dropped although its kind is outside the mask or no timeout is set"
                    } else if l.changed_since_obs {
                        "metric dropped although it was updated (or created) since the previous observation"
                    } else {
                        "metric dropped although idle for no longer than the timeout"
                    };
                    let detail = format!(
                        "{} at t={} timeout={:?} mask={} observed-unchanged-at={:?} value was {}",
                        name,
                        t,
                        self.timeout,
                        self.mask,
                        l.seen_since_change,
                        l.tally.tok()
                    );
                    self.life.remove(&id);
                    if covered && self.tainted.remove(&id).is_some() {
                        self.orphan_finding(out, why, &detail);
                    } else {
                        out.oracle_fail(why, &detail);
                    }
                }
                (false, Some((gen, val))) => {
                    if *val != l.tally.tok() {
                        out.oracle_fail(
                            "kept metric does not show its full value",
                            &format!("{} at t={} want {} got {}", name, t, l.tally.tok(), val),
                        );
                    }
                    if let Some(g) = gen {
                        if *g != l.updates {
                            out.oracle_fail(
                                "generation is not the number of updates since the metric was (re-)created",
                                &format!("{} at t={} want {} got {}", name, t, l.updates, g),
                            );
                        }
                    }
                    if l.changed_since_obs {
                        out.count("oracle.kept.updated");
                    } else if covered {
                        out.count("oracle.kept.within-timeout");
                    } else {
                        out.count("oracle.kept.not-covered");
                    }
                    l.seen_since_change.push(t);
                    l.changed_since_obs = false;
                }
            }
        }
        for id in seen.keys() {
            if !self.life.contains_key(id) {
                out.oracle_fail(
                    "observation shows a metric that is not registered (never created, or dropped and not re-created)",
                    &format!("{}:{} at t={}", KINDS[id.0], keys[id.1], t),
                );
            }
        }
    }
}

// ---------------------------------------------------------------------------------------------
// generator

#[derive(Clone, Debug)]
enum GOp {
    Reg(usize, usize),
    Upd(usize, usize, Upd),
    Adv(u64),
    Observe,
    /// `PrometheusHandle::run_upkeep` (stream B only; stream A has nothing to drain into)
    Upkeep,
    /// `Registry::delete_counter|gauge|histogram(key)` called from outside `Recency` (stream A only: public API of
    /// metrics-util; `Recency` has no way to learn of it)
    Del(usize, usize),
    /// `Registry::clear()` (stream A only)
    Clear,
    /// a second observer takes its handle snapshot (`get_*_handles()` of all three kinds) — the first statement of each
    /// loop of `get_recent_metrics` of an overlapping render (stream A only)
    Snap,
    /// that second observer's loop iteration for one metric of its (possibly stale) snapshot:
    /// `should_store_*(key, handle.get_generation(), registry)`; no-op when the snapshot does not hold the metric
    Stale(usize, usize),
}

#[derive(Clone, Debug)]
struct Case {
    mask: u8,
    timeout: Option<u64>,
    ops: Vec<GOp>,
}

fn gen_upd(r: &mut Rng, kind: usize) -> Upd {
    match kind {
        0 => {
            if r.chance(3, 4) {
                // increment by 0 / absolute below the value: updates that leave the value unchanged
                Upd::Inc(*r.pick(&[0u64, 0, 1, 2, 7, u64::MAX]))
            } else {
                Upd::Abs(*r.pick(&[0u64, 0, 5, 100]))
            }
        }
        1 => {
            if r.chance(1, 2) {
                Upd::Set(*r.pick(&[0i64, 0, 1, -3, 42]))
            } else {
                Upd::Add(*r.pick(&[0i64, 0, 1, -1, 10]))
            }
        }
        _ => {
            if r.chance(1, 4) {
                Upd::RecMany(*r.pick(&[0i64, 1, -2, 1000]), *r.pick(&[0usize, 1, 3]))
            } else {
                Upd::Rec(*r.pick(&[0i64, 1, -2, 1000]))
            }
        }
    }
}

fn time_steps(timeout: Option<u64>) -> Vec<u64> {
    match timeout {
        Some(t) => vec![0, 1, t.saturating_sub(1), t, t + 1, 2 * t],
        None => vec![0, 1, 9, 10, 11, 20],
    }
}

fn gen_case(r: &mut Rng, nkeys: usize, kinds: &[usize]) -> Case {
    gen_case_w(r, nkeys, kinds, 0)
}

fn gen_case_w(r: &mut Rng, nkeys: usize, kinds: &[usize], upkeep_weight: usize) -> Case {
    let mask = *r.pick(&[0u8, 1, 2, 4, 3, 5, 6, 7, 7, 7, 7, 3, 6]);
    let timeout = if r.chance(1, 8) { None } else { Some(*r.pick(&[0u64, 1, 2, 3, 10, 10, 1000, 1_000_000_000, 4_294_967_297, 10_000_000_000, 3_600_000_000_000])) };
    let steps = time_steps(timeout);
    let nops = r.range(4, 40);
    let mut ops = vec![];
    // biased towards few ids so that the same key recurs under two / three kinds
    let nk = r.range(1, nkeys);
    for _ in 0..nops {
        let kind = *r.pick(kinds);
        let key = r.below(nk);
        match r.weighted(&[1, 5, 5, 5, upkeep_weight]) {
            0 => ops.push(GOp::Reg(kind, key)),
            1 => ops.push(GOp::Upd(kind, key, gen_upd(r, kind))),
            2 => ops.push(GOp::Adv(*r.pick(&steps))),
            3 => ops.push(GOp::Observe),
            _ => ops.push(GOp::Upkeep),
        }
    }
    ops.push(GOp::Observe);
    Case { mask, timeout, ops }
}

fn u(kind: usize, key: usize, u: Upd) -> GOp {
    GOp::Upd(kind, key, u)
}

/// hand-picked histories (past findings first)
fn corpus() -> Vec<Case> {
    use GOp::{Adv, Observe, Reg};
    vec![
        // the design-round finding: counter and gauge of the same key share one Recency slot.
        // (a) the counter is updated after the observation, yet it is dropped: its new generation equals the
        //     one the gauge left in the shared slot
        Case {
            mask: 7,
            timeout: Some(10),
            ops: vec![
                u(0, 0, Upd::Inc(5)),
                u(1, 0, Upd::Set(1)),
                u(1, 0, Upd::Set(2)),
                Observe,
                u(0, 0, Upd::Inc(1)),
                Adv(11),
                Observe,
            ],
        },
        // (b) two idle metrics with different generations keep each other alive for ever
        Case {
            mask: 7,
            timeout: Some(10),
            ops: vec![u(0, 0, Upd::Inc(5)), u(1, 0, Upd::Set(1)), u(1, 0, Upd::Set(2)), Observe, Adv(11), Observe, Adv(100), Observe],
        },
        // (c) counter observed at t=0, gauge created and set once, first observed at t=100
        Case { mask: 7, timeout: Some(10), ops: vec![u(0, 0, Upd::Inc(1)), Observe, Adv(100), u(1, 0, Upd::Set(3)), Observe, Adv(5), Observe] },
        // (d) three kinds under one key, the histogram's timer is restarted by the others
        Case {
            mask: 7,
            timeout: Some(3),
            ops: vec![u(0, 0, Upd::Inc(1)), u(1, 0, Upd::Set(1)), u(2, 0, Upd::Rec(1)), Observe, Adv(2), u(0, 0, Upd::Inc(0)), Observe, Adv(2), Observe, Adv(4), Observe],
        },
        // boundary: exactly the timeout keeps, one tick more drops
        Case { mask: 7, timeout: Some(10), ops: vec![u(0, 0, Upd::Inc(1)), Observe, Adv(10), Observe, Adv(1), Observe] },
        Case { mask: 7, timeout: Some(10), ops: vec![u(1, 1, Upd::Set(4)), Observe, Adv(9), Observe, Adv(1), Observe, Adv(1), Observe, Observe] },
        // value-preserving updates count as updates
        Case { mask: 7, timeout: Some(10), ops: vec![u(0, 0, Upd::Inc(1)), Observe, Adv(11), u(0, 0, Upd::Inc(0)), Observe, Adv(11), u(0, 0, Upd::Abs(0)), Observe] },
        Case { mask: 2, timeout: Some(10), ops: vec![u(1, 0, Upd::Set(7)), Observe, Adv(11), u(1, 0, Upd::Set(7)), Observe, Adv(11), u(1, 0, Upd::Add(0)), Observe, Adv(11), Observe] },
        // outside the mask / no timeout: never dropped
        Case { mask: 1, timeout: Some(1), ops: vec![u(0, 0, Upd::Inc(1)), u(1, 0, Upd::Set(1)), u(2, 0, Upd::Rec(1)), Observe, Adv(2), Observe, Adv(2), Observe] },
        Case { mask: 7, timeout: None, ops: vec![u(0, 0, Upd::Inc(1)), u(1, 0, Upd::Set(1)), Observe, Adv(1000), Observe] },
        Case { mask: 0, timeout: Some(1), ops: vec![u(0, 0, Upd::Inc(1)), u(2, 1, Upd::Rec(1)), Observe, Adv(1000), Observe] },
        // dropped, registered and emitted again: a fresh series from zero
        Case { mask: 7, timeout: Some(10), ops: vec![u(0, 0, Upd::Inc(5)), Observe, Adv(11), Observe, u(0, 0, Upd::Inc(2)), Observe, Adv(11), Observe, Reg(0, 0), Observe] },
        Case { mask: 4, timeout: Some(2), ops: vec![u(2, 0, Upd::Rec(5)), u(2, 0, Upd::Rec(6)), Observe, Adv(3), Observe, u(2, 0, Upd::Rec(1)), Observe] },
        // registered but never updated (generation 0), then idle
        Case { mask: 7, timeout: Some(10), ops: vec![Reg(1, 2), Observe, Adv(10), Reg(1, 2), Observe, Adv(1), Observe] },
        // timeout zero
        Case { mask: 7, timeout: Some(0), ops: vec![u(0, 0, Upd::Inc(1)), Observe, Observe, Adv(1), Observe] },
    ]
}

/// histories with `Registry::delete_*` / `Registry::clear` from outside `Recency`, and with a second observer's stale
/// handle snapshot (stream A only).  The first ones are the witnesses of K-C12-orphan-entry (Lean:
/// C12.orphan_entry_drops_updated_metric, C12.overlapping_render_orphans_entry).
fn corpus_del() -> Vec<Case> {
    use GOp::{Adv, Clear, Del, Observe, Reg, Snap, Stale};
    vec![
        // W3: entry (1, 0) outlives delete_counter; the re-created counter (one increment: generation 1) is dropped at
        // the first observation after T although created AND updated since the previous observation
        Case { mask: 7, timeout: Some(10), ops: vec![u(0, 0, Upd::Inc(1)), Observe, Del(0, 0), u(0, 0, Upd::Inc(1)), Adv(11), Observe, Observe] },
        // the same through clear(), gauge and histogram
        Case { mask: 7, timeout: Some(10), ops: vec![u(1, 0, Upd::Set(4)), u(2, 1, Upd::Rec(3)), Observe, Clear, Adv(11), u(1, 0, Upd::Set(5)), u(2, 1, Upd::Rec(1)), Observe, Observe] },
        // T early: re-created at t=8, first seen at t=9 (kept, the stale stamp 0 stays), dropped at t=11: idle for 2 <= T
        Case { mask: 1, timeout: Some(10), ops: vec![u(0, 0, Upd::Inc(1)), Observe, Del(0, 0), Adv(8), u(0, 0, Upd::Inc(7)), Adv(1), Observe, Adv(2), Observe] },
        // different generation after re-creation: the orphan entry is refreshed, nothing goes wrong
        Case { mask: 7, timeout: Some(10), ops: vec![u(0, 0, Upd::Inc(1)), Observe, Del(0, 0), u(0, 0, Upd::Inc(1)), u(0, 0, Upd::Inc(1)), Adv(11), Observe, Adv(10), Observe, Adv(1), Observe] },
        // delete of an absent metric / of a metric registered under another kind; outside the mask; no timeout
        Case { mask: 7, timeout: Some(10), ops: vec![u(0, 0, Upd::Inc(1)), Del(1, 0), Del(0, 1), Observe, Adv(11), Observe] },
        Case { mask: 2, timeout: Some(10), ops: vec![u(0, 0, Upd::Inc(1)), Observe, Del(0, 0), u(0, 0, Upd::Inc(1)), Adv(11), Observe, Adv(11), Observe] },
        Case { mask: 7, timeout: None, ops: vec![u(0, 0, Upd::Inc(1)), Observe, Clear, u(0, 0, Upd::Inc(1)), Adv(11), Observe] },
        // registered only (generation 0) before and after the delete
        Case { mask: 7, timeout: Some(3), ops: vec![Reg(1, 2), Observe, Del(1, 2), Reg(1, 2), Adv(4), Observe, Observe] },
        // W4: overlapping renders R1, R2 sequentialised at loop-iteration granularity: R2 snapshots, R1 (Observe) drops
        // the idle counter and removes its entry, R2's iteration re-inserts (1, 11) and answers "keep"; the re-created
        // counter is dropped 11 ticks later although just created and updated
        Case { mask: 7, timeout: Some(10), ops: vec![u(0, 0, Upd::Inc(1)), Observe, Adv(11), Snap, Observe, Stale(0, 0), Adv(11), u(0, 0, Upd::Inc(1)), Observe, Observe] },
        // R2's stale handle deletes the re-created metric outright
        Case { mask: 7, timeout: Some(10), ops: vec![u(0, 0, Upd::Inc(1)), Observe, Adv(11), Snap, Observe, Stale(0, 0), u(0, 0, Upd::Inc(1)), Adv(11), Stale(0, 0), Observe] },
        // a stale visit with a different generation restarts the timer of a live idle metric (kept too long)
        Case { mask: 7, timeout: Some(10), ops: vec![u(1, 0, Upd::Set(1)), u(1, 0, Upd::Set(2)), Snap, Del(1, 0), u(1, 0, Upd::Set(3)), Observe, Adv(6), Stale(1, 0), Adv(6), Observe, Adv(6), Observe, Adv(11), Observe] },
        // snapshot handle of a live metric: an ordinary second observer
        Case { mask: 7, timeout: Some(10), ops: vec![u(0, 0, Upd::Inc(1)), Snap, Stale(0, 0), Adv(11), Stale(0, 0), Observe] },
    ]
}

/// seeded scenes around an external delete: n updates, observe, delete / clear, n' updates (n' = n half of the time),
/// clock steps around the timeout, observations
fn gen_del_scene(r: &mut Rng) -> Case {
    let mask = *r.pick(&[7u8, 7, 7, 1, 2, 4, 3, 6, 0]);
    let timeout = if r.chance(1, 10) { None } else { Some(*r.pick(&[1u64, 2, 10, 10, 1000, 10_000_000_000])) };
    let steps = time_steps(timeout);
    let kind = r.below(3);
    let key = r.below(2);
    let mut ops = vec![];
    let n = r.range(0, 3);
    if n == 0 {
        ops.push(GOp::Reg(kind, key));
    }
    for _ in 0..n {
        ops.push(GOp::Upd(kind, key, gen_upd_single(r, kind)));
    }
    if r.chance(1, 3) {
        let k2 = r.below(3);
        ops.push(GOp::Upd(k2, r.below(2), gen_upd_single(r, k2)));
    }
    if r.chance(3, 4) {
        ops.push(GOp::Observe);
    }
    if r.chance(1, 3) {
        ops.push(GOp::Upd(kind, key, gen_upd_single(r, kind)));
    }
    ops.push(GOp::Adv(*r.pick(&steps)));
    if r.chance(1, 3) {
        ops.push(GOp::Snap);
    }
    ops.push(if r.chance(1, 4) { GOp::Clear } else { GOp::Del(kind, key) });
    if r.chance(1, 4) {
        ops.push(GOp::Observe);
    }
    ops.push(GOp::Adv(*r.pick(&steps)));
    let n2 = if r.chance(1, 2) { n } else { r.range(0, 3) };
    if n2 == 0 {
        ops.push(GOp::Reg(kind, key));
    }
    for _ in 0..n2 {
        ops.push(GOp::Upd(kind, key, gen_upd_single(r, kind)));
    }
    for _ in 0..r.range(1, 4) {
        match r.below(5) {
            0 => ops.push(GOp::Upd(kind, key, gen_upd_single(r, kind))),
            1 => ops.push(GOp::Stale(kind, key)),
            _ => {}
        }
        ops.push(GOp::Adv(*r.pick(&steps)));
        ops.push(GOp::Observe);
    }
    Case { mask, timeout, ops }
}

/// an update that bumps the generation exactly once (`record_many(v, n)` is n updates)
fn gen_upd_single(r: &mut Rng, kind: usize) -> Upd {
    loop {
        let u = gen_upd(r, kind);
        if !matches!(u, Upd::RecMany(..)) {
            return u;
        }
    }
}

/// sprinkle external deletes / clears / snapshot visits over a seeded history (stream A)
fn sprinkle_del(r: &mut Rng, c: &mut Case, nkeys: usize) {
    let n = r.range(1, 4);
    for _ in 0..n {
        let at = r.below(c.ops.len());
        let kind = r.below(3);
        let key = r.below(nkeys);
        let op = match r.weighted(&[5, 1, 2, 3]) {
            0 => GOp::Del(kind, key),
            1 => GOp::Clear,
            2 => GOp::Snap,
            _ => GOp::Stale(kind, key),
        };
        c.ops.insert(at, op);
    }
}

// ---------------------------------------------------------------------------------------------
// stream A: Recency + Registry directly

const KEY_POOL: [&str; 4] = ["same", "a", "req{code=200}", "b"];

fn key_of(s: &str) -> Key {
    match s.find('{') {
        None => Key::from_name(s.to_string()),
        Some(i) => {
            let name = &s[..i];
            let body = &s[i + 1..s.len() - 1];
            let labels: Vec<Label> = body
                .split(',')
                .map(|kv| {
                    let (k, v) = kv.split_once('=').unwrap();
                    Label::new(k.to_string(), v.to_string())
                })
                .collect();
            Key::from_parts(name.to_string(), labels)
        }
    }
}

fn gen_number<T: std::fmt::Debug>(g: T) -> u64 {
    // `Generation` is opaque; its Debug text is `Generation(<n>)`
    let s = format!("{:?}", g);
    s.trim_start_matches("Generation(").trim_end_matches(')').parse().expect("Generation debug text")
}

fn model_new(out: &mut Out, c: &Case) {
    out.op(
        &format!(
            "recency new {} {} 1",
            c.mask,
            match c.timeout {
                Some(t) => t.to_string(),
                None => "~".into(),
            }
        ),
        "ok",
    );
    out.count(&format!("cfg.mask={}", c.mask));
    out.count(match c.timeout {
        Some(_) => "cfg.timeout=some",
        None => "cfg.timeout=none",
    });
}

fn fmt_seen(seen: &BTreeMap<(usize, usize), (Option<u64>, String)>, keys: &[String]) -> String {
    let mut items: Vec<String> = seen
        .iter()
        .map(|((k, i), (g, v))| match g {
            Some(g) => format!("{}/{}/{}/{}", KINDS[*k], hexs(&keys[*i]), g, v),
            None => format!("{}/{}/{}", KINDS[*k], hexs(&keys[*i]), v),
        })
        .collect();
    items.sort();
    list(items)
}

fn count_case_shape(out: &mut Out, c: &Case) {
    let mut ids: BTreeMap<usize, Vec<usize>> = BTreeMap::new();
    for op in &c.ops {
        if let GOp::Upd(k, i, _) | GOp::Reg(k, i) = op {
            let e = ids.entry(*i).or_default();
            if !e.contains(k) {
                e.push(*k);
            }
        }
    }
    let maxkinds = ids.values().map(|v| v.len()).max().unwrap_or(0);
    out.count(&format!("case.max-kinds-per-key={}", maxkinds));
}

fn run_registry_case(out: &mut Out, c: &Case) {
    let keys: Vec<String> = KEY_POOL.iter().map(|s| s.to_string()).collect();
    let rkeys: Vec<Key> = keys.iter().map(|s| key_of(s)).collect();
    let (clock, mock) = Clock::mock();
    let registry: Registry<Key, GenerationalAtomicStorage> = Registry::new(GenerationalAtomicStorage::atomic());
    let recency: Recency<Key> = Recency::new(clock, mask_of(c.mask), c.timeout.map(Duration::from_nanos));
    let mut oracle = Oracle::new(c.mask, c.timeout);
    model_new(out, c);
    count_case_shape(out, c);
    let index_of = |k: &Key| rkeys.iter().position(|x| x == k).unwrap();
    let mut observes = 0;
    let drops_before = out.counters.get("oracle.dropped").cloned().unwrap_or(0);
    let mut snapshot = None;
    for op in &c.ops {
        match op {
            GOp::Reg(kind, i) => {
                match kind {
                    0 => registry.get_or_create_counter(&rkeys[*i], |_| ()),
                    1 => registry.get_or_create_gauge(&rkeys[*i], |_| ()),
                    _ => registry.get_or_create_histogram(&rkeys[*i], |_| ()),
                }
                oracle.register((*kind, *i));
                out.op(&format!("recency reg {} {}", KINDS[*kind], hexs(&keys[*i])), "ok");
                out.count("op.reg");
            }
            GOp::Upd(kind, i, up) => {
                use metrics::{CounterFn, GaugeFn, HistogramFn};
                let fresh = oracle.register((*kind, *i));
                match (kind, up) {
                    (0, Upd::Inc(n)) => registry.get_or_create_counter(&rkeys[*i], |c| CounterFn::increment(c, *n)),
                    (0, Upd::Abs(n)) => registry.get_or_create_counter(&rkeys[*i], |c| c.absolute(*n)),
                    (1, Upd::Set(v)) => registry.get_or_create_gauge(&rkeys[*i], |g| g.set(*v as f64)),
                    (1, Upd::Add(v)) => registry.get_or_create_gauge(&rkeys[*i], |g| {
                        if *v >= 0 {
                            GaugeFn::increment(g, *v as f64)
                        } else {
                            GaugeFn::decrement(g, -*v as f64)
                        }
                    }),
                    (2, Upd::Rec(v)) => registry.get_or_create_histogram(&rkeys[*i], |h| h.record(*v as f64)),
                    (2, Upd::RecMany(v, n)) => registry.get_or_create_histogram(&rkeys[*i], |h| h.record_many(*v as f64, *n)),
                    _ => unreachable!(),
                }
                let before = oracle.life.get(&(*kind, *i)).map(|l| l.tally.clone());
                oracle.update((*kind, *i), *up);
                let after = oracle.life.get(&(*kind, *i)).map(|l| l.tally.clone());
                if before == after && !fresh {
                    out.count("op.upd.value-preserving");
                }
                if let Upd::RecMany(v, n) = up {
                    // the `Recency` model has no `record_many`: by the trait's default method it is n × `record`
                    // on a registered histogram (`Generational` must not override it without bumping the generation)
                    out.op(&format!("recency reg h {}", hexs(&keys[*i])), "ok");
                    for _ in 0..*n {
                        out.op(&format!("recency upd h {} rec:{}", hexs(&keys[*i]), v), "ok");
                    }
                    out.count(&format!("op.upd.record_many.n={}", n));
                } else {
                    out.op(&format!("recency upd {} {} {}", KINDS[*kind], hexs(&keys[*i]), up.tok()), "ok");
                }
                out.count("op.upd");
                // generation and value right after the update (a re-created metric starts from zero)
                let got = match kind {
                    0 => registry
                        .get_counter(&rkeys[*i])
                        .map(|c| (gen_number(c.get_generation()), c.get_inner().load(Ordering::Acquire).to_string())),
                    1 => registry.get_gauge(&rkeys[*i]).map(|g| {
                        (gen_number(g.get_generation()), gauge_tok(f64::from_bits(g.get_inner().load(Ordering::Acquire))))
                    }),
                    _ => registry
                        .get_histogram(&rkeys[*i])
                        .map(|h| (gen_number(h.get_generation()), hist_tok(&h.get_inner().data()))),
                };
                let ans = match &got {
                    Some((g, v)) => format!("{}/{}", g, v),
                    None => "~".into(),
                };
                out.op(&format!("recency get {} {}", KINDS[*kind], hexs(&keys[*i])), &ans);
                let l = oracle.life.get(&(*kind, *i)).unwrap();
                let want = format!("{}/{}", l.updates, l.tally.tok());
                if ans != want {
                    out.oracle_fail(
                        if fresh {
                            "a (re-)registered metric does not start from zero / generation 0"
                        } else {
                            "an update is not reflected exactly once in value and generation"
                        },
                        &format!("{}:{} want {} got {}", KINDS[*kind], keys[*i], want, ans),
                    );
                }
            }
            GOp::Adv(n) => {
                mock.increment(*n);
                oracle.now += *n;
                out.op(&format!("recency adv {}", n), "ok");
                out.count(&format!(
                    "op.adv.{}",
                    match c.timeout {
                        Some(t) if *n == t && t > 1 => "timeout",
                        Some(t) if *n == t + 1 && t > 1 => "timeout+1",
                        Some(t) if *n + 1 == t && t > 2 => "timeout-1",
                        Some(t) if *n == 2 * t && t > 1 => "2*timeout",
                        _ if *n == 0 => "0",
                        _ if *n == 1 => "1",
                        _ => "other",
                    }
                ));
            }
            GOp::Upkeep => {}
            GOp::Del(kind, i) => {
                let existed = match kind {
                    0 => registry.delete_counter(&rkeys[*i]),
                    1 => registry.delete_gauge(&rkeys[*i]),
                    _ => registry.delete_histogram(&rkeys[*i]),
                };
                let was = oracle.ext_delete((*kind, *i));
                if was != existed {
                    out.oracle_fail(
                        "Registry::delete_* answer is not whether the metric was registered",
                        &format!("{}:{} answered {} registered {}", KINDS[*kind], keys[*i], existed, was),
                    );
                }
                out.op(&format!("recency del {} {}", KINDS[*kind], hexs(&keys[*i])), if existed { "1" } else { "0" });
                out.count(if existed { "op.del.registered" } else { "op.del.absent" });
            }
            GOp::Clear => {
                registry.clear();
                oracle.ext_clear();
                let left = registry.get_counter_handles().len() + registry.get_gauge_handles().len() + registry.get_histogram_handles().len();
                if left != 0 {
                    out.oracle_fail("Registry::clear left metrics behind", &format!("{} metrics", left));
                }
                out.op("recency clear", "ok");
                out.count("op.clear");
            }
            GOp::Snap => {
                snapshot = Some((registry.get_counter_handles(), registry.get_gauge_handles(), registry.get_histogram_handles()));
                out.count("op.snap");
            }
            GOp::Stale(kind, i) => {
                // the generation is read from the snapshot's handle (it may belong to storage that has been deleted since)
                let id = (*kind, *i);
                // (generation passed, answer, snapshot handle is the storage registered under the key right now)
                let visit: Option<(u64, bool, bool)> = snapshot.as_ref().and_then(|(cs, gs, hs)| match kind {
                    0 => cs.get(&rkeys[*i]).map(|h| {
                        let same = registry.get_counter(&rkeys[*i]).map(|c| Arc::ptr_eq(c.get_inner(), h.get_inner())).unwrap_or(false);
                        let g = h.get_generation();
                        (gen_number(g), recency.should_store_counter(&rkeys[*i], g, &registry), same)
                    }),
                    1 => gs.get(&rkeys[*i]).map(|h| {
                        let same = registry.get_gauge(&rkeys[*i]).map(|c| Arc::ptr_eq(c.get_inner(), h.get_inner())).unwrap_or(false);
                        let g = h.get_generation();
                        (gen_number(g), recency.should_store_gauge(&rkeys[*i], g, &registry), same)
                    }),
                    _ => hs.get(&rkeys[*i]).map(|h| {
                        let same = registry.get_histogram(&rkeys[*i]).map(|c| Arc::ptr_eq(c.get_inner(), h.get_inner())).unwrap_or(false);
                        let g = h.get_generation();
                        (gen_number(g), recency.should_store_histogram(&rkeys[*i], g, &registry), same)
                    }),
                });
                if let Some((g, keep, same)) = visit {
                    let registered = match kind {
                        0 => registry.get_counter(&rkeys[*i]).is_some(),
                        1 => registry.get_gauge(&rkeys[*i]).is_some(),
                        _ => registry.get_histogram(&rkeys[*i]).is_some(),
                    };
                    out.op(
                        &format!("recency stale {} {} {}", KINDS[*kind], hexs(&keys[*i]), g),
                        &format!("{}/{}", if keep { 1 } else { 0 }, if registered { 1 } else { 0 }),
                    );
                    out.count(&format!("op.stale.{}.{}", if same { "live-handle" } else { "stale-handle" }, if keep { "keep" } else { "delete" }));
                    if !oracle.covered(*kind) && !keep {
                        out.oracle_fail("should_store_* answered false for a kind outside the mask / without a timeout", &format!("{}:{}", KINDS[*kind], keys[*i]));
                    }
                    if same {
                        // an ordinary observation of this one metric by a second observer
                        oracle.observe_one(id, keep, &keys, out);
                    } else if keep {
                        // may have (re-)inserted or re-stamped the entry with the generation of storage that is gone
                        oracle.taint(id, 2);
                    } else if let Some(l) = oracle.life.get(&id) {
                        // `false` = the metric registered under the key NOW was deleted on the word of another storage's generation
                        let detail = format!(
                            "{}:{} at t={} timeout={:?}: should_store_* with the generation {} of a snapshot handle (storage deleted since) deleted the registered metric (generation {}, value {}, updated since the previous observation: {})",
                            KINDS[*kind], keys[*i], oracle.now, c.timeout, g, l.updates, l.tally.tok(), l.changed_since_obs
                        );
                        oracle.orphan_finding(out, "an overlapping observer's snapshot handle decided the deletion of the metric now registered under the key", &detail);
                        oracle.life.remove(&id);
                        oracle.tainted.remove(&id);
                    }
                } else {
                    out.count("op.stale.not-in-snapshot");
                }
            }
            GOp::Observe => {
                observes += 1;
                // the loop of `Inner::get_recent_metrics`
                let mut verdicts: Vec<((usize, usize), bool)> = vec![];
                for (key, ctr) in registry.get_counter_handles() {
                    let keep = recency.should_store_counter(&key, ctr.get_generation(), &registry);
                    verdicts.push(((0, index_of(&key)), keep));
                }
                for (key, g) in registry.get_gauge_handles() {
                    let keep = recency.should_store_gauge(&key, g.get_generation(), &registry);
                    verdicts.push(((1, index_of(&key)), keep));
                }
                for (key, h) in registry.get_histogram_handles() {
                    let keep = recency.should_store_histogram(&key, h.get_generation(), &registry);
                    verdicts.push(((2, index_of(&key)), keep));
                }
                let mut seen: BTreeMap<(usize, usize), (Option<u64>, String)> = BTreeMap::new();
                for (key, ctr) in registry.get_counter_handles() {
                    seen.insert(
                        (0, index_of(&key)),
                        (Some(gen_number(ctr.get_generation())), ctr.get_inner().load(Ordering::Acquire).to_string()),
                    );
                }
                for (key, g) in registry.get_gauge_handles() {
                    seen.insert(
                        (1, index_of(&key)),
                        (
                            Some(gen_number(g.get_generation())),
                            gauge_tok(f64::from_bits(g.get_inner().load(Ordering::Acquire))),
                        ),
                    );
                }
                for (key, h) in registry.get_histogram_handles() {
                    seen.insert((2, index_of(&key)), (Some(gen_number(h.get_generation())), hist_tok(&h.get_inner().data())));
                }
                for (id, keep) in &verdicts {
                    if *keep != seen.contains_key(id) {
                        out.oracle_fail(
                            "should_store_* answer disagrees with the registry (true = still registered)",
                            &format!("{}:{} answered {} registered {}", KINDS[id.0], keys[id.1], keep, seen.contains_key(id)),
                        );
                    }
                }
                out.op("recency observe", &fmt_seen(&seen, &keys));
                out.count("op.observe");
                oracle.observe(&seen, &keys, out);
            }
        }
    }
    let drops = out.counters.get("oracle.dropped").cloned().unwrap_or(0);
    // non-trivial: at least two observations and at least one metric dropped for idleness
    if observes >= 2 && drops > drops_before {
        out.nontrivial();
    }
}

fn gauge_tok(v: f64) -> String {
    if v.fract() == 0.0 && v.abs() < 9.0e15 {
        (v as i64).to_string()
    } else {
        format!("b{}", v.to_bits())
    }
}

fn hist_tok(samples: &[f64]) -> String {
    let sum: f64 = samples.iter().sum();
    format!("{}+{}", samples.len(), gauge_tok(sum))
}

// ---------------------------------------------------------------------------------------------
// stream B: the Prometheus exporter
//
// Model: `promidle …` (Model/PromIdle.lean = Model/Recency + the exporter's `distributions` map keyed by
// `key_to_parts(key, Some(global_labels))`).  Configuration space: global labels (none / one / two, one of them
// overridden by a key's own label), keys with labels, two series in one family, `record_many`, `run_upkeep`.

/// in the exporter a name has one kind (one family per name): the key pool is per kind.
/// i = 0: no labels; 1, 2: two series of one family; 3: a label that overrides the global label `env`
fn prom_key(kind: usize, i: usize) -> (String, Vec<(String, String)>) {
    let p = ["ctr", "gge", "hst"][kind];
    let l = |k: &str, v: &str| (k.to_string(), v.to_string());
    match i {
        0 => (format!("{}_same", p), vec![]),
        1 => (format!("{}_a", p), vec![l("code", "200")]),
        2 => (format!("{}_a", p), vec![l("code", "404")]),
        _ => (format!("{}_b", p), vec![l("env", "k")]),
    }
}

const GLOBALS: [&[(&str, &str)]; 4] = [&[], &[("env", "prod")], &[("env", "prod"), ("dc", "eu1")], &[("dc", "eu1")]];

fn key_display(name: &str, labels: &[(String, String)]) -> String {
    if labels.is_empty() {
        name.to_string()
    } else {
        format!("{}{{{}}}", name, labels.iter().map(|(k, v)| format!("{}={}", k, v)).collect::<Vec<_>>().join(","))
    }
}

/// what the exposition text must carry for a key: global labels first, overridden in place by the key's own
/// (written from the builder's documentation of `add_global_label`, not from `key_to_parts`)
fn expected_labels(globals: &[(&str, &str)], labels: &[(String, String)]) -> Vec<(String, String)> {
    let mut m: Vec<(String, String)> = globals.iter().map(|(k, v)| (k.to_string(), v.to_string())).collect();
    for (k, v) in labels {
        match m.iter_mut().find(|(k2, _)| k2 == k) {
            Some(e) => e.1 = v.clone(),
            None => m.push((k.clone(), v.clone())),
        }
    }
    m
}

fn label_text(ls: &[(String, String)]) -> String {
    ls.iter().map(|(k, v)| format!("{}=\"{}\"", k, v)).collect::<Vec<_>>().join(",")
}

fn pairs_tok(ls: &[(String, String)]) -> String {
    list(ls.iter().map(|(k, v)| format!("{}:{}", hexs(k), hexs(v))))
}

struct PromKeys {
    /// model key ids (display text), index = kind * 4 + i
    ids: Vec<String>,
    keys: Vec<Key>,
    /// (family name, label text) each key must be rendered under
    shown_as: Vec<(String, String)>,
}

fn prom_keys(out: &mut Out, pool: &[(usize, String, Vec<(String, String)>)], globals: &[(&str, &str)]) -> PromKeys {
    let mut pk = PromKeys { ids: vec![], keys: vec![], shown_as: vec![] };
    for (_, name, labels) in pool {
        let id = key_display(name, labels);
        out.op(&format!("promidle key {} {} {}", hexs(&id), hexs(name), pairs_tok(labels)), "ok");
        pk.ids.push(id);
        pk.keys.push(Key::from_parts(name.clone(), labels.iter().map(|(k, v)| Label::new(k.clone(), v.clone())).collect::<Vec<_>>()));
        let san: String = name.chars().map(|c| if c.is_ascii_alphanumeric() || c == '_' || c == ':' { c } else { '_' }).collect();
        pk.shown_as.push((san, label_text(&expected_labels(globals, labels))));
    }
    pk
}

fn prom_model_new(out: &mut Out, c: &Case, globals: &[(&str, &str)]) {
    let g: Vec<(String, String)> = globals.iter().map(|(k, v)| (k.to_string(), v.to_string())).collect();
    out.op(
        &format!(
            "promidle new {} {} {}",
            c.mask,
            match c.timeout {
                Some(t) => t.to_string(),
                None => "~".into(),
            },
            pairs_tok(&g)
        ),
        "ok",
    );
    out.count(&format!("cfg.mask={}", c.mask));
    out.count(match c.timeout {
        Some(_) => "cfg.timeout=some",
        None => "cfg.timeout=none",
    });
    out.count(&format!("prom.global-labels={}", globals.len()));
}

/// one `render()`: the text is read by the strict exposition reader; returns the line for the model comparison
/// (`c/<key id>/<v>`, `g/…`, `h/<family>/<labels>/<count>+<sum>`) and, for the history oracle, what is shown per key
fn prom_observe(
    out: &mut Out,
    text: &str,
    pk: &PromKeys,
    kinds: &[usize],
    buckets: bool,
) -> (String, BTreeMap<(usize, usize), (Option<u64>, String)>) {
    let mut seen: BTreeMap<(usize, usize), (Option<u64>, String)> = BTreeMap::new();
    let mut items: Vec<String> = vec![];
    match expo::check_exposition(text) {
        Err(e) => out.oracle_fail("render(): not well-formed exposition text", &format!("{} :: {:?}", e, text)),
        Ok(fams) => {
            for f in fams {
                // series of this family: label text (without le / quantile) ↦ samples
                let mut series: BTreeMap<String, Vec<(String, String)>> = BTreeMap::new();
                for (sn, labels, v) in &f.samples {
                    let own: Vec<(String, String)> = labels.iter().filter(|(k, _)| k != "le" && k != "quantile").cloned().collect();
                    series.entry(label_text(&own)).or_default().push((sn.clone(), v.clone()));
                }
                for (lt, samples) in series {
                    let find = |n: &str| samples.iter().find(|(sn, _)| sn == n).map(|x| x.1.clone());
                    let j = pk.shown_as.iter().position(|(n, l)| *n == f.name && *l == lt);
                    let kind = match f.ty.as_str() {
                        "counter" => 0,
                        "gauge" => 1,
                        _ => 2,
                    };
                    let val = match kind {
                        0 => find(&f.name).unwrap_or_else(|| "missing".into()),
                        1 => find(&f.name).and_then(|v| v.parse::<f64>().ok()).map(gauge_tok).unwrap_or_else(|| "missing".into()),
                        _ => {
                            let cnt = find(&format!("{}_count", f.name)).unwrap_or_else(|| "missing".into());
                            let sum = find(&format!("{}_sum", f.name))
                                .and_then(|v| v.parse::<f64>().ok())
                                .map(gauge_tok)
                                .unwrap_or_else(|| "missing".into());
                            format!("{}+{}", cnt, sum)
                        }
                    };
                    if kind == 2 {
                        items.push(format!("h/{}/{}/{}", hexs(&f.name), hexs(&lt), val));
                    }
                    match j {
                        None => {
                            out.oracle_fail(
                                "render(): a series nobody registered (family name / label set of no key, global labels applied)",
                                &format!("{} {{{}}} = {}", f.name, lt, val),
                            );
                            if kind != 2 {
                                items.push(format!("{}/?{}/{}", KINDS[kind], hexs(&format!("{}{{{}}}", f.name, lt)), val));
                            }
                        }
                        Some(j) => {
                            let want_ty = match kinds[j] {
                                0 => "counter",
                                1 => "gauge",
                                _ if buckets => "histogram",
                                _ => "summary",
                            };
                            if f.ty != want_ty {
                                out.oracle_fail("render(): family has the wrong type", &format!("{} {} want {}", f.name, f.ty, want_ty));
                            }
                            if kind != 2 {
                                items.push(format!("{}/{}/{}", KINDS[kind], hexs(&pk.ids[j]), val));
                            }
                            seen.insert((kinds[j], j), (None, val));
                        }
                    }
                }
            }
        }
    }
    items.sort();
    (list(items), seen)
}

fn run_prom_case(out: &mut Out, c: &Case, buckets: bool, gsel: usize) {
    let globals = GLOBALS[gsel % GLOBALS.len()];
    let pool: Vec<(usize, String, Vec<(String, String)>)> = (0..12)
        .map(|j| {
            let (n, l) = prom_key(j / 4, j % 4);
            (j / 4, n, l)
        })
        .collect();
    let kinds: Vec<usize> = pool.iter().map(|p| p.0).collect();
    let (clock, mock) = Clock::mock();
    let mut b = PrometheusBuilder::new().idle_timeout(mask_of(c.mask), c.timeout.map(Duration::from_nanos));
    for (k, v) in globals {
        b = b.add_global_label(*k, *v);
    }
    if buckets {
        b = b.set_buckets(&[0.0, 10.0]).unwrap();
    }
    let rec = b.verif_build_with_clock(clock);
    let handle = rec.handle();
    let mut oracle = Oracle::new(c.mask, c.timeout);
    // `idle_timeout(mask, None)` stores mask NONE; for the model that is the same as "no timeout"
    prom_model_new(out, c, globals);
    let pk = prom_keys(out, &pool, globals);
    out.count(if buckets { "prom.histogram" } else { "prom.summary" });
    let mut observes = 0;
    let drops_before = out.counters.get("oracle.dropped").cloned().unwrap_or(0);
    for op in &c.ops {
        match op {
            GOp::Reg(kind, i) => {
                let j = kind * 4 + *i;
                let key = &pk.keys[j];
                match kind {
                    0 => drop(rec.register_counter(key, &META)),
                    1 => drop(rec.register_gauge(key, &META)),
                    _ => drop(rec.register_histogram(key, &META)),
                }
                oracle.register((*kind, j));
                out.op(&format!("promidle reg {} {}", KINDS[*kind], hexs(&pk.ids[j])), "ok");
                out.count("op.reg");
            }
            GOp::Upd(kind, i, up) => {
                let j = kind * 4 + *i;
                let key = &pk.keys[j];
                match (kind, up) {
                    (0, Upd::Inc(n)) => rec.register_counter(key, &META).increment(*n),
                    (0, Upd::Abs(n)) => rec.register_counter(key, &META).absolute(*n),
                    (1, Upd::Set(v)) => rec.register_gauge(key, &META).set(*v as f64),
                    (1, Upd::Add(v)) => {
                        let g = rec.register_gauge(key, &META);
                        if *v >= 0 {
                            g.increment(*v as f64)
                        } else {
                            g.decrement(-*v as f64)
                        }
                    }
                    (2, Upd::Rec(v)) => rec.register_histogram(key, &META).record(*v as f64),
                    (2, Upd::RecMany(v, n)) => rec.register_histogram(key, &META).record_many(*v as f64, *n),
                    _ => unreachable!(),
                }
                oracle.update((*kind, j), *up);
                if let Upd::RecMany(v, n) = up {
                    out.op(&format!("promidle recmany {} {} {}", hexs(&pk.ids[j]), v, n), "ok");
                    out.count(&format!("op.upd.record_many.n={}", n));
                } else {
                    out.op(&format!("promidle upd {} {} {}", KINDS[*kind], hexs(&pk.ids[j]), up.tok()), "ok");
                }
                out.count("op.upd");
            }
            GOp::Adv(n) => {
                mock.increment(*n);
                oracle.now += *n;
                out.op(&format!("promidle adv {}", n), "ok");
                out.count("op.adv");
            }
            GOp::Del(..) | GOp::Clear | GOp::Snap | GOp::Stale(..) => {}
            GOp::Upkeep => {
                handle.run_upkeep();
                out.op("promidle upkeep", "ok");
                out.count("op.upkeep");
            }
            GOp::Observe => {
                observes += 1;
                let text = handle.render();
                let (line, seen) = prom_observe(out, &text, &pk, &kinds, buckets);
                out.op("promidle render", &line);
                out.count("op.render");
                oracle.observe(&seen, &pk.ids, out);
            }
        }
    }
    let drops = out.counters.get("oracle.dropped").cloned().unwrap_or(0);
    if observes >= 2 && drops > drops_before {
        out.nontrivial();
    }
}

/// stream B uses key indices 0..4 per kind
fn gen_prom_case(r: &mut Rng) -> Case {
    gen_case_w(r, 4, &[0, 1, 2], 1)
}

/// hand-picked exporter histories (run under every global-label choice, both histogram modes)
fn prom_corpus() -> Vec<Case> {
    use GOp::{Adv, Observe, Reg, Upkeep};
    vec![
        // an idle histogram leaves the OUTPUT too, and comes back from zero (with global labels the distribution
        // is stored under the label set that includes them: the removal must look it up the same way)
        Case { mask: 7, timeout: Some(2), ops: vec![u(2, 0, Upd::Rec(5)), u(2, 0, Upd::Rec(6)), Observe, Adv(3), Observe, Observe, u(2, 0, Upd::Rec(1)), Observe, Adv(3), Observe] },
        // two series of one family: one expires, the other stays; then the family disappears altogether
        Case { mask: 4, timeout: Some(10), ops: vec![u(2, 1, Upd::Rec(1)), u(2, 2, Upd::Rec(2)), Observe, Adv(6), u(2, 2, Upd::Rec(3)), Observe, Adv(6), Observe, Adv(11), Observe, u(2, 1, Upd::Rec(4)), Observe] },
        // a key label that overrides a global label
        Case { mask: 7, timeout: Some(10), ops: vec![u(2, 3, Upd::Rec(7)), u(0, 3, Upd::Inc(1)), u(1, 3, Upd::Set(2)), Observe, Adv(11), Observe, u(2, 3, Upd::Rec(1)), Observe] },
        // record_many: n records are n updates, zero records are none
        Case { mask: 7, timeout: Some(10), ops: vec![u(2, 0, Upd::RecMany(2, 3)), Observe, Adv(11), u(2, 0, Upd::RecMany(5, 1)), Observe, Adv(11), u(2, 0, Upd::RecMany(9, 0)), Observe, Observe] },
        // samples drained by upkeep before the metric expires; upkeep between expiry and re-registration
        Case { mask: 7, timeout: Some(10), ops: vec![u(2, 0, Upd::Rec(5)), Upkeep, Observe, u(2, 0, Upd::Rec(6)), Upkeep, Adv(11), Observe, Adv(11), Observe, Upkeep, Reg(2, 0), Upkeep, Observe, u(2, 0, Upd::Rec(1)), Observe] },
        // histograms outside the mask stay in the output for ever
        Case { mask: 3, timeout: Some(1), ops: vec![u(2, 1, Upd::Rec(5)), u(0, 1, Upd::Inc(1)), Observe, Adv(5), Observe, Adv(5), Observe] },
    ]
}

/// FINDING (reported, see REPORT.md): `distributions` is keyed by the SANITISED name, so two histograms whose names
/// differ only in characters that sanitising maps to `_` share one distribution; when one of them expires the
/// shared distribution is deleted although the other one is alive and was just updated — its samples are gone.
/// The model predicts exactly that (`C12.prom_collision_wipes_live`); here the real exporter is compared with it.
fn run_prom_collision(out: &mut Out, gsel: usize) {
    let globals = GLOBALS[gsel % GLOBALS.len()];
    let pool: Vec<(usize, String, Vec<(String, String)>)> = vec![(2, "hst.x".to_string(), vec![]), (2, "hst_x".to_string(), vec![])];
    let (clock, mock) = Clock::mock();
    let mut b = PrometheusBuilder::new().idle_timeout(mask_of(4), Some(Duration::from_nanos(2)));
    for (k, v) in globals {
        b = b.add_global_label(*k, *v);
    }
    let rec = b.verif_build_with_clock(clock);
    let handle = rec.handle();
    let c = Case { mask: 4, timeout: Some(2), ops: vec![] };
    prom_model_new(out, &c, globals);
    let pk = prom_keys(out, &pool, globals);
    let mut shown: Vec<String> = vec![];
    let rec_one = |out: &mut Out, j: usize, v: i64| {
        rec.register_histogram(&pk.keys[j], &META).record(v as f64);
        out.op(&format!("promidle upd h {} rec:{}", hexs(&pk.ids[j]), v), "ok");
    };
    let mut render = |out: &mut Out| {
        let text = handle.render();
        // both keys are rendered under the same family / label set: compare the raw series with the model only
        let mut items: Vec<String> = vec![];
        if let Ok(fams) = expo::check_exposition(&text) {
            for f in fams {
                let find = |n: &str| f.samples.iter().find(|(sn, _, _)| sn == n);
                if let (Some(cnt), Some(sum)) = (find(&format!("{}_count", f.name)), find(&format!("{}_sum", f.name))) {
                    let own: Vec<(String, String)> = cnt.1.iter().filter(|(k, _)| k != "le" && k != "quantile").cloned().collect();
                    items.push(format!("h/{}/{}/{}+{}", hexs(&f.name), hexs(&label_text(&own)), cnt.2, sum.2.parse::<f64>().map(gauge_tok).unwrap_or("missing".into())));
                }
            }
        }
        items.sort();
        let line = list(items);
        out.op("promidle render", &line);
        shown.push(line);
    };
    rec_one(out, 0, 7);
    rec_one(out, 1, 5);
    render(out);
    mock.increment(3);
    out.op("promidle adv 3", "ok");
    rec_one(out, 1, 1); // hst_x is alive and updated; hst.x is idle
    render(out);
    rec_one(out, 1, 2);
    render(out);
    // hst_x recorded 5, 1, 2 and was never idle: its full value is 3 samples, sum 8
    let last = shown.last().cloned().unwrap_or_default();
    if last.ends_with("/3+8") {
        out.count("finding.sanitised-name-collision: not reproduced (live histogram shows its full value)");
    } else {
        out.count("finding.sanitised-name-collision: reproduced (expiry of hst.x wiped the samples of the live hst_x)");
        out.oracle_fail(
            "K-C12-collision: expiry of one histogram wiped the shared distribution of a live histogram whose name sanitises to the same family",
            &format!("globals {:?}: record hst.x 7; record hst_x 5; render; advance 3; record hst_x 1; render; record hst_x 2; render -> last render shows {} (full value is 3 samples, sum 8)", globals, last),
        );
    }
}

/// the production constructor (`build_recorder`, real `quanta` clock): the idle timeout and the mask given to the
/// builder must reach `Recency`.  Only two timeouts are used: 1 ns with a 3 ms sleep between renders (elapsed time
/// is certainly larger), and one hour (certainly not reached).  Oracle only — there is no mock clock to step.
fn run_production(out: &mut Out) {
    type Cfgf = fn(PrometheusBuilder) -> PrometheusBuilder;
    let tiny = Some(Duration::from_nanos(1));
    let hour = Some(Duration::from_secs(3600));
    // (what, builder calls, expected survivors [counter, gauge, histogram])
    let cases: Vec<(&str, Box<dyn Fn(PrometheusBuilder) -> PrometheusBuilder>, [bool; 3])> = vec![
        ("no idle_timeout call", Box::new(|b| b), [true, true, true]),
        ("idle_timeout(ALL, 1ns)", Box::new(move |b| b.idle_timeout(MetricKindMask::ALL, tiny)), [false, false, false]),
        ("idle_timeout(COUNTER, 1ns)", Box::new(move |b| b.idle_timeout(MetricKindMask::COUNTER, tiny)), [false, true, true]),
        ("idle_timeout(GAUGE|HISTOGRAM, 1ns)", Box::new(move |b| b.idle_timeout(MetricKindMask::GAUGE | MetricKindMask::HISTOGRAM, tiny)), [true, false, false]),
        ("idle_timeout(ALL, 1h)", Box::new(move |b| b.idle_timeout(MetricKindMask::ALL, hour)), [true, true, true]),
        ("idle_timeout(ALL, None)", Box::new(|b| b.idle_timeout(MetricKindMask::ALL, None)), [true, true, true]),
        ("idle_timeout(ALL, 1ns) then idle_timeout(ALL, None)", Box::new(move |b| b.idle_timeout(MetricKindMask::ALL, tiny).idle_timeout(MetricKindMask::ALL, None)), [true, true, true]),
        ("idle_timeout(ALL, None) then idle_timeout(GAUGE, 1ns)", Box::new(move |b| b.idle_timeout(MetricKindMask::ALL, None).idle_timeout(MetricKindMask::GAUGE, tiny)), [true, false, true]),
        ("idle_timeout(ALL, 1ns) then idle_timeout(HISTOGRAM, 1h)", Box::new(move |b| b.idle_timeout(MetricKindMask::ALL, tiny).idle_timeout(MetricKindMask::HISTOGRAM, hour)), [true, true, true]),
        ("idle_timeout(ALL, 1ns) + global label", Box::new(move |b| b.add_global_label("env", "prod").idle_timeout(MetricKindMask::ALL, tiny)), [false, false, false]),
    ];
    let _: Option<Cfgf> = None;
    for (what, f, want) in cases {
        out.case(&format!("production constructor: {}", what));
        let rec = f(PrometheusBuilder::new()).build_recorder();
        let handle = rec.handle();
        let names = ["pc_ctr", "pc_gge", "pc_hst"];
        rec.register_counter(&Key::from_name(names[0]), &META).increment(3);
        rec.register_gauge(&Key::from_name(names[1]), &META).set(4.0);
        rec.register_histogram(&Key::from_name(names[2]), &META).record(5.0);
        let present = |text: &str| -> [bool; 3] {
            let fams = expo::check_exposition(text).unwrap_or_default();
            let has = |n: &str| fams.iter().any(|f| f.name == n);
            [has(names[0]), has(names[1]), has(names[2])]
        };
        let first = present(&handle.render());
        std::thread::sleep(Duration::from_millis(3));
        let second = present(&handle.render());
        std::thread::sleep(Duration::from_millis(3));
        let third = present(&handle.render());
        out.count("production.build_recorder");
        if first != [true, true, true] {
            out.oracle_fail("build_recorder(): a freshly updated metric is missing from the first render", &format!("{} -> {:?}", what, first));
        }
        // the first render stores the generation; the second one (≥ 3 ms later, unchanged) decides
        if second != want || third != want {
            out.oracle_fail(
                "build_recorder(): the idle timeout / mask given to the builder is not what the recorder applies",
                &format!("{}: counter/gauge/histogram idle for 3 ms, shown {:?} then {:?}, expected {:?}", what, second, third, want),
            );
        }
        if want != [true, true, true] {
            out.nontrivial();
        }
    }
}

pub fn run(cfg: &Cfg, out: &mut Out) {
    // corpus first (stream A, and stream B where the history does not use one key under two kinds:
    // in B the key pool is per kind, so every corpus history is expressible there as well)
    for (n, c) in corpus().iter().enumerate() {
        out.case(&format!("corpus={} stream=A", n));
        run_registry_case(out, c);
        out.case(&format!("corpus={} stream=B", n));
        run_prom_case(out, c, n % 2 == 0, n / 2);
    }
    for (n, c) in prom_corpus().iter().enumerate() {
        for g in 0..GLOBALS.len() {
            out.case(&format!("prom-corpus={} globals={} stream=B", n, g));
            run_prom_case(out, c, (n + g) % 2 == 0, g);
        }
    }
    for (n, c) in corpus_del().iter().enumerate() {
        out.case(&format!("corpus-del={} stream=A", n));
        run_registry_case(out, c);
    }
    for g in 0..GLOBALS.len() {
        out.case(&format!("prom-collision globals={} stream=B", g));
        run_prom_collision(out, g);
    }
    run_production(out);
    if cfg.thorough {
        // small-scope exhaustive: every history of 6 ops over a 6-letter alphabet (+ a final observation),
        // timeout 2 so that advances of 1 and 2 ticks reach T-1, T, T+1 and 2T; counter and gauge share the key
        let alphabet =
            [u(0, 0, Upd::Inc(1)), u(0, 0, Upd::Inc(0)), u(1, 0, Upd::Set(1)), GOp::Adv(1), GOp::Adv(2), GOp::Observe];
        let len = 6;
        let total = alphabet.len().pow(len as u32);
        for n in 0..total {
            let mut ops = vec![];
            let mut x = n;
            for _ in 0..len {
                ops.push(alphabet[x % alphabet.len()].clone());
                x /= alphabet.len();
            }
            ops.push(GOp::Observe);
            let c = Case { mask: 7, timeout: Some(2), ops };
            out.case(&format!("exhaustive={} stream=A", n));
            run_registry_case(out, &c);
            out.count("case.exhaustive");
        }
    }
    let root = Rng::new(cfg.seed);
    for i in 0..cfg.cases {
        let mut r = root.fork(i as u64);
        if i % 4 != 3 {
            // kinds biased: often only two kinds so that pairs collide, sometimes all three
            let kinds: &[usize] = match r.below(5) {
                0 => &[0, 1],
                1 => &[1, 2],
                2 => &[0, 2],
                _ => &[0, 1, 2],
            };
            let mut c = gen_case(&mut r, 3, kinds);
            // external deletes / clears / a second observer's snapshot: a scene built around one delete (1 of 6),
            // or sprinkled over the seeded history (2 of 6)
            match i % 6 {
                1 => c = gen_del_scene(&mut r),
                2 | 5 => sprinkle_del(&mut r, &mut c, 3),
                _ => {}
            }
            out.case(&format!("seed={} i={} stream=A", cfg.seed, i));
            run_registry_case(out, &c);
        } else {
            let c = gen_prom_case(&mut r);
            out.case(&format!("seed={} i={} stream=B", cfg.seed, i));
            let buckets = r.chance(1, 2);
            // global labels in 3 of 4 exporter cases
            let gsel = r.below(GLOBALS.len());
            run_prom_case(out, &c, buckets, gsel);
        }
    }
}


// ---------------------------------------------------------------------------------------------
// concurrent stream: updates racing a render, under the deterministic scheduler.
//
// A real `PrometheusRecorder` (mock clock, idle timeout 10 ticks on all kinds) holds one counter or gauge.
// Phase 1: register, render (Recency now has an entry).  Phase 2, scheduled one grant at a time through the yield
// points `gen.applied` (between the closure and the generation bump in `Generational::with_increment`) and
// `prom.render.gen_read` (between the exporter's generation read and its value read): updater threads increment,
// an observer thread renders.  Phase 3: the clock jumps past the timeout, render; phase 4: again.
// The same grants are replayed on the Lean step machine (`genrace prom …`): values shown and kept/dropped must agree.
// Oracle from the property's wording: a metric may only be dropped when its last shown value is its true value
// (otherwise an update made since the previous observation was discarded), a kept metric shows its true value, and
// an idle metric is gone one timeout later.
fn conc_execute(kind: usize, variant: usize, upds: &[usize], renders: usize, schedule: &[usize]) -> (crate::sched::RunResult, Vec<Option<u64>>, Option<u64>, Option<u64>, Option<u64>) {
    use std::sync::Mutex;
    let (clock, mock) = Clock::mock();
    let rec = Arc::new(PrometheusBuilder::new().idle_timeout(mask_of(7), Some(Duration::from_nanos(10))).verif_build_with_clock(clock));
    let handle = rec.handle();
    let name = if kind == 0 { "cg_c" } else { "cg_g" };
    let key = Key::from_name(name);
    let shown = |text: &str| -> Option<u64> {
        let fams = expo::check_exposition(text).ok()?;
        let f = fams.iter().find(|f| f.name == name)?;
        f.samples.first().and_then(|x| x.2.parse::<f64>().ok()).map(|v| v as u64)
    };
    enum H {
        C(metrics::Counter),
        G(metrics::Gauge),
    }
    let mk = || if kind == 0 { H::C(rec.register_counter(&key, &META)) } else { H::G(rec.register_gauge(&key, &META)) };
    let _keep = mk();
    let first = shown(&handle.render());
    let mut bodies: Vec<Box<dyn FnOnce() + Send + 'static>> = vec![];
    for k in upds {
        let h = mk();
        let k = *k;
        bodies.push(Box::new(move || {
            // variant 0: increment; 1 (single updater only): absolute / set to the running count; 2 (gauge): decrement(-1).
            // Every update method must go through `with_increment` (value first, generation bump second).
            for j in 0..k {
                match (&h, variant) {
                    (H::C(c), 1) => c.absolute(j as u64 + 1),
                    (H::C(c), _) => c.increment(1),
                    (H::G(g), 1) => g.set(j as f64 + 1.0),
                    (H::G(g), 2) => g.decrement(-1.0),
                    (H::G(g), _) => g.increment(1.0),
                }
            }
        }));
    }
    let values: Arc<Mutex<Vec<Option<u64>>>> = Arc::new(Mutex::new(vec![]));
    {
        let handle = handle.clone();
        let values = values.clone();
        bodies.push(Box::new(move || {
            for _ in 0..renders {
                let text = handle.render();
                let fams = expo::check_exposition(&text).ok();
                let v = fams.and_then(|fams| {
                    fams.iter().find(|f| f.name == name).and_then(|f| f.samples.first().and_then(|x| x.2.parse::<f64>().ok()).map(|v| v as u64))
                });
                values.lock().unwrap().push(v);
            }
        }));
    }
    let run = crate::sched::run(bodies, schedule);
    mock.increment(11);
    let r3 = shown(&handle.render());
    mock.increment(11);
    let r4 = shown(&handle.render());
    let vals = values.lock().unwrap().clone();
    (run, vals, first, r3, r4)
}

fn conc_one(out: &mut Out, kind: usize, variant: usize, upds: &[usize], renders: usize, schedule: &[usize]) -> crate::sched::RunResult {
    let (run, vals, first, r3, r4) = conc_execute(kind, variant, upds, renders, schedule);
    let total: u64 = upds.iter().map(|k| *k as u64).sum();
    let labels: Vec<&str> = run.trace.iter().map(|(_, id)| *id).collect();
    let taken: Vec<usize> = run.trace.iter().map(|(t, _)| *t).collect();
    let fmt_vals = |v: &Vec<Option<u64>>| if v.is_empty() { ".".to_string() } else { v.iter().map(|x| x.map(|x| x.to_string()).unwrap_or("~".into())).collect::<Vec<_>>().join(",") };
    out.op(
        &format!("genrace prom {} {} {}", list(upds.iter().map(|k| k.to_string())), renders, crate::sched::sched_tok(&taken)),
        &format!("{} | {} | final={} kept={}", labels.join("."), fmt_vals(&vals), total, if r3.is_some() { 1 } else { 0 }),
    );
    out.count(&format!("concurrent.kind={}", if kind == 0 { "counter" } else { "gauge" }));
    out.count(&format!(
        "concurrent.method={}",
        match (kind, variant) {
            (0, 1) => "Counter::absolute",
            (0, _) => "Counter::increment",
            (_, 1) => "Gauge::set",
            (_, 2) => "Gauge::decrement",
            _ => "Gauge::increment",
        }
    ));
    if run.deadlock || run.timed_out || !run.panicked.is_empty() {
        out.oracle_fail("updates racing render: deadlock, timeout or panic", &format!("{:?}", run.trace));
        return run;
    }
    // an observation landed between the two halves of an update
    let mut mid = vec![false; upds.len()];
    for (t, id) in &run.trace {
        if *t < upds.len() {
            mid[*t] = *id == "start" || *id == "gen.applied";
            // (after a grant at `start` the thread is parked between the halves; after the last `gen.applied` it is done)
        } else if *id == "prom.render.gen_read" || *id == "start" {
            if mid.iter().any(|m| *m) {
                out.nontrivial();
            }
        }
    }
    let ctx = || format!(
        "kind={} method variant {} (0 increment, 1 absolute/set, 2 decrement(-1)), updates per thread {:?}, {} render(s) while they run; grants {:?}; render before = {:?}, renders during = {:?}, render after timeout = {:?}, one more timeout later = {:?}; true final value {}",
        if kind == 0 { "counter" } else { "gauge" }, variant, upds, renders, run.trace, first, vals, r3, r4, total
    );
    if first != Some(0) {
        out.oracle_fail("a registered metric is not shown by the first render", &ctx());
    }
    let last_shown = vals.iter().rev().flatten().next().copied().or(first);
    match r3 {
        None => {
            if last_shown != Some(total) {
                out.oracle_fail("a metric updated since the previous observation was dropped as idle: its last shown value is not its true value", &ctx());
            }
        }
        Some(v) => {
            if v != total {
                out.oracle_fail("a kept metric does not show its full value", &ctx());
            }
        }
    }
    if vals.iter().any(|v| v.is_none()) {
        out.oracle_fail("a metric idle for no longer than the timeout is missing from a render", &ctx());
    }
    if r4.is_some() {
        out.oracle_fail("a metric unchanged since an observation made more than the timeout ago is still shown", &ctx());
    }
    run
}

pub fn run_concurrent(cfg: &Cfg, out: &mut Out) {
    let mut base: Vec<(usize, Vec<usize>, usize)> = vec![];
    for kind in [0usize, 1] {
        base.push((kind, vec![1], 1));
        base.push((kind, vec![2], 1));
        base.push((kind, vec![1, 1], 1));
        base.push((kind, vec![1], 2));
    }
    if cfg.thorough {
        for kind in [0usize, 1] {
            base.push((kind, vec![2], 2));
            base.push((kind, vec![2, 1], 2));
            base.push((kind, vec![1, 1, 1], 1));
            base.push((kind, vec![3], 3));
        }
    }
    // every update method, not only `increment`: absolute / set need a single updater (their argument is the
    // running count), decrement(-1) commutes like increment
    let mut configs: Vec<(usize, usize, Vec<usize>, usize)> = vec![];
    for (kind, upds, renders) in base {
        configs.push((kind, 0, upds.clone(), renders));
        if upds.len() == 1 {
            configs.push((kind, 1, upds.clone(), renders));
        }
        if kind == 1 {
            configs.push((kind, 2, upds.clone(), renders));
        }
    }
    for (kind, variant, upds, renders) in configs {
        let mut prefix: Vec<usize> = vec![];
        let mut runs = 0usize;
        loop {
            out.case(&format!("concurrent exhaustive kind={} method={} upds={:?} renders={} run={}", kind, variant, upds, renders, runs));
            let run = conc_one(out, kind, variant, &upds, renders, &prefix);
            runs += 1;
            if runs >= 3000 {
                out.count("concurrent.enumeration capped");
                break;
            }
            let taken: Vec<usize> = run.trace.iter().map(|(t, _)| *t).collect();
            let mut i = taken.len();
            let mut next = None;
            while i > 0 {
                i -= 1;
                if let Some(alt) = run.choices[i].iter().copied().filter(|c| *c > taken[i]).min() {
                    next = Some((i, alt));
                    break;
                }
            }
            match next {
                None => {
                    out.count("concurrent.enumeration exhausted");
                    break;
                }
                Some((i, alt)) => {
                    prefix = taken[..i].to_vec();
                    prefix.push(alt);
                }
            }
        }
        out.count(&format!("concurrent.schedules={}", runs));
    }
    // updates racing the idle deletion (Model/IdleRace)
    run_idle_race(cfg, out);
    run_overlap_renders(out);
}

// ---------------------------------------------------------------------------------------------
// overlapping renders of the shipped exporter (K-C12-orphan-entry, second route), under the deterministic scheduler.
//
// `PrometheusHandle` is `Clone` and `render(&self)`: two threads can be inside `get_recent_metrics` at once.  Scene
// (idle_timeout 10 ticks, all kinds): register a counter / gauge, one update, render at t=0 (entry (1, 0)), clock +11.
// R2 runs up to its first `prom.render.gen_read` (it has taken its handle snapshot and read generation 1), R1 renders
// completely (the idle metric is deleted, its entry removed), R2 continues: `should_store_*(key, 1)` finds no entry,
// inserts (1, 11) and answers "keep" for a metric that is no longer registered.  Clock +11; the metric is registered
// and updated anew (generation 1); the next render must show it (created AND updated since the previous observation).
// R2 is never granted while R1 is inside `should_store` (R1 runs to completion), so the `Recency` mutex never blocks a
// managed thread.  Control: the same scene with R2 after R1.  Both are replayed on the Lean model (`recency …` with
// `stalekeep` for R2's iteration).
fn ov_shown(text: &str, name: &str) -> Option<u64> {
    let fams = expo::check_exposition(text).ok()?;
    let f = fams.iter().find(|f| f.name == name)?;
    f.samples.first().and_then(|x| x.2.parse::<f64>().ok()).map(|v| v as u64)
}

fn overlap_scene(out: &mut Out, kind: usize, overlap: bool, n_after: usize) {
    use std::sync::Mutex;
    let name: &'static str = if kind == 0 { "ov_ctr" } else { "ov_gge" };
    let key = Key::from_name(name);
    let timeout = 10u64;
    let upd = move |rec: &metrics_exporter_prometheus::PrometheusRecorder, key: &Key| {
        if kind == 0 {
            rec.register_counter(key, &META).increment(1)
        } else {
            rec.register_gauge(key, &META).increment(1.0)
        }
    };
    let prelude = || {
        let (clock, mock) = Clock::mock();
        let rec = Arc::new(PrometheusBuilder::new().idle_timeout(mask_of(7), Some(Duration::from_nanos(timeout))).verif_build_with_clock(clock));
        let handle = rec.handle();
        upd(&rec, &key);
        let first = ov_shown(&handle.render(), name);
        mock.increment(timeout + 1);
        (rec, handle, mock, first)
    };
    // probe (on a recorder of its own): how many grants take a lone render to its first `prom.render.gen_read`?
    let grants_to_gen_read = {
        let (_rec, handle, _mock, _) = prelude();
        let body: Box<dyn FnOnce() + Send + 'static> = Box::new(move || {
            let _ = handle.render();
        });
        let run = crate::sched::run(vec![body], &[]);
        run.trace.iter().position(|(_, p)| *p == "prom.render.gen_read")
    };
    let j = match grants_to_gen_read {
        Some(j) => j,
        None => {
            out.oracle_fail("overlapping renders: a render of a registered counter/gauge never reaches prom.render.gen_read", name);
            return;
        }
    };
    let (rec, handle, mock, first) = prelude();
    let hexname = hexs(name);
    let kc = KINDS[kind];
    let upd_tok = if kind == 0 { "inc:1" } else { "add:1" };
    let show = |v: Option<u64>| match v {
        Some(v) => format!("{}/{}/{}", kc, hexname, v),
        None => ".".to_string(),
    };
    out.op(&format!("recency new 7 {} 1", timeout), "ok");
    out.op(&format!("recency upd {} {} {}", kc, hexname, upd_tok), "ok");
    out.op("recency render", &show(first));
    out.op(&format!("recency adv {}", timeout + 1), "ok");
    let vals: Arc<Mutex<Vec<Option<u64>>>> = Arc::new(Mutex::new(vec![None, None]));
    let mut bodies: Vec<Box<dyn FnOnce() + Send + 'static>> = vec![];
    for t in 0..2 {
        let handle = handle.clone();
        let vals = vals.clone();
        bodies.push(Box::new(move || {
            let v = ov_shown(&handle.render(), name);
            vals.lock().unwrap()[t] = v;
        }));
    }
    let mut schedule = if overlap { vec![1usize; j] } else { vec![] };
    schedule.extend(std::iter::repeat(0usize).take(200));
    let run = crate::sched::run(bodies, &schedule);
    if run.deadlock || run.timed_out || !run.panicked.is_empty() {
        out.oracle_fail("overlapping renders: the scheduled run did not complete", &format!("{:?} deadlock={} timed_out={} panicked={:?}", run.trace, run.deadlock, run.timed_out, run.panicked));
        return;
    }
    let r1_delete = run.trace.iter().position(|(t, p)| *t == 0 && *p == "reg.delete");
    let r2_gen_read = run.trace.iter().position(|(t, p)| *t == 1 && *p == "prom.render.gen_read");
    let reached = overlap && matches!((r1_delete, r2_gen_read), (Some(a), Some(b)) if a < b);
    let (v1, v2) = {
        let v = vals.lock().unwrap();
        (v[0], v[1])
    };
    out.op("recency render", &show(v1));
    if reached {
        // R2's iteration: the answer "keep" is visible as the (deleted) metric in R2's output
        out.op(&format!("recency stalekeep {} {} 1", kc, hexname), if v2.is_some() { "1" } else { "0" });
        out.count("overlap.reached (R2 parked at gen_read across R1's delete)");
    } else {
        out.op("recency render", &show(v2));
        out.count("overlap.control (R2 after R1)");
    }
    if overlap && !reached {
        out.oracle_fail("overlapping renders: the schedule did not put R1's delete between R2's generation read and R2's should_store", &format!("{:?}", run.trace));
    }
    if v1.is_some() {
        out.oracle_fail("a metric unchanged since an observation made more than the timeout ago is still shown", &format!("{} by R1: {:?}", name, v1));
    }
    mock.increment(timeout + 1);
    out.op(&format!("recency adv {}", timeout + 1), "ok");
    for _ in 0..n_after {
        upd(&rec, &key);
        out.op(&format!("recency upd {} {} {}", kc, hexname, upd_tok), "ok");
    }
    let after = ov_shown(&handle.render(), name);
    out.op("recency render", &show(after));
    let detail = format!(
        "{} `{}`, idle_timeout {} ticks: 1 update, render at t=0 -> {:?}, clock +11; R2 = render() up to its first generation read ({} grants), R1 = render() completely -> {:?}, R2 continues -> {:?}; clock +11; registered anew + {} update(s); render -> {:?} (expected {}); grants {:?}",
        if kind == 0 { "counter" } else { "gauge" }, name, timeout, first, j, v1, v2, n_after, after, n_after, run.trace
    );
    if after != Some(n_after as u64) {
        if reached {
            out.count("finding.orphan-entry: reproduced on the exporter (two overlapping renders leave an entry behind; the re-created metric is dropped)");
            if known_has("K-C12-orphan-entry") {
                out.oracle_fail("K-C12-orphan-entry: overlapping renders: metric dropped although it was created and updated since the previous observation", &detail);
            }
        } else {
            out.oracle_fail("metric dropped although it was updated (or created) since the previous observation", &detail);
        }
    } else {
        out.count("overlap.after.kept");
    }
    out.nontrivial();
}

pub fn run_overlap_renders(out: &mut Out) {
    for kind in 0..2 {
        for (overlap, n_after) in [(true, 1usize), (true, 2), (false, 1), (false, 2)] {
            out.case(&format!("overlapping renders kind={} overlap={} updates-after={}", kind, overlap, n_after));
            overlap_scene(out, kind, overlap, n_after);
        }
    }
}

// ---------------------------------------------------------------------------------------------
// idle-race stream: updates racing the idle-DELETION, under the deterministic scheduler.
//
// A real `PrometheusRecorder` (mock clock) holds one counter or gauge (`idle_execute` can also drive a histogram, kind 2,
// but a histogram update passes the yield points of its lock-free bucket, which Model/IdleRace does not have: not generated).
// Prelude: register, `pre` increments, one
// render at time 0 (Recency now has an entry), the clock advances by `adv`.  Race, one grant at a time through the
// yield points `reg.goc.read` / `reg.goc.write` (get_or_create), `gen.applied` (between the value write and the
// generation bump), `prom.render.gen_read` (between the exporter's generation read and `should_store`) and
// `reg.delete` (inside `Registry::delete_*`, reached from `should_store` with the Recency mutex held — hence one
// observer thread): updater threads increment, either through a handle obtained anew before every update (`f:n`, what the
// macros do) or through one handle obtained before the race (`k:n`); the observer thread renders `renders` times and
// advances the clock by `tick` after each render (`obs.render` is the harness's own yield point between two renders).
// Then quiescent post renders after clock advances `post`.  The same grants are replayed on the Lean step machine
// Model/IdleRace (`idlerace run …`): every shown value, the registered value at the end and the number of lost updates
// must agree.
//
// Implementation-side oracle (independent of the model) — conservation of increments: every increment is either in
// the value of the series shown at the end, or in the last shown value of a series that was dropped.  The deficit is
// the number of updates that never reached the output.  Whether an update step lies inside a read→delete window of the
// observer is read off the grant trace.
#[derive(Clone, Debug)]
struct IrCfg {
    kind: usize,
    timeout: Option<u64>,
    covered: bool,
    tick: u64,
    adv: u64,
    pre: usize,
    upds: Vec<(bool, usize)>,
    renders: usize,
}

struct IrRun {
    run: crate::sched::RunResult,
    first: Option<u64>,
    raced: Vec<Option<u64>>,
    posts: Vec<Option<u64>>,
}

/// is the finding id listed in known_findings.json? (an oracle failure for a finding that is not listed there would be
/// reported as a new violation; the reproduction is always counted in the distribution table)
fn known_has(id: &str) -> bool {
    let p = concat!(env!("CARGO_MANIFEST_DIR"), "/../known_findings.json");
    std::fs::read_to_string(p).map(|s| s.contains(&format!("\"{}\"", id))).unwrap_or(false)
}

fn idle_execute(c: &IrCfg, schedule: &[usize], post: &[u64]) -> IrRun {
    use std::sync::Mutex;
    let (clock, mock) = Clock::mock();
    let bit = match c.kind {
        0 => 1u8,
        1 => 2u8,
        _ => 4u8,
    };
    let mask = if c.covered { mask_of(7) } else { mask_of(7 & !bit) };
    let rec = Arc::new(PrometheusBuilder::new().idle_timeout(mask, c.timeout.map(Duration::from_nanos)).verif_build_with_clock(clock));
    let handle = rec.handle();
    let name: &'static str = ir_name(c.kind);
    let key = Key::from_name(name);
    let kind = c.kind;
    // what a render shows: the counter / gauge value; for a histogram the number of samples (`<name>_count`)
    let shown = move |text: &str| -> Option<u64> {
        let fams = expo::check_exposition(text).ok()?;
        let f = fams.iter().find(|f| f.name == name)?;
        if kind == 2 {
            let cnt = format!("{}_count", name);
            f.samples.iter().find(|x| x.0 == cnt).and_then(|x| x.2.parse::<f64>().ok()).map(|v| v as u64)
        } else {
            f.samples.first().and_then(|x| x.2.parse::<f64>().ok()).map(|v| v as u64)
        }
    };
    enum H {
        C(metrics::Counter),
        G(metrics::Gauge),
        H(metrics::Histogram),
    }
    impl H {
        fn inc(&self) {
            match self {
                H::C(c) => c.increment(1),
                H::G(g) => g.increment(1.0),
                H::H(h) => h.record(1.0),
            }
        }
    }
    let mk = move |rec: &metrics_exporter_prometheus::PrometheusRecorder, key: &Key| match kind {
        0 => H::C(rec.register_counter(key, &META)),
        1 => H::G(rec.register_gauge(key, &META)),
        _ => H::H(rec.register_histogram(key, &META)),
    };
    let keep = mk(&rec, &key);
    for _ in 0..c.pre {
        keep.inc();
    }
    let first = shown(&handle.render());
    mock.increment(c.adv);
    let mut bodies: Vec<Box<dyn FnOnce() + Send + 'static>> = vec![];
    for (fresh, n) in &c.upds {
        let n = *n;
        if *fresh {
            let rec = rec.clone();
            let key = key.clone();
            bodies.push(Box::new(move || {
                for _ in 0..n {
                    let h = mk(&rec, &key);
                    h.inc();
                }
            }));
        } else {
            let h = mk(&rec, &key);
            bodies.push(Box::new(move || {
                for _ in 0..n {
                    h.inc();
                }
            }));
        }
    }
    drop(keep);
    let values: Arc<Mutex<Vec<Option<u64>>>> = Arc::new(Mutex::new(vec![]));
    {
        let handle = handle.clone();
        let values = values.clone();
        let mock = mock.clone();
        let renders = c.renders;
        let tick = c.tick;
        bodies.push(Box::new(move || {
            for i in 0..renders {
                if i > 0 {
                    metrics::verif::point("obs.render");
                }
                let v = shown(&handle.render());
                values.lock().unwrap().push(v);
                mock.increment(tick);
            }
        }));
    }
    let run = crate::sched::run(bodies, schedule);
    let mut posts = vec![];
    for a in post {
        mock.increment(*a);
        posts.push(shown(&handle.render()));
    }
    let raced = values.lock().unwrap().clone();
    IrRun { run, first, raced, posts }
}

fn ir_name(kind: usize) -> &'static str {
    match kind {
        0 => "ir_c",
        1 => "ir_g",
        _ => "ir_h",
    }
}

fn ir_kind(kind: usize) -> &'static str {
    match kind {
        0 => "counter",
        1 => "gauge",
        _ => "histogram",
    }
}

fn ir_tok(c: &IrCfg) -> String {
    format!(
        "{} {} {} {} {} {} {} {}",
        if c.kind == 2 { "h" } else { "c" },
        c.timeout.map(|t| t.to_string()).unwrap_or("~".into()),
        if c.covered { 1 } else { 0 },
        c.tick,
        c.adv,
        c.pre,
        list(c.upds.iter().map(|(f, n)| format!("{}:{}", if *f { "f" } else { "k" }, n))),
        c.renders
    )
}

/// (some update step lies inside a read→delete window, a window was opened at all, upper bound on the value writes
/// exposed to a deletion: writes made inside a window + updates that were between write and bump when one opened)
fn ir_overlap(trace: &[(usize, &'static str)], nupd: usize, histo: bool) -> (bool, bool, u64) {
    let obs = nupd;
    let mut overlap = false;
    let mut any = false;
    let mut exposed = 0u64;
    // a grant wrote the value iff the thread's next grant is at `gen.applied`
    let wrote = |i: usize| -> bool {
        let t = trace[i].0;
        (i + 1..trace.len()).find(|k| trace[*k].0 == t).map(|k| trace[k].1 == "gen.applied").unwrap_or(false)
    };
    for (j, (t, id)) in trace.iter().enumerate() {
        if *t == obs && *id == "reg.delete" {
            any = true;
            // the grant that read the generation: the observer's grant before the one granted at `prom.render.gen_read`
            // (histograms: there is no such yield point, the grant before `reg.delete` read the generation)
            let at_gen_read = (0..j).rev().find(|i| trace[*i].0 == obs).unwrap_or(j);
            let i0 = if histo { at_gen_read } else { (0..at_gen_read).rev().find(|i| trace[*i].0 == obs).unwrap_or(0) };
            if (i0 + 1..j).any(|i| trace[i].0 < nupd) {
                overlap = true;
            }
            exposed += (i0 + 1..j).filter(|i| trace[*i].0 < nupd && wrote(*i)).count() as u64;
            // an updater that was between its value write and its bump when the window opened: its next grant is at `gen.applied`
            for u in 0..nupd {
                if let Some(i) = (i0 + 1..trace.len()).find(|i| trace[*i].0 == u) {
                    if trace[i].1 == "gen.applied" {
                        overlap = true;
                        // (counted here only if its write was made before the window opened)
                        if i > j || !(i0 + 1..i).any(|k| trace[k].0 == u) {
                            exposed += 1;
                        }
                    }
                }
            }
        }
    }
    (overlap, any, exposed)
}

fn idle_one(out: &mut Out, c: &IrCfg, schedule: &[usize]) -> crate::sched::RunResult {
    let t = c.timeout.unwrap_or(10);
    let post: Vec<u64> = vec![0, t + 1, t + 1];
    let r = idle_execute(c, schedule, &post);
    let run = r.run.clone();
    let labels: Vec<&str> = run.trace.iter().map(|(_, id)| *id).collect();
    let taken: Vec<usize> = run.trace.iter().map(|(t, _)| *t).collect();
    let fmt_vals = |v: &Vec<Option<u64>>| list(v.iter().map(|x| x.map(|x| x.to_string()).unwrap_or("~".into())));
    let total: u64 = c.upds.iter().map(|(_, n)| *n as u64).sum();
    // conservation of increments, from what the real exporter showed
    let mut seq: Vec<Option<u64>> = vec![r.first];
    seq.extend(r.raced.iter().cloned());
    seq.push(r.posts.first().cloned().flatten());
    let mut accounted: u64 = seq.last().cloned().flatten().unwrap_or(0);
    for w in seq.windows(2) {
        if let (Some(x), None) = (w[0], w[1]) {
            accounted += x;
        }
    }
    let written = c.pre as u64 + total;
    let deficit = written as i64 - accounted as i64;
    let (overlap, window, exposed) = ir_overlap(&run.trace, c.upds.len(), c.kind == 2);
    let all_fresh = c.upds.iter().all(|(f, _)| *f);
    out.op(
        &format!("idlerace run {} {} {}", ir_tok(c), crate::sched::sched_tok(&taken), list(post.iter().map(|a| a.to_string()))),
        &format!(
            "{} | {} | {} | lost={} wf={}",
            if labels.is_empty() { "-".to_string() } else { labels.join(".") },
            fmt_vals(&r.raced),
            fmt_vals(&r.posts),
            deficit,
            if overlap { 0 } else { 1 }
        ),
    );
    out.count(&format!("idlerace.kind={}", ir_kind(c.kind)));
    out.count(&format!("idlerace.window={}", if overlap { "update inside a read->delete window" } else if window { "deletion, no update inside the window" } else { "no deletion" }));
    if run.deadlock || run.timed_out || !run.panicked.is_empty() {
        out.oracle_fail("updates racing the idle deletion: deadlock, timeout or panic", &format!("{:?} {:?}", c, run.trace));
        return run;
    }
    if window && total > 0 {
        out.nontrivial();
    }
    let ctx = || format!(
        "{} `{}`, idle_timeout {:?} ticks (kind covered by the mask: {}); prelude: register, {} increment(s), render at t=0 -> {:?}, clock +{}; race: updaters {:?} ((true, n) = handle obtained anew before each of n increments, (false, n) = one handle obtained before the race), observer renders {} time(s) with clock +{} after each; grants (thread, yield point granted at) {:?}; renders during the race = {:?}; quiescent renders after clock +{:?} = {:?}; increments written {}, accounted for in the output {} (last value of every dropped series + final value)",
        ir_kind(c.kind), ir_name(c.kind), c.timeout, c.covered, c.pre, r.first, c.adv, c.upds, c.renders, c.tick, run.trace, r.raced, post, r.posts, written, accounted
    );
    if r.first != Some(c.pre as u64) {
        out.oracle_fail("a registered metric is not shown with its value by the first render", &ctx());
    }
    if deficit < 0 {
        out.oracle_fail("the output accounts for more increments than were made", &ctx());
    } else if deficit > 0 {
        if all_fresh && deficit as u64 > exposed {
            out.oracle_fail("more updates were lost than value writes lie inside read->delete windows of the observer (every handle was fresh)", &format!("{}; value writes exposed to a deletion: {}", ctx(), exposed));
        } else if overlap {
            out.count("finding.idle-race: reproduced (an update inside the observer's read->delete window is lost with the deleted storage)");
            if known_has("K-C12-idle-race") {
                out.oracle_fail("K-C12-idle-race: an update that lands between the observer's generation read and its unconditional Registry::delete_* is lost with the deleted storage", &ctx());
            }
        } else if !all_fresh {
            out.count("finding.stale-handle: reproduced (updates through a handle kept across an idle drop never reach the output)");
            if known_has("K-C12-stale-handle") {
                out.oracle_fail("K-C12-stale-handle: updates through a handle kept across an idle drop go to orphaned storage and never reach the output", &ctx());
            }
        } else {
            out.oracle_fail("an update was lost although no update step lies inside a read->delete window of the observer and every handle was fresh", &ctx());
        }
    }
    // never dropped unless idle for longer than the timeout: no deletion can be due before the post renders
    let reachable = c.adv + c.tick * (c.renders as u64);
    let no_drop_possible = c.timeout.is_none() || !c.covered || reachable <= c.timeout.unwrap_or(0);
    if no_drop_possible {
        if r.raced.iter().any(|v| v.is_none()) || r.posts.first().cloned().flatten().is_none() {
            out.oracle_fail("a metric that cannot have been idle for longer than the timeout (or is not covered) is missing from a render", &ctx());
        }
        if deficit != 0 {
            out.oracle_fail("an update was lost although no deletion was due", &ctx());
        }
    }
    if c.timeout.is_some() && c.covered {
        if r.posts.last().cloned().flatten().is_some() {
            out.oracle_fail("a metric unchanged since an observation made more than the timeout ago is still shown", &ctx());
        }
    } else if r.posts.iter().any(|v| *v != Some(written)) {
        out.oracle_fail("without a timeout / outside the mask the metric must stay with its full value", &ctx());
    }
    run
}

fn idle_enumerate(out: &mut Out, c: &IrCfg, cap: usize, tag: &str) {
    let mut prefix: Vec<usize> = vec![];
    let mut runs = 0usize;
    loop {
        out.case(&format!("idle-race {} {:?} run={}", tag, c, runs));
        let run = idle_one(out, c, &prefix);
        runs += 1;
        if runs >= cap {
            out.count("idlerace.enumeration capped");
            break;
        }
        let taken: Vec<usize> = run.trace.iter().map(|(t, _)| *t).collect();
        let mut i = taken.len();
        let mut next = None;
        while i > 0 {
            i -= 1;
            if let Some(alt) = run.choices[i].iter().copied().filter(|c| *c > taken[i]).min() {
                next = Some((i, alt));
                break;
            }
        }
        match next {
            None => {
                out.count("idlerace.enumeration exhausted");
                break;
            }
            Some((i, alt)) => {
                prefix = taken[..i].to_vec();
                prefix.push(alt);
            }
        }
    }
    out.count_n("idlerace.schedules", runs as u64);
}

pub fn run_idle_race(cfg: &Cfg, out: &mut Out) {
    let base = |kind: usize, adv: u64, upds: Vec<(bool, usize)>, renders: usize| IrCfg { kind, timeout: Some(10), covered: true, tick: 0, adv, pre: 1, upds, renders };
    // corpus: the two witnesses of Props/C12.lean (idle_race_loses_update, stale_handle_loses_update), both kinds
    for kind in [0usize, 1] {
        out.case(&format!("idle-race witness W1 kind={}", kind));
        idle_one(out, &base(kind, 11, vec![(true, 1)], 1), &[1, 0, 0, 0, 1, 1]);
        out.case(&format!("idle-race witness W2 kind={}", kind));
        idle_one(out, &base(kind, 11, vec![(false, 1)], 1), &[1, 1, 1, 0, 0]);
    }
    // ALL schedules of small configurations
    let mut configs: Vec<IrCfg> = vec![];
    for kind in [0usize, 1] {
        configs.push(base(kind, 11, vec![(true, 1)], 1));
        configs.push(base(kind, 11, vec![(false, 1)], 1));
        configs.push(base(kind, 10, vec![(true, 1)], 1)); // exactly the timeout: no deletion is due
        configs.push(IrCfg { covered: false, ..base(kind, 11, vec![(true, 1)], 1) });
        configs.push(IrCfg { timeout: None, ..base(kind, 11, vec![(false, 1)], 1) });
    }
    configs.push(base(0, 11, vec![(true, 2)], 2));
    configs.push(base(1, 11, vec![(true, 1), (true, 1)], 1));
    configs.push(base(0, 11, vec![(true, 1), (true, 1)], 1));
    configs.push(IrCfg { tick: 11, pre: 0, ..base(0, 0, vec![(true, 2)], 2) });
    if cfg.thorough {
        for kind in [0usize, 1] {
            configs.push(base(kind, 11, vec![(true, 1), (false, 1)], 1));
            configs.push(base(kind, 11, vec![(true, 2)], 3));
            configs.push(IrCfg { tick: 11, ..base(kind, 0, vec![(true, 2), (true, 1)], 2) });
            configs.push(IrCfg { tick: 6, ..base(kind, 0, vec![(false, 2)], 3) });
            configs.push(IrCfg { timeout: Some(0), tick: 1, ..base(kind, 0, vec![(true, 3)], 3) });
        }
    }
    let cap = if cfg.thorough { 4000 } else { 400 };
    for c in &configs {
        idle_enumerate(out, c, cap, "exhaustive");
    }
    // seeded random schedules of larger configurations
    let root = Rng::new(cfg.seed ^ 0x1d1e);
    let n = if cfg.thorough { 1500 } else { 150 };
    for i in 0..n {
        let mut r = root.fork(i as u64);
        let nupd = r.range(1, 3);
        let upds: Vec<(bool, usize)> = (0..nupd).map(|_| (r.chance(3, 4), r.range(1, 3))).collect();
        let timeout = *r.pick(&[Some(10u64), Some(10), Some(0), Some(3), None]);
        let t = timeout.unwrap_or(10);
        let c = IrCfg {
            kind: r.below(2),
            timeout,
            covered: r.chance(5, 6),
            tick: *r.pick(&[0, 0, 1, t, t + 1]),
            adv: *r.pick(&[0, t, t + 1, t + 1, 2 * t + 1]),
            pre: r.below(3),
            upds,
            renders: r.range(1, 3),
        };
        let len = r.range(0, 24);
        let sched: Vec<usize> = (0..len).map(|_| r.below(nupd + 1)).collect();
        out.case(&format!("idle-race seed={} i={} {:?}", cfg.seed, i, c));
        idle_one(out, &c, &sched);
        out.count("idlerace.random");
    }
}
