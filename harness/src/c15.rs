//! C15 — histogram buckets and summary windows mean what Prometheus says they mean.
//!
//! Stream H  (i)   real `metrics_util::storage::Histogram` / `Distribution::new_histogram`: the same samples through
//!                 `record` one by one (slot 0), through `Distribution::record_samples` in random batchings (slot 1)
//!                 and through a random mix of `record` / `record_many` (slot 2); every read is compared with the
//!                 model and checked by a brute-force count, by monotonicity (in the bound index and over time)
//!                 and by slot-to-slot equality.
//! Stream R  (ii)  real `Distribution::new_summary` driven through `record_samples(&[(f64, quanta::Instant)])` with
//!                 timestamps of a `quanta::Clock::mock()`; `RollingSummary::{count, snapshot}` reached by matching
//!                 the public enum.  RA: positive, well separated values, so that the opaque sketch can be decoded
//!                 rank by rank into the retained multiset, which is compared with the model exactly and with a
//!                 brute-force window; RB: negatives, zeros, NaN, infinities — retained count, `_count`, `_sum` and the
//!                 "quantile between min and max of the window, 0 when empty" oracle.
//! Stream D  (iii) real `PrometheusBuilder` with random `set_buckets_for_metric` / `set_buckets` calls, a histogram per
//!                 name, `render()`: the `# TYPE` line and the `le` bounds show which rule won (every rule has its own
//!                 bounds); plus whole recorder sessions (`prom::session(.., Flavour::Buckets)`).
//! Stream W        the same window semantics end to end: a real recorder under `quanta::with_clock`.
use crate::expo;
use crate::prom::{self, dy, Flavour};
use crate::util::*;
use metrics::{Key, Recorder};
use metrics_exporter_prometheus::{Distribution, Matcher, PrometheusBuilder};
use metrics_util::storage::Histogram;
use metrics_util::parse_quantiles;
use quanta::Clock;
use std::num::NonZeroU32;
use std::sync::Arc;
use std::time::Duration;

static META: metrics::Metadata<'static> = metrics::Metadata::new("mv", metrics::Level::INFO, None);

// ---------------------------------------------------------------------------------------------
// values

/// monotone integer key of a finite f64 (`-0.0` and `0.0` both 0)
fn mono_key(v: f64) -> i64 {
    let b = v.to_bits();
    if b >> 63 == 1 {
        -((b & 0x7fff_ffff_ffff_ffff) as i64)
    } else {
        b as i64
    }
}

/// model token of a value: exact stream → `n` with v = n/1024, order-only stream → monotone key
fn fv_tok(v: f64, exact: bool) -> String {
    if v.is_nan() {
        "nan".into()
    } else if v == f64::INFINITY {
        "pinf".into()
    } else if v == f64::NEG_INFINITY {
        "ninf".into()
    } else if exact {
        let s = v * 1024.0;
        if s.fract() == 0.0 && s.abs() < 9.0e15 {
            format!("{}", s as i64)
        } else {
            format!("b{}", v.to_bits())
        }
    } else {
        format!("{}", mono_key(v))
    }
}

fn nats(v: &[u64]) -> String {
    list(v.iter().map(|n| n.to_string()))
}

// ---------------------------------------------------------------------------------------------
// stream H

struct HistCase {
    exact: bool,
    bounds: Vec<f64>,
    batches: Vec<Vec<f64>>,
    ascending: bool,
}

fn is_ascending(b: &[f64]) -> bool {
    // pairwise `<=` (so: no NaN bound)
    (0..b.len()).all(|i| (i..b.len()).all(|j| b[i] <= b[j]))
}

fn gen_hist_case(r: &mut Rng, exact: bool) -> HistCase {
    // up to 16 bounds: the default bucket sets of real deployments have 10+ bounds, and an implementation may switch
    // algorithm on the length (binary search above a threshold)
    let nb = *r.pick(&[1usize, 2, 3, 4, 5, 6, 6, 9, 10, 11, 16]);
    // "wide" exact values: n/1024 with 40-bit odd n — every partial sum is still exact in f64 (< 2^53 units) but not
    // in any narrower accumulator (f32: 24 bits), so `_sum` is compared bit for bit on values that need the full width
    let wide = exact && r.chance(1, 3);
    let mut bounds: Vec<f64> = vec![];
    let wild_pool: [f64; 16] = [
        f64::NEG_INFINITY,
        -1e300,
        -1.5,
        -f64::MIN_POSITIVE,
        -5e-324,
        0.0,
        5e-324,
        1e-320,
        f64::MIN_POSITIVE,
        0.1,
        1.0,
        1.0000000000000002,
        1e21,
        1e300,
        f64::MAX,
        f64::INFINITY,
    ];
    if exact {
        let mut cur: i64 = r.range(0, 4000) as i64 - 2000;
        if r.chance(1, 8) {
            bounds.push(f64::NEG_INFINITY);
        }
        for _ in 0..nb {
            bounds.push(dy(cur));
            if !r.chance(1, 4) {
                // else: duplicate bound
                cur += *r.pick(&[1i64, 2, 512, 1024, 1500]);
            }
        }
        if r.chance(1, 5) {
            bounds.push(f64::INFINITY);
        }
    } else {
        let mut idx: Vec<usize> = (0..nb).map(|_| r.below(wild_pool.len())).collect();
        idx.sort();
        bounds = idx.iter().map(|i| wild_pool[*i]).collect();
    }
    // the property is about ascending bounds; a share of unsorted / NaN bound lists checks the model only
    if r.chance(1, 8) && bounds.len() >= 2 {
        let i = r.below(bounds.len());
        let j = r.below(bounds.len());
        bounds.swap(i, j);
        if r.chance(1, 3) {
            let k = r.below(bounds.len());
            bounds[k] = f64::NAN;
        }
    }
    let ascending = is_ascending(&bounds);
    if wide {
        // the bounds of a wide case may be wide as well
        if r.chance(1, 2) && ascending {
            bounds.push(dy(((r.next() >> 24) as i64) | 1));
        }
    }
    let ascending = is_ascending(&bounds);
    let nbatches = r.range(0, 6);
    let mut batches = vec![];
    for _ in 0..nbatches {
        let len = if r.chance(1, 24) { 600 } else { *r.pick(&[0usize, 1, 1, 2, 3, 5, 9, 17, 40]) };
        let mut b = vec![];
        for _ in 0..len {
            // wide cases keep most of their sums finite (a NaN or two opposite infinities end every sum comparison)
            let arm = match r.below(12) {
                6 | 7 if wide && !r.chance(1, 6) => 8,
                a => a,
            };
            let v = match arm {
                0 | 1 | 2 | 3 => *r.pick(&bounds), // equal to a bound
                4 => 0.0,
                5 => -0.0,
                6 => *r.pick(&[f64::INFINITY, f64::NEG_INFINITY]),
                7 => {
                    if r.chance(1, 2) {
                        f64::NAN
                    } else {
                        *r.pick(&bounds)
                    }
                }
                _ => {
                    if wide {
                        let n = ((r.next() >> 24) as i64) | 1; // odd, < 2^40
                        dy(if r.chance(1, 2) { n } else { -n })
                    } else if exact {
                        dy(r.range(0, 6000) as i64 - 3000)
                    } else {
                        // a neighbour of a pool value
                        let p = *r.pick(&wild_pool);
                        if p.is_finite() {
                            let k = mono_key(p);
                            let k2 = k + *r.pick(&[-1i64, 0, 1]);
                            if k2 >= 0 {
                                f64::from_bits(k2 as u64)
                            } else {
                                f64::from_bits(((-k2) as u64) | (1 << 63))
                            }
                        } else {
                            p
                        }
                    }
                }
            };
            b.push(v);
        }
        batches.push(b);
    }
    HistCase { exact, bounds, batches, ascending }
}

fn hist_read(out: &mut Out, slot: usize, h: &Histogram, exact: bool) -> (Vec<u64>, u64, f64) {
    let buckets: Vec<u64> = h.buckets().iter().map(|(_, c)| *c).collect();
    if exact {
        out.op(&format!("c15 hread {}", slot), &format!("{} {} {}", nats(&buckets), h.count(), fv_tok(h.sum(), true)));
    } else {
        out.op(&format!("c15 hreadns {}", slot), &format!("{} {}", nats(&buckets), h.count()));
    }
    (buckets, h.count(), h.sum())
}

fn run_hist_case(r: &mut Rng, out: &mut Out, c: &HistCase) {
    let btok = list(c.bounds.iter().map(|b| fv_tok(*b, c.exact)));
    let mut h0 = Histogram::new(&c.bounds).unwrap();
    let mut d1 = Distribution::new_histogram(&c.bounds);
    let mut h2 = Histogram::new(&c.bounds).unwrap();
    for s in 0..3 {
        out.op(&format!("c15 hnew {} {}", s, btok), "ok");
    }
    out.count(&format!(
        "H.exact={} ascending={} bounds={}",
        c.exact,
        c.ascending,
        match c.bounds.len() {
            0..=3 => "1-3",
            4..=8 => "4-8",
            _ => ">8",
        }
    ));
    if c.bounds.len() > 8 && c.batches.iter().any(|b| b.iter().any(|v| v.is_nan())) {
        out.count("H.NaN sample with more than 8 bounds");
    }
    if c.batches.iter().any(|b| b.len() > 64) {
        out.count("H.batch longer than one bucket block (64)");
    }
    let mut all: Vec<f64> = vec![];
    let mut prev: Option<Vec<u64>> = None;
    let (clock, _mock) = Clock::mock();
    let nb = c.batches.len();
    for (bi, batch) in c.batches.iter().enumerate() {
        // slot 0: one by one
        for v in batch {
            h0.record(*v);
            out.op(&format!("c15 hrec 0 {}", fv_tok(*v, c.exact)), "ok");
        }
        // slot 1: the exporter's path, one record_samples call per batch
        let with_ts: Vec<(f64, quanta::Instant)> = batch.iter().map(|v| (*v, clock.now())).collect();
        d1.record_samples(&with_ts);
        out.op(&format!("c15 hmany 1 {}", list(batch.iter().map(|v| fv_tok(*v, c.exact)))), "ok");
        // slot 2: a different batching: split the batch at a random point, first part singly, rest record_many
        let cut = r.range(0, batch.len());
        for v in &batch[..cut] {
            h2.record(*v);
            out.op(&format!("c15 hrec 2 {}", fv_tok(*v, c.exact)), "ok");
        }
        h2.record_many(&batch[cut..]);
        out.op(&format!("c15 hmany 2 {}", list(batch[cut..].iter().map(|v| fv_tok(*v, c.exact)))), "ok");
        all.extend_from_slice(batch);
        out.count_n("H.samples", batch.len() as u64);
        if batch.iter().any(|v| c.bounds.iter().any(|b| v == b)) {
            out.count("H.batch has a sample equal to a bound");
        }
        if r.chance(1, 2) || bi + 1 == nb {
            let h1 = match &d1 {
                Distribution::Histogram(h) => h.clone(),
                _ => unreachable!(),
            };
            let (b0, c0, s0) = hist_read(out, 0, &h0, c.exact);
            let (b1, c1, s1) = hist_read(out, 1, &h1, c.exact);
            let (b2, c2, s2) = hist_read(out, 2, &h2, c.exact);
            if c.ascending {
                // ---- oracles (independent of the model)
                let brute: Vec<u64> = c.bounds.iter().map(|b| all.iter().filter(|x| **x <= *b).count() as u64).collect();
                for (name, b, cnt) in [("record", &b0, c0), ("record_samples", &b1, c1), ("mixed", &b2, c2)] {
                    if *b != brute {
                        out.oracle_fail(
                            "histogram bucket count is not the number of samples <= bound",
                            &format!("{} bounds={:?} samples={:?} want {:?} got {:?}", name, c.bounds, all, brute, b),
                        );
                    }
                    if b.windows(2).any(|w| w[0] > w[1]) {
                        out.oracle_fail("bucket counts decrease from one bound to the next", &format!("{} {:?}", name, b));
                    }
                    if cnt != all.len() as u64 || b.iter().any(|x| *x > cnt) {
                        out.oracle_fail(
                            "+Inf bucket (count) is not the number of samples / is below a bucket",
                            &format!("{} count={} n={} buckets={:?}", name, cnt, all.len(), b),
                        );
                    }
                }
                if b0 != b1 || b0 != b2 || c0 != c1 || c0 != c2 {
                    out.oracle_fail(
                        "recording singly and in batches gives different buckets",
                        &format!("bounds={:?} batches={:?} single={:?} batched={:?} mixed={:?}", c.bounds, c.batches, b0, b1, b2),
                    );
                }
                let same = |a: f64, b: f64| a.to_bits() == b.to_bits() || (a.is_nan() && b.is_nan()) || (a == 0.0 && b == 0.0);
                if c.exact && !(same(s0, s1) && same(s0, s2)) {
                    out.oracle_fail(
                        "recording singly and in batches gives different sums",
                        &format!("bounds={:?} batches={:?} single={:e} record_samples={:e} mixed={:e}", c.bounds, c.batches, s0, s1, s2),
                    );
                }
                // `_sum` covers all samples: the exact sum, computed here in integers (all finite values of the
                // exact stream are n/1024 and every partial sum is below 2^53 units)
                if c.exact && all.iter().all(|v| v.is_finite()) {
                    let tot: i128 = all.iter().map(|v| (*v * 1024.0) as i128).sum();
                    let want = tot as f64 / 1024.0;
                    for (name, sv) in [("record", s0), ("record_samples", s1), ("mixed", s2)] {
                        if !same(sv, want) {
                            out.oracle_fail(
                                "histogram sum is not the sum of all samples",
                                &format!("{} bounds={:?} samples={:?} want {:e} got {:e}", name, c.bounds, all, want, sv),
                            );
                        }
                    }
                    out.count("H.sum checked against the exact integer sum");
                }
                if let Some(p) = &prev {
                    if p.iter().zip(b1.iter()).any(|(a, b)| a > b) {
                        out.oracle_fail("a bucket count decreased from one read to the next", &format!("{:?} then {:?}", p, b1));
                    }
                }
                prev = Some(b1.clone());
            }
        }
    }
    if c.ascending && all.len() >= 2 && c.bounds.len() >= 2 {
        out.nontrivial();
    }
}

fn hist_corpus() -> Vec<HistCase> {
    let inf = f64::INFINITY;
    vec![
        // the repo's own unit test
        HistCase {
            exact: true,
            bounds: vec![10.0, 25.0, 100.0],
            batches: vec![vec![3.0, 2.0, 6.0, 12.0, 56.0, 82.0, 202.0, 100.0, 29.0], vec![89.0]],
            ascending: true,
        },
        // duplicates, infinite bounds, every kind of sample
        HistCase {
            exact: true,
            bounds: vec![-inf, -1.0, 0.0, 0.0, 2.5, inf],
            batches: vec![vec![0.0, -0.0, -1.0, 2.5, inf, -inf, f64::NAN, 3.0], vec![], vec![f64::NAN], vec![-inf, -inf, 2.5]],
            ascending: true,
        },
        // unsorted bounds: `record` and `record_many` differ (outside the property; model agreement only)
        HistCase { exact: true, bounds: vec![10.0, 5.0], batches: vec![vec![7.0], vec![1.0, 20.0]], ascending: false },
        HistCase { exact: true, bounds: vec![1.0, f64::NAN, 0.5], batches: vec![vec![0.25, 0.75, f64::NAN]], ascending: false },
        // subnormals and extremes, order only
        HistCase {
            exact: false,
            bounds: vec![-5e-324, 0.0, 5e-324, f64::MIN_POSITIVE, f64::MAX],
            batches: vec![vec![-0.0, 5e-324, -5e-324, 1e-320, f64::MAX, inf, f64::MIN_POSITIVE, 2.2250738585072009e-308]],
            ascending: true,
        },
    ]
}

/// corpus, observation only (no oracle, no model op: IEEE rounding is outside the model): `record` keeps a running sum
/// `((s + a) + b)`, `record_many` adds a batch-local sum `s + (a + b)`.  In exact arithmetic they agree (`batch_equiv`);
/// in f64 they can differ in the last place, and at the overflow threshold by an infinity.
fn run_sum_rounding_observation(out: &mut Out) {
    for (name, first, second) in [("overflow", vec![-f64::MAX], vec![f64::MAX, f64::MAX]), ("last place", vec![0.1], vec![0.2, 0.3])] {
        let mut a = Histogram::new(&[1.0]).unwrap();
        let mut b = Histogram::new(&[1.0]).unwrap();
        for v in first.iter().chain(second.iter()) {
            a.record(*v);
        }
        b.record_many(&first);
        b.record_many(&second);
        if a.buckets() != b.buckets() || a.count() != b.count() {
            out.oracle_fail("recording singly and in batches gives different buckets", &format!("{:?} {:?}", first, second));
        }
        out.count(&format!(
            "H.observation ({}): sum singly {:e} vs in batches {:e} ({})",
            name,
            a.sum(),
            b.sum(),
            if a.sum().to_bits() == b.sum().to_bits() { "identical" } else { "DIFFERENT" }
        ));
    }
}

// ---------------------------------------------------------------------------------------------
// stream R

/// well separated positive values n/1024 (ratio ≥ 1.02 between neighbours), 1.0 ..= 8.0
fn value_table() -> Vec<i64> {
    let mut v = vec![];
    let mut n: i64 = 1024;
    while n <= 8192 {
        v.push(n);
        n = n + n / 50 + 1;
    }
    v
}

/// the relative error `Summary::with_defaults` documents ("alpha is 0.0001"), with room for the rounding of the
/// sketch's own ln/exp (relative 1e-11 at most: keys are below 2^17)
const SKETCH_ALPHA: f64 = 1.001e-4;
/// "will support values down to a single nanosecond": magnitudes up to this are counted as zero
const SKETCH_MIN_VALUE: f64 = 1.0e-9;

struct RollCase {
    n: u32,
    d: u64,
    start: u64,
    decodable: bool,
    /// decodable stream: every value is multiplied by 2^scale_exp before it reaches the real code (exact), the model
    /// sees the unscaled n/1024; small magnitudes (down to 2e-9) and large ones reach the sketch that way
    scale_exp: i32,
    /// (step before the event, event): event = Add(value) | Flush | Snap
    events: Vec<(u64, REv)>,
}
#[derive(Clone, Debug)]
enum REv {
    Add(f64),
    Flush,
    Snap,
}

fn gen_roll_case(r: &mut Rng, decodable: bool) -> RollCase {
    // a quarter of the cases: windows of many buckets (a cap on the number of live buckets, or a cost per configured
    // bucket, shows only there); they get long histories that step about one bucket at a time
    let many = r.chance(1, 4);
    let n = if many { *r.pick(&[8u32, 15, 16, 17, 20, 33, 64]) } else { r.range(1, 5) as u32 };
    // durations whose length in seconds is no binary fraction (100 ms, 10 ms, 300 ms, 1 us, 7 ns ..) are the ones where
    // an alignment computed in floating point goes wrong
    let d = *r.pick(&[1u64, 2, 3, 7, 10, 1000, 1_000_000_000, 100_000_000, 10_000_000, 300_000_000]);
    let w = n as u64 * d;
    let start = *r.pick(&[0, 1, d - 1, d, w - 1, w, w + 1, 5 * w + 3]);
    // `kd`: a whole number of durations that still leaves the reference bucket alive (2 <= k < n)
    let kd = if n > 2 { r.range(2, n as usize - 1) as u64 * d } else { 2 * d };
    let steps = [0, 0, 1, d - 1, d, d + 1, w - 1, w, w + 1, 3 * w, d / 2, 2 * d, kd, w - d, w - d / 2 - 1];
    let table = value_table();
    // the two last ones need more than 24 bits (a narrower `_sum` accumulator shows)
    let mixed: [f64; 16] = [
        dy((1 << 40) + 1),
        dy(-(1 << 38) - 3),
        0.0,
        -0.0,
        1.0,
        -1.0,
        0.5,
        -3.0,
        dy(5),
        dy(-7),
        2000.0,
        -2000.0,
        f64::INFINITY,
        f64::NEG_INFINITY,
        f64::NAN,
        dy(1),
    ];
    let mut events = vec![];
    let nev = if many { r.range(20, 90) } else { r.range(1, 30) };
    // biased towards small steps so that several buckets are live at once
    for _ in 0..nev {
        let step = if many && !r.chance(1, 12) {
            *r.pick(&[0, d, d, d, d + 1, d / 2, 2 * d, kd, 3 * d])
        } else if r.chance(1, 2) {
            *r.pick(&[0, 1, d - 1, d, d + 1, d / 2])
        } else {
            *r.pick(&steps)
        };
        let ev = match r.below(10) {
            0 | 1 => REv::Snap,
            2 => REv::Flush,
            _ => REv::Add(if decodable {
                dy(*r.pick(&table))
            } else if r.chance(1, 3) {
                // runs of samples without a positive value are the interesting ones for the sketch's merge
                *r.pick(&[-1.0, 0.0, f64::INFINITY, -2000.0, f64::NEG_INFINITY])
            } else {
                *r.pick(&mixed)
            }),
        };
        events.push((step, ev));
    }
    events.push((*r.pick(&steps), REv::Snap));
    let scale_exp = if decodable { *r.pick(&[-29i32, -24, -20, -17, -13, -10, -3, 0, 0, 7, 20, 40]) } else { 0 };
    RollCase { n, d, start, decodable, scale_exp, events }
}

fn run_roll_case(out: &mut Out, c: &RollCase) {
    let w = c.n as u64 * c.d;
    let (clock, mock) = Clock::mock();
    mock.increment(c.start);
    let quantiles = Arc::new(parse_quantiles(&[0.0, 0.5, 1.0]));
    let mut dist = Distribution::new_summary(quantiles, Duration::from_nanos(c.d), NonZeroU32::new(c.n).unwrap());
    out.op(&format!("c15 rnew {} {}", c.n, c.d), "ok");
    out.count(&format!("R.decodable={} n={} d={}", c.decodable, if c.n > 7 { ">7".to_string() } else { c.n.to_string() }, if c.d >= 1000 { "big" } else { "small" }));
    let scale = (c.scale_exp as f64).exp2();
    if c.decodable {
        out.count(&format!("R.decodable scale=2^{}", c.scale_exp));
    }
    let table = value_table();
    let mut pending: Vec<(f64, quanta::Instant)> = vec![];
    let mut pending_tok: Vec<String> = vec![];
    let mut added: Vec<(f64, u64)> = vec![]; // oracle's own record of (value, timestamp)
    let mut t: u64 = c.start;
    let mut snaps_with_expiry = 0;
    let flush = |dist: &mut Distribution, pending: &mut Vec<(f64, quanta::Instant)>, pending_tok: &mut Vec<String>, out: &mut Out| {
        if !pending.is_empty() {
            dist.record_samples(pending);
            out.op(&format!("c15 radd {}", list(pending_tok.drain(..))), "ok");
            pending.clear();
        }
    };
    for (step, ev) in &c.events {
        mock.increment(*step);
        t += *step;
        match ev {
            REv::Add(v) => {
                // the model and the oracle's own record keep the unscaled value
                pending.push((*v * scale, clock.now()));
                pending_tok.push(format!("{}@{}", fv_tok(*v, true), t));
                added.push((*v, t));
                out.count(&format!("R.step={}", step_class(*step, c.d, w)));
            }
            REv::Flush => flush(&mut dist, &mut pending, &mut pending_tok, out),
            REv::Snap => {
                flush(&mut dist, &mut pending, &mut pending_tok, out);
                let now = t;
                let (summary, sum) = match &dist {
                    Distribution::Summary(s, _, sum) => (s, *sum),
                    _ => unreachable!(),
                };
                let snap = summary.snapshot(clock.now());
                let count = summary.count();
                let retained = snap.count();
                // ---- brute-force window (independent of the model)
                let kept = |v: f64| !v.is_infinite();
                let upper: Vec<f64> = added.iter().filter(|(v, ts)| kept(*v) && ts + w > now).map(|x| x.0).collect();
                let lower: Vec<f64> = added.iter().filter(|(v, ts)| kept(*v) && ts + w > now + c.d).map(|x| x.0).collect();
                if upper.len() < added.iter().filter(|(v, _)| kept(*v)).count() {
                    snaps_with_expiry += 1;
                    out.count("R.snapshot with expired samples");
                }
                if count != added.len() {
                    out.oracle_fail("summary count() is not the number of samples added", &format!("{} vs {}", count, added.len()));
                }
                {
                    // how many window buckets certainly hold a retained sample (distinct aligned slots among `lower`)
                    let mut slots: Vec<u64> = added.iter().filter(|(v, ts)| kept(*v) && ts + w > now + c.d).map(|x| x.1 / c.d).collect();
                    slots.sort();
                    slots.dedup();
                    if slots.len() > 16 {
                        out.count("R.snapshot over more than 16 live buckets");
                    } else if slots.len() > 7 {
                        out.count("R.snapshot over more than 7 live buckets");
                    }
                }
                if retained < lower.len() || retained > upper.len() {
                    out.oracle_fail(
                        "number of samples in the snapshot is outside [#(ts > now-W+d), #(ts > now-W)]",
                        &format!("n={} d={} now={} adds={:?} retained={} lower={} upper={}", c.n, c.d, now, added, retained, lower.len(), upper.len()),
                    );
                }
                // when every sample so far was recorded a whole number of bucket durations after the first one, every
                // bucket begins exactly at the timestamp of its samples ("buckets are kept in alignment based on the instant
                // of the first added bucket and the bucket_duration"; a chain that died out restarts at a sample's own
                // timestamp), so the window is exact: retained = the samples with ts > now - W
                let aligned = added.iter().all(|(_, ts)| (ts - added[0].1) % c.d == 0);
                if aligned && !added.is_empty() {
                    out.count("R.snapshot with bucket-aligned timestamps (exact window)");
                    if retained != upper.len() {
                        out.oracle_fail(
                            "snapshot lost a sample that is inside the window (ts > now - W)",
                            &format!(
                                "all timestamps are whole bucket durations apart: n={} d={} now={} adds={:?} retained={} but {} samples have ts > now - W",
                                c.n, c.d, now, added, retained, upper.len()
                            ),
                        );
                    }
                }
                if c.decodable {
                    // decode the sketch rank by rank
                    let mut decoded: Vec<i64> = vec![];
                    let mut bad = false;
                    for k in 0..retained {
                        let q = if retained == 1 {
                            0.0
                        } else if k + 1 == retained {
                            1.0
                        } else {
                            (k as f64 + 0.5) / (retained as f64 - 1.0)
                        };
                        let x = snap.quantile(q).unwrap_or(f64::NAN) / scale;
                        match table.iter().find(|n| ((dy(**n) - x) / dy(**n)).abs() <= SKETCH_ALPHA) {
                            Some(n) => decoded.push(*n),
                            None => {
                                bad = true;
                                out.oracle_fail(
                                    "summary quantile is not within the sketch's relative error of any recorded sample",
                                    &format!(
                                        "n={} d={} now={} adds(value/2^{}, ts)={:?} q={} value/2^{}={:e}",
                                        c.n, c.d, now, c.scale_exp, added, q, c.scale_exp, x
                                    ),
                                );
                            }
                        }
                    }
                    decoded.sort();
                    let dec_tok = if bad { "undecodable".to_string() } else { list(decoded.iter().map(|n| n.to_string())) };
                    out.op(
                        &format!("c15 rsnap {}", now),
                        &format!(
                            "{} {} {} {} {} {}",
                            count,
                            fv_tok(sum / scale, true),
                            retained,
                            dec_tok,
                            fv_tok(snap.min() / scale, true),
                            fv_tok(snap.max() / scale, true)
                        ),
                    );
                    // lower ⊆ decoded ⊆ upper as multisets
                    let ms = |v: &Vec<f64>| {
                        let mut m = std::collections::BTreeMap::new();
                        for x in v {
                            *m.entry((x * 1024.0) as i64).or_insert(0usize) += 1;
                        }
                        m
                    };
                    let (ml, mu) = (ms(&lower), ms(&upper));
                    let mut md = std::collections::BTreeMap::new();
                    for n in &decoded {
                        *md.entry(*n).or_insert(0usize) += 1;
                    }
                    let sub = |a: &std::collections::BTreeMap<i64, usize>, b: &std::collections::BTreeMap<i64, usize>| {
                        a.iter().all(|(k, c)| b.get(k).copied().unwrap_or(0) >= *c)
                    };
                    if !bad && !sub(&md, &mu) {
                        out.oracle_fail(
                            "snapshot contains a sample older than the window",
                            &format!("n={} d={} now={} adds={:?} decoded={:?}", c.n, c.d, now, added, decoded),
                        );
                    }
                    if !bad && !sub(&ml, &md) {
                        out.oracle_fail(
                            "snapshot lost a sample that is inside the window (ts > now - W + d)",
                            &format!("n={} d={} now={} adds={:?} decoded={:?}", c.n, c.d, now, added, decoded),
                        );
                    }
                    let exact_sum: i64 = added.iter().map(|(v, _)| (v * 1024.0) as i64).sum();
                    if sum != dy(exact_sum) * scale {
                        out.oracle_fail(
                            "summary _sum does not cover all samples",
                            &format!("{:e} vs {:e} (adds/2^{}: {:?})", sum, dy(exact_sum) * scale, c.scale_exp, added),
                        );
                    }
                } else {
                    let q50 = snap.quantile(0.5);
                    out.op(
                        &format!("c15 rsnapc {}", now),
                        &format!("{} {} {} {}", count, fv_tok(sum, true), retained, if q50.is_none() { "zero" } else { "some" }),
                    );
                    // `_sum` covers all samples (exact: every value of this stream is n/1024, partial sums below 2^53 units)
                    if added.iter().all(|(v, _)| v.is_finite()) {
                        let tot: i128 = added.iter().map(|(v, _)| (*v * 1024.0) as i128).sum();
                        if sum != tot as f64 / 1024.0 {
                            out.oracle_fail(
                                "summary _sum does not cover all samples",
                                &format!("adds={:?}: _sum {:e}, exact sum {:e}", added, sum, tot as f64 / 1024.0),
                            );
                        }
                    }
                    // the render path: `snapshot.quantile(q).unwrap_or(0.0)`
                    let has_nan = upper.iter().any(|v| v.is_nan());
                    if has_nan {
                        out.count("R.range oracle skipped (NaN in window)");
                    }
                    for q in [0.0, 0.5, 1.0] {
                        let x = snap.quantile(q).unwrap_or(0.0);
                        if retained == 0 {
                            if x != 0.0 {
                                out.oracle_fail("quantile of an empty window is not 0", &format!("q={} value={}", q, x));
                            }
                        } else if !has_nan {
                            let mn = upper.iter().cloned().fold(f64::INFINITY, f64::min);
                            let mx = upper.iter().cloned().fold(f64::NEG_INFINITY, f64::max);
                            // the stated relative error of the sketch, and its stated resolution around zero
                            let lo = mn - SKETCH_ALPHA * mn.abs() - SKETCH_MIN_VALUE;
                            let hi = mx + SKETCH_ALPHA * mx.abs() + SKETCH_MIN_VALUE;
                            if !(x >= lo && x <= hi) {
                                out.oracle_fail(
                                    "summary quantile outside [min,max] of the samples in the window",
                                    &format!(
                                        "n={} d={} now={} adds={:?} q={} value={} window min={} max={} retained={}",
                                        c.n, c.d, now, added, q, x, mn, mx, retained
                                    ),
                                );
                            }
                        }
                    }
                }
            }
        }
    }
    if snaps_with_expiry > 0 {
        out.nontrivial();
    }
}

fn step_class(step: u64, d: u64, w: u64) -> &'static str {
    if step == 0 {
        "0"
    } else if step < d {
        "<d"
    } else if step == d {
        "d"
    } else if step < w {
        "<W"
    } else if step == w {
        "W"
    } else {
        ">W"
    }
}

fn roll_corpus() -> Vec<RollCase> {
    use REv::*;
    let inf = f64::INFINITY;
    let table = value_table();
    let tv = |i: usize| dy(table[i * 10]);
    vec![
        // the repo's own tests (defaults: 3 buckets of 20 s)
        RollCase {
            n: 3,
            d: 20_000_000_000,
            start: 3_600_000_000_000,
            decodable: true,
            scale_exp: 0,
            events: vec![(0, Add(tv(5))), (20_000_000_000, Add(tv(5))), (20_000_000_000, Add(tv(5))), (0, Snap), (20_000_000_000, Add(tv(2))), (0, Snap)],
        },
        // exact multiples of the duration, now == begin + dur, gaps, expiry at exactly W
        RollCase {
            n: 2,
            d: 10,
            start: 4,
            decodable: true,
            scale_exp: 0,
            events: vec![
                (0, Add(tv(1))),
                (10, Add(tv(2))),
                (0, Snap),
                (9, Add(tv(3))),
                (1, Snap),
                (0, Add(tv(4))),
                (0, Snap),
                (20, Snap),
                (0, Add(tv(5))),
                (0, Snap),
                (35, Add(tv(6))),
                (0, Snap),
            ],
        },
        // one bucket only
        RollCase { n: 1, d: 7, start: 0, decodable: true, scale_exp: 0, events: vec![(0, Add(tv(1))), (6, Add(tv(2))), (0, Snap), (1, Snap), (0, Add(tv(3))), (0, Snap)] },
        // time below the window length: checked_sub fails, nothing may expire
        RollCase {
            n: 5,
            d: 1000,
            start: 0,
            decodable: true,
            scale_exp: 0,
            events: vec![(0, Add(tv(1))), (1000, Add(tv(2))), (1000, Add(tv(3))), (1000, Add(tv(4))), (999, Snap), (1, Add(tv(5))), (0, Snap), (1000, Snap)],
        },
        // infinities are not retained, NaN is; the all-infinite window prints 0
        RollCase {
            n: 2,
            d: 10,
            start: 100,
            decodable: false,
            scale_exp: 0,
            events: vec![(0, Add(inf)), (0, Snap), (1, Add(-inf)), (0, Snap), (1, Add(f64::NAN)), (0, Snap), (1, Add(2.0)), (0, Snap), (30, Snap)],
        },
        // newest bucket without a positive sample, older bucket whose sketch stayed empty
        RollCase { n: 2, d: 10, start: 0, decodable: false, scale_exp: 0, events: vec![(0, Add(inf)), (10, Add(-1.0)), (0, Snap)] },
        RollCase { n: 3, d: 10, start: 50, decodable: false, scale_exp: 0, events: vec![(0, Add(-inf)), (10, Add(0.0)), (10, Add(-2.0)), (0, Snap)] },
    ]
}

// ---------------------------------------------------------------------------------------------
// stream Q: every configured quantile of a summary, at the sketch's documented figures, for magnitudes from below the
// zero threshold (1e-9) up to 1e5.  Values are integers in units of 2^-40; the model (`Rolling.snapshotQuantile`)
// names THE SAMPLE whose bin answers, the harness decodes the real answer to the sample within alpha of it.

const UNIT_EXP: i32 = -40;
/// floor(1e-9 / 2^-40): values of at most this many units are zeros to the sketch (`src_sketch_parameters`)
const MIN_UNITS: i64 = 1099;

fn run_quantile_case(r: &mut Rng, out: &mut Out) {
    let unit = (UNIT_EXP as f64).exp2();
    let n = r.range(1, 4) as u32;
    let d = *r.pick(&[10u64, 1000, 1_000_000_000]);
    let w = n as u64 * d;
    // magnitudes of one case stay within a factor 8 (plus the zero class): far from the 700x at which the sketch
    // starts collapsing its lowest bins (documented loss of accuracy, outside the stated relative error)
    let e = *r.pick(&[11u32, 12, 14, 17, 22, 27, 30, 40, 45, 57]);
    let table = value_table();
    let (clock, mock) = Clock::mock();
    let start = *r.pick(&[0, d, 7 * w + 3]);
    mock.increment(start);
    let mut t = start;
    let quantiles = Arc::new(parse_quantiles(&[0.0, 0.5, 1.0]));
    let mut dist = Distribution::new_summary(quantiles, Duration::from_nanos(d), NonZeroU32::new(n).unwrap());
    out.op(&format!("c15 rnew {} {}", n, d), "ok");
    out.op(&format!("c15 runit {}", MIN_UNITS), "ok");
    out.count(&format!("Q.magnitude=2^{}", e as i32 + UNIT_EXP));
    let mut added: Vec<(Option<i64>, u64)> = vec![]; // (units; None = NaN, ts)
    let rounds = r.range(1, 4);
    let mut nontrivial = false;
    for _ in 0..rounds {
        let nadd = r.range(1, 24);
        let mut batch: Vec<(f64, quanta::Instant)> = vec![];
        let mut toks: Vec<String> = vec![];
        for _ in 0..nadd {
            let step = *r.pick(&[0, 0, 0, 1, d / 2, d, d + 1, w - 1]);
            mock.increment(step);
            t += step;
            let m = (*r.pick(&table)) << (e - 10);
            let v: Option<i64> = match r.below(40) {
                0..=21 => Some(m),
                22..=31 => Some(-m),
                32..=36 => Some(*r.pick(&[0i64, 1, -1, 500, -777, MIN_UNITS, -MIN_UNITS])),
                37 | 38 => {
                    if e <= 14 {
                        Some(*r.pick(&[MIN_UNITS + 1, -MIN_UNITS - 1]))
                    } else {
                        Some(m)
                    }
                }
                _ => None,
            };
            let f = v.map(|u| u as f64 * unit).unwrap_or(f64::NAN);
            batch.push((f, clock.now()));
            toks.push(format!("{}@{}", v.map(|u| u.to_string()).unwrap_or("nan".into()), t));
            added.push((v, t));
            out.count(match v {
                None => "Q.sample NaN",
                Some(u) if u.abs() <= MIN_UNITS => "Q.sample in the zero class (|v| <= 1e-9)",
                Some(u) if u.abs() == MIN_UNITS + 1 => "Q.sample just above 1e-9",
                Some(u) if u > 0 => "Q.sample positive",
                _ => "Q.sample negative",
            });
        }
        dist.record_samples(&batch);
        out.op(&format!("c15 radd {}", list(toks.into_iter())), "ok");
        let step = *r.pick(&[0, 0, 1, d, w - 1, w, w + 1]);
        mock.increment(step);
        t += step;
        let summary = match &dist {
            Distribution::Summary(s, _, _) => s,
            _ => unreachable!(),
        };
        let snap = summary.snapshot(clock.now());
        let retained = snap.count();
        // brute-force window (bucket-granular: `upper` is everything that may still be there)
        let upper: Vec<Option<i64>> = added.iter().filter(|(_, ts)| ts + w > t).map(|x| x.0).collect();
        if upper.len() < added.len() && !upper.is_empty() {
            nontrivial = true;
        }
        let is_zero_class = |v: &Option<i64>| v.map(|u| u.abs() <= MIN_UNITS).unwrap_or(true);
        for (num, den) in [(1u64, 2u64), (1, 4), (3, 4), (1, 8), (7, 8), (1, 16), (15, 16), (1, 1024), (1023, 1024)] {
            let q = num as f64 / den as f64;
            let ans = snap.quantile(q);
            let tok = match ans {
                None => "none".to_string(),
                Some(x) if x == 0.0 => "zero".to_string(),
                Some(x) => {
                    // the sample (of all that were ever added) within the stated relative error of the answer
                    let xu = x / unit;
                    let mut cands: Vec<i64> =
                        added.iter().filter_map(|a| a.0).filter(|u| u.abs() > MIN_UNITS && ((xu - *u as f64) / *u as f64).abs() <= SKETCH_ALPHA).collect();
                    cands.sort();
                    cands.dedup();
                    if cands.len() == 1 {
                        cands[0].to_string()
                    } else {
                        out.oracle_fail(
                            "summary quantile is not within the sketch's relative error of any recorded sample",
                            &format!(
                                "new_summary(n={}, d={} ns), adds (units of 2^-40, ts)={:?}, snapshot at {}: quantile({}) = {:e} = {} units",
                                n, d, added, t, q, x, xu
                            ),
                        );
                        "undecodable".to_string()
                    }
                }
            };
            // ---- oracle (independent of the model): the answer is (the bin of) a sample of the window
            let ok = match ans {
                None => retained == 0,
                Some(x) if x == 0.0 => upper.iter().any(is_zero_class),
                Some(x) => upper.iter().any(|v| match v {
                    Some(u) if u.abs() > MIN_UNITS => ((x / unit - *u as f64) / *u as f64).abs() <= SKETCH_ALPHA,
                    _ => false,
                }),
            };
            if !ok {
                out.oracle_fail(
                    "summary quantile outside [min,max] of the samples in the window",
                    &format!(
                        "new_summary(n={}, d={} ns), adds (units of 2^-40, ts)={:?}, snapshot at {}: quantile({}) = {:?}, not (the bin of) any sample younger than the window",
                        n, d, added, t, q, ans
                    ),
                );
            }
            out.op(&format!("c15 rquant {} {} {}", t, num, den), &tok);
        }
    }
    if nontrivial {
        out.nontrivial();
    }
}

// ---------------------------------------------------------------------------------------------
// stream D

fn own_sanitize(s: &str) -> String {
    s.chars()
        .enumerate()
        .map(|(i, c)| if c == '_' || c == ':' || c.is_ascii_alphabetic() || (i > 0 && c.is_ascii_digit()) { c } else { '_' })
        .collect()
}

struct DistCase {
    global: Option<Vec<i64>>,
    calls: Vec<(u8, String, Vec<i64>)>,
    names: Vec<String>,
}

fn rule_bounds(idx: usize) -> Vec<i64> {
    // distinct per rule, ascending
    vec![1024 * (idx as i64 + 1), 1024 * (idx as i64 + 1) + 512, 1024 * 100]
}

fn gen_dist_case(r: &mut Rng) -> DistCase {
    let pool = [
        "lat_ms", "lat.ms", "lat", "lat-ms", "http_requests_total", "http.requests.total", "http", "a", "q.depth", "svc:rate", "9lives",
        "_lives", "ms", "_ms", ".ms", "total", "é_ms", "lat_ms_", "",
    ];
    let nnames = r.range(1, 4);
    let names: Vec<String> = (0..nnames)
        .map(|_| {
            let mut s = r.pick_str(&pool[..pool.len() - 1]).to_string();
            if r.chance(1, 4) {
                s.push_str(r.pick_str(&["_ms", ".ms", "_total", "x"]));
            }
            s
        })
        .collect();
    let ncalls = *r.pick(&[0usize, 1, 1, 2, 2, 3, 4, 6]);
    let mut calls = vec![];
    for i in 0..ncalls {
        let kind = r.below(3) as u8;
        let base = if r.chance(3, 4) { names[r.below(names.len())].clone() } else { r.pick_str(&pool).to_string() };
        let chars: Vec<char> = base.chars().collect();
        let mut pat: String = match (kind, r.below(4)) {
            (_, 0) => base.clone(),
            (0, _) => base.clone(),
            (1, _) => chars[..r.range(0, chars.len())].iter().collect(),
            _ => chars[r.range(0, chars.len())..].iter().collect(),
        };
        // unsanitised / sanitised variants of the same pattern
        match r.below(5) {
            0 => pat = pat.replace('_', "."),
            1 => pat = pat.replace('.', "_"),
            2 => pat = pat.replace('_', "-"),
            _ => {}
        }
        calls.push((kind, pat, rule_bounds(i)));
    }
    let global = if r.chance(1, 3) { Some(vec![7 * 1024, 9 * 1024]) } else { None };
    DistCase { global, calls, names }
}

fn run_dist_case(out: &mut Out, c: &DistCase) {
    let mut b = PrometheusBuilder::new();
    if let Some(g) = &c.global {
        b = b.set_buckets(&g.iter().map(|n| dy(*n)).collect::<Vec<_>>()).unwrap();
    }
    for (kind, pat, bs) in &c.calls {
        let m = match kind {
            0 => Matcher::Full(pat.clone()),
            1 => Matcher::Prefix(pat.clone()),
            _ => Matcher::Suffix(pat.clone()),
        };
        b = b.set_buckets_for_metric(m, &bs.iter().map(|n| dy(*n)).collect::<Vec<_>>()).unwrap();
    }
    let rec = b.build_recorder();
    let handle = rec.handle();
    for n in &c.names {
        let key = Key::from_name(n.clone());
        rec.register_histogram(&key, &META).record(1.5);
    }
    let text = handle.render();
    let fams = match expo::check_exposition(&text) {
        Ok(f) => f,
        Err(e) => {
            out.oracle_fail("render(): not well-formed exposition text", &format!("{} :: {:?}", e, text));
            vec![]
        }
    };
    // the override map as the builder keeps it: later call with the same sanitised matcher replaces
    let mut map: Vec<(u8, String, Vec<i64>)> = vec![];
    for (k, p, bs) in &c.calls {
        let sp = own_sanitize(p);
        if let Some(e) = map.iter_mut().find(|(k2, p2, _)| k2 == k && *p2 == sp) {
            e.2 = bs.clone();
        } else {
            map.push((*k, sp, bs.clone()));
        }
    }
    let ints = |v: &[i64]| v.iter().map(|n| n.to_string()).collect::<Vec<_>>().join("+");
    let calls_tok = list(c.calls.iter().map(|(k, p, bs)| format!("{}/{}/{}", ["full", "prefix", "suffix"][*k as usize], hexs(p), ints(bs))));
    out.count(&format!("D.calls={} global={}", c.calls.len().min(4), c.global.is_some()));
    for n in &c.names {
        let san = metrics_exporter_prometheus::formatting::sanitize_metric_name(n);
        let fam = fams.iter().find(|f| f.name == san);
        let answer = match fam {
            None => "absent".to_string(),
            Some(f) => {
                if f.ty == "histogram" {
                    let mut les: Vec<i64> = vec![];
                    for (sn, ls, _) in &f.samples {
                        if sn.ends_with("_bucket") {
                            let le = &ls.iter().find(|(k, _)| k == "le").unwrap().1;
                            if le != "+Inf" {
                                les.push((le.parse::<f64>().unwrap() * 1024.0) as i64);
                            }
                        }
                    }
                    format!("{} histogram:{}", f.ty, ints(&les))
                } else {
                    let has_q = f.samples.iter().any(|(_, ls, _)| ls.iter().any(|(k, _)| k == "quantile"));
                    format!("{} {}", f.ty, if has_q { "summary" } else { "neither" })
                }
            }
        };
        out.op(&format!("c15 dist {} {} {}", c.global.as_ref().map(|g| ints(g)).unwrap_or("~".into()), calls_tok, hexs(n)), &answer);
        // ---- oracle: precedence written down independently of the model
        let own = own_sanitize(n);
        let matching = |kind: u8| -> Vec<&Vec<i64>> {
            map.iter()
                .filter(|(k, p, _)| {
                    *k == kind
                        && match kind {
                            0 => own == *p,
                            1 => own.starts_with(p.as_str()),
                            _ => own.ends_with(p.as_str()),
                        }
                })
                .map(|x| &x.2)
                .collect()
        };
        let (rule, allowed): (&str, Vec<Vec<i64>>) = if !matching(0).is_empty() {
            ("full", matching(0).into_iter().cloned().collect())
        } else if !matching(1).is_empty() {
            ("prefix", matching(1).into_iter().cloned().collect())
        } else if !matching(2).is_empty() {
            ("suffix", matching(2).into_iter().cloned().collect())
        } else if let Some(g) = &c.global {
            ("global", vec![g.clone()])
        } else {
            ("summary", vec![])
        };
        out.count(&format!("D.rule={}", rule));
        let ok = if rule == "summary" {
            answer == "summary summary"
        } else {
            allowed.iter().any(|bs| answer == format!("histogram histogram:{}", ints(bs)))
        };
        if !ok {
            out.oracle_fail(
                "histogram name not exposed with the buckets of the first applicable rule (full, prefix, suffix, global, else summary)",
                &format!("name={:?} calls={:?} global={:?} rule={} allowed={:?} got {}", n, c.calls, c.global, rule, allowed, answer),
            );
        }
        if rule != "summary" && rule != "global" && c.calls.len() >= 2 {
            out.nontrivial();
        }
    }
}

fn dist_corpus() -> Vec<DistCase> {
    let s = |x: &str| x.to_string();
    vec![
        // all three kinds apply to one name
        DistCase {
            global: Some(vec![7168]),
            calls: vec![(2, s("ms"), rule_bounds(0)), (1, s("lat"), rule_bounds(1)), (0, s("lat_ms"), rule_bounds(2))],
            names: vec![s("lat_ms"), s("lat.ms"), s("lat_us"), s("x_ms"), s("other")],
        },
        // patterns are sanitised: `lat.ms` and `lat_ms` are the same full matcher, the later call wins
        DistCase {
            global: None,
            calls: vec![(0, s("lat.ms"), rule_bounds(0)), (0, s("lat_ms"), rule_bounds(1)), (2, s(".ms"), rule_bounds(2))],
            names: vec![s("lat-ms"), s("foo.ms"), s("foo")],
        },
        // several prefixes / suffixes apply; the empty prefix matches everything
        DistCase {
            global: None,
            calls: vec![(1, s("http_req"), rule_bounds(0)), (1, s("http"), rule_bounds(1)), (1, s(""), rule_bounds(2)), (2, s("total"), rule_bounds(3)), (2, s("_total"), rule_bounds(4))],
            names: vec![s("http_requests_total"), s("x_total"), s("zzz")],
        },
        // leading digit is sanitised in names and patterns alike
        DistCase { global: None, calls: vec![(0, s("9lives"), rule_bounds(0)), (1, s("9"), rule_bounds(1))], names: vec![s("9lives"), s("_lives"), s("8lives")] },
    ]
}

// ---------------------------------------------------------------------------------------------
// stream E: how a histogram NAME is exposed by a whole recorder — family name (unit suffix on/off, described units),
// `# TYPE`, bucket lines of every label set — against override tables of up to 24 matchers whose patterns are built
// from the plain name, from the EXPOSED family name (name + unit suffix) and from the unit suffix itself, so that a
// decision taken on any other string than the plain sanitised name shows.  Model: the recorder model (`prom …` ops,
// Model/Prom.lean; theorem `exposed_type_iff_buckets_apply`); oracle: precedence and bucket counts written down here.

fn own_unit_suffix(u: Option<metrics::Unit>) -> String {
    // exposition convention as documented for `set_enable_unit_suffix`: `_<unit>`, `Count` adds nothing, `Percent` is a ratio
    match u {
        None | Some(metrics::Unit::Count) => String::new(),
        Some(metrics::Unit::Percent) => "_ratio".into(),
        Some(u) => format!("_{}", u.as_str()),
    }
}

struct ExpoName {
    raw: String,
    /// describe calls: (unit, text, before the first record?)
    descs: Vec<(Option<metrics::Unit>, String, bool)>,
    label_sets: Vec<Vec<(String, String)>>,
}

struct ExpoCase {
    unit_suffix: bool,
    global: Option<Vec<i64>>,
    calls: Vec<(u8, String, Vec<i64>)>,
    names: Vec<ExpoName>,
    /// (name index, label set index, value) in recording order; `None` = run_upkeep
    history: Vec<Option<(usize, usize, i64)>>,
}

/// bounds of the `idx`-th builder call: strictly increasing, 1-12 of them, the first one identifies the call
fn expo_rule_bounds(r: &mut Rng, idx: usize) -> Vec<i64> {
    let n = *r.pick(&[1usize, 2, 3, 3, 5, 8, 9, 12]);
    let mut v = vec![1024 * (idx as i64 + 1) - 40 * 1024];
    for _ in 1..n {
        let last = *v.last().unwrap();
        v.push(last + *r.pick(&[1i64, 512, 1024, 4096, 50_000]));
    }
    v
}

fn gen_expo_case(r: &mut Rng) -> ExpoCase {
    use crate::c08::UNITS;
    let bases = ["request_latency", "queue_wait", "lat", "reqs", "http.requests", "mem", "q.depth", "io-wait", "a", "svc:rate", "disk_io", "9lives"];
    let unit_suffix = !r.chance(1, 4);
    let nnames = r.range(1, 4);
    let mut names: Vec<ExpoName> = vec![];
    let mut fams: Vec<String> = vec![];
    let mut tries = 0;
    while names.len() < nnames && tries < 40 {
        tries += 1;
        let mut raw = r.pick_str(&bases).to_string();
        if r.chance(1, 4) {
            raw.push_str(r.pick_str(&[".ms", "2", "_x", "_seconds"]));
        }
        let mut descs = vec![];
        if r.chance(3, 4) {
            for i in 0..r.range(1, 2) {
                // units whose suffix is a likely Suffix pattern come more often
                let unit = if r.chance(1, 8) {
                    None
                } else if r.chance(1, 2) {
                    Some(*r.pick(&[metrics::Unit::Seconds, metrics::Unit::Bytes, metrics::Unit::Milliseconds, metrics::Unit::Percent]))
                } else {
                    Some(*r.pick(&UNITS))
                };
                descs.push((unit, r.pick_str(&["first", "second help", ""]).to_string(), i == 0 && r.chance(2, 3)));
            }
        }
        let san = own_sanitize(&raw);
        let fam = format!("{}{}", san, if unit_suffix { own_unit_suffix(descs.first().and_then(|d| d.0)) } else { String::new() });
        // distinct families: neither the plain nor the exposed name equals or `_`-extends another one (families that
        // collide through unit / type suffixes are C08's recorded finding, not this property)
        let clash = fams.iter().any(|o| {
            [&san, &fam].iter().any(|x| *o == **x || x.starts_with(&format!("{}_", o)) || o.starts_with(&format!("{}_", x)))
        });
        if clash {
            continue;
        }
        fams.push(san.clone());
        if fam != san {
            fams.push(fam);
        }
        let nsets = *r.pick(&[1usize, 1, 2, 3]);
        let mut label_sets: Vec<Vec<(String, String)>> = vec![];
        for k in 0..nsets {
            let ls = match k {
                0 if r.chance(1, 2) => vec![],
                _ => vec![("host".to_string(), format!("h{}", k)), ("zone".to_string(), r.pick_str(&["eu", "us"]).to_string())],
            };
            if !label_sets.contains(&ls) {
                label_sets.push(ls);
            }
        }
        names.push(ExpoName { raw, descs, label_sets });
    }
    // ---- the override table
    let ncalls = *r.pick(&[0usize, 1, 2, 2, 3, 3, 4, 6, 9, 12, 16, 24]);
    let mut calls: Vec<(u8, String, Vec<i64>)> = vec![];
    for i in 0..ncalls {
        let nm = &names[r.below(names.len())];
        let raw = nm.raw.clone();
        let chars: Vec<char> = raw.chars().collect();
        // the suffix this name is (or could be) exposed with
        let sfx = match nm.descs.first().and_then(|d| d.0) {
            Some(u) if !own_unit_suffix(Some(u)).is_empty() => own_unit_suffix(Some(u)),
            _ => own_unit_suffix(Some(*r.pick(&[metrics::Unit::Seconds, metrics::Unit::Bytes, metrics::Unit::Percent]))),
        };
        let exposed = format!("{}{}", raw, sfx);
        let kind = r.below(3) as u8;
        let mut pat: String = match (kind, r.below(6)) {
            (0, 0) | (0, 1) => raw.clone(),
            (0, 2) | (0, 3) => exposed.clone(),
            (0, 4) => format!("{}{}", raw, r.below(10)), // near miss
            (0, _) => chars[..chars.len() - 1].iter().collect(),
            (1, 0) => raw.clone(),
            (1, 1) => format!("{}_", raw), // matches the exposed name only
            (1, 2) => exposed.chars().take(chars.len() + 1 + r.below(sfx.len().max(1))).collect(),
            (1, 3) => exposed.clone(),
            (1, _) => chars[..r.range(0, chars.len())].iter().collect(),
            (_, 0) => sfx.clone(),
            (_, 1) => sfx.trim_start_matches('_').to_string(),
            (_, 2) => exposed.chars().skip(r.range(0, chars.len())).collect(),
            (_, 3) => raw.clone(),
            (_, _) => chars[r.range(0, chars.len())..].iter().collect(),
        };
        match r.below(6) {
            0 => pat = pat.replace('_', "."),
            1 => pat = pat.replace('.', "_"),
            2 => pat = pat.replace('_', "-"),
            _ => {}
        }
        calls.push((kind, pat, expo_rule_bounds(r, i)));
    }
    let global = if r.chance(1, 5) { Some(vec![-3 * 1024, 7 * 1024, 9 * 1024]) } else { None };
    // ---- history
    let mut history = vec![];
    let nrec = r.range(1, 30);
    for _ in 0..nrec {
        if r.chance(1, 8) {
            history.push(None);
            continue;
        }
        let ni = r.below(names.len());
        let li = r.below(names[ni].label_sets.len());
        let v = if !calls.is_empty() && r.chance(1, 2) {
            // equal to a bound of some rule
            let c = &calls[r.below(calls.len())];
            *r.pick(&c.2)
        } else {
            r.range(0, 100_000) as i64 - 50_000
        };
        history.push(Some((ni, li, v)));
    }
    ExpoCase { unit_suffix, global, calls, names, history }
}

/// lenient reading of an exposition text (no family-membership rules: those are what is being checked)
struct Lenient {
    types: Vec<(String, String)>,
    samples: Vec<(String, Vec<(String, String)>, String)>,
    unparseable: Vec<String>,
}
fn read_lenient(text: &str) -> Lenient {
    let mut l = Lenient { types: vec![], samples: vec![], unparseable: vec![] };
    for line in text.strip_suffix('\n').unwrap_or(text).split('\n') {
        match expo::parse_line(line) {
            Ok(expo::PLine::Type { name, ty }) => l.types.push((name, ty)),
            Ok(expo::PLine::Sample { name, labels, value }) => l.samples.push((name, labels, value)),
            Ok(_) => {}
            Err(_) => l.unparseable.push(line.to_string()),
        }
    }
    l
}

fn run_expo_case(out: &mut Out, c: &ExpoCase) {
    let ints = |v: &[i64]| v.iter().map(|n| n.to_string()).collect::<Vec<_>>().join("+");
    let matcher = |kind: u8, pat: &str| match kind {
        0 => Matcher::Full(pat.to_string()),
        1 => Matcher::Prefix(pat.to_string()),
        _ => Matcher::Suffix(pat.to_string()),
    };
    // the builder refuses an empty bound list (else `Distribution::new_histogram(&[])` panics at the first drain)
    if let Some((k, p, _)) = c.calls.first() {
        if PrometheusBuilder::new().set_buckets_for_metric(matcher(*k, p), &[]).is_ok() {
            out.oracle_fail("builder accepted an empty bucket list", &format!("set_buckets_for_metric({:?}, &[])", matcher(*k, p)));
        }
    }
    let mut b = PrometheusBuilder::new().set_enable_unit_suffix(c.unit_suffix);
    if let Some(g) = &c.global {
        b = b.set_buckets(&g.iter().map(|n| dy(*n)).collect::<Vec<_>>()).unwrap();
    }
    for (kind, pat, bs) in &c.calls {
        b = b.set_buckets_for_metric(matcher(*kind, pat), &bs.iter().map(|n| dy(*n)).collect::<Vec<_>>()).unwrap();
    }
    let rec = b.build_recorder();
    let handle = rec.handle();
    let qtexts = ["0", "0.5", "0.9", "0.95", "0.99", "0.999", "1"];
    out.op(
        &format!(
            "prom new {} {} {} {} {}",
            c.unit_suffix as u8,
            pairs(&[]),
            c.global.as_ref().map(|g| ints(g)).unwrap_or("~".into()),
            list(c.calls.iter().map(|(k, p, bs)| format!("{}/{}/{}", ["full", "prefix", "suffix"][*k as usize], hexs(p), ints(bs)))),
            list(qtexts.iter().map(|q| hexs(q)))
        ),
        "ok",
    );
    out.count(&format!(
        "E.unit_suffix={} calls={} global={}",
        c.unit_suffix,
        match c.calls.len() {
            0 => "0",
            1..=4 => "1-4",
            5..=9 => "5-9",
            _ => ">9",
        },
        c.global.is_some()
    ));
    let keys: Vec<Vec<Key>> = c
        .names
        .iter()
        .map(|n| {
            n.label_sets
                .iter()
                .map(|ls| Key::from_parts(n.raw.clone(), ls.iter().map(|(k, v)| metrics::Label::new(k.clone(), v.clone())).collect::<Vec<_>>()))
                .collect()
        })
        .collect();
    let describe = |out: &mut Out, n: &ExpoName, before: bool| {
        for (i, (unit, text, bf)) in n.descs.iter().enumerate() {
            if *bf == before {
                let kn = metrics::KeyName::from(n.raw.clone());
                // descriptions are kept per name whatever the kind they were given for
                if i == 1 {
                    rec.describe_gauge(kn, *unit, text.clone().into());
                } else {
                    rec.describe_histogram(kn, *unit, text.clone().into());
                }
                out.op(&format!("prom describe {} {} {}", hexs(&n.raw), crate::c08::unit_tok(*unit), hexs(text)), "ok");
            }
        }
    };
    for n in &c.names {
        describe(out, n, true);
    }
    // own tally: samples per (name, label set)
    let mut tally: Vec<Vec<Vec<i64>>> = c.names.iter().map(|n| n.label_sets.iter().map(|_| vec![]).collect()).collect();
    // the override map as the builder keeps it: a later call with the same sanitised matcher replaces
    let mut map: Vec<(u8, String, Vec<i64>)> = vec![];
    for (k, p, bs) in &c.calls {
        let sp = own_sanitize(p);
        if let Some(e) = map.iter_mut().find(|(k2, p2, _)| k2 == k && *p2 == sp) {
            e.2 = bs.clone();
        } else {
            map.push((*k, sp, bs.clone()));
        }
    }
    let check_render = |out: &mut Out, tally: &Vec<Vec<Vec<i64>>>, after_done: bool| {
        let text = handle.render();
        out.op("prom render", &prom::canonical(&text));
        if let Err(e) = expo::check_exposition(&text) {
            out.oracle_fail("render(): not well-formed exposition text", &format!("{} :: {:?}", e, text));
        }
        let rd = read_lenient(&text);
        for (ni, n) in c.names.iter().enumerate() {
            if tally[ni].iter().all(|t| t.is_empty()) {
                continue; // nothing recorded under this name yet
            }
            let own = own_sanitize(&n.raw);
            // the first description in time (only the first of the list can precede the records)
            let first_unit = n.descs.first().filter(|d| d.2 || after_done).and_then(|d| d.0);
            let fam = format!("{}{}", own, if c.unit_suffix { own_unit_suffix(first_unit) } else { String::new() });
            let matching = |kind: u8| -> Vec<Vec<i64>> {
                map.iter()
                    .filter(|(k, p, _)| {
                        *k == kind
                            && match kind {
                                0 => own == *p,
                                1 => own.starts_with(p.as_str()),
                                _ => own.ends_with(p.as_str()),
                            }
                    })
                    .map(|x| x.2.clone())
                    .collect()
            };
            let (rule, allowed): (&str, Vec<Vec<i64>>) = if !matching(0).is_empty() {
                ("full", matching(0))
            } else if !matching(1).is_empty() {
                ("prefix", matching(1))
            } else if !matching(2).is_empty() {
                ("suffix", matching(2))
            } else if let Some(g) = &c.global {
                ("global", vec![g.clone()])
            } else {
                ("summary", vec![])
            };
            out.count(&format!("E.rule={}", rule));
            let want_ty = if rule == "summary" { "summary" } else { "histogram" };
            let tys: Vec<&String> = rd.types.iter().filter(|(f, _)| *f == fam).map(|x| &x.1).collect();
            let describe_input = || {
                format!(
                    "set_enable_unit_suffix({}) global={:?} set_buckets_for_metric calls (kind 0 full/1 prefix/2 suffix, pattern, bounds*1024)={:?}; histogram {:?} described {:?}, label sets {:?}, samples*1024 {:?}",
                    c.unit_suffix, c.global, c.calls, n.raw, n.descs, n.label_sets, tally[ni]
                )
            };
            if tys.len() != 1 || tys[0] != want_ty {
                out.oracle_fail(
                    "histogram name not exposed with the buckets of the first applicable rule (full, prefix, suffix, global, else summary)",
                    &format!("{}: rule={} expected `# TYPE {} {}`, got TYPE lines {:?} in {:?}", describe_input(), rule, fam, want_ty, tys, text),
                );
                continue;
            }
            for (li, ls) in n.label_sets.iter().enumerate() {
                let vals = &tally[ni][li];
                if vals.is_empty() {
                    continue;
                }
                let mine: Vec<&(String, Vec<(String, String)>, String)> = rd
                    .samples
                    .iter()
                    .filter(|(sn, l, _)| {
                        (sn == &fam || sn == &format!("{}_bucket", fam) || sn == &format!("{}_sum", fam) || sn == &format!("{}_count", fam))
                            && l.iter().filter(|(k, _)| k != "le" && k != "quantile").cloned().collect::<Vec<_>>() == *ls
                    })
                    .collect();
                let buckets: Vec<(String, String)> = mine
                    .iter()
                    .filter(|(sn, _, _)| sn.ends_with("_bucket") && *sn == format!("{}_bucket", fam))
                    .map(|(_, l, v)| (l.iter().find(|(k, _)| k == "le").map(|x| x.1.clone()).unwrap_or_default(), v.clone()))
                    .collect();
                let quants: Vec<(String, String)> = mine
                    .iter()
                    .filter(|(sn, l, _)| *sn == fam && l.iter().any(|(k, _)| k == "quantile"))
                    .map(|(_, l, v)| (l.iter().find(|(k, _)| k == "quantile").unwrap().1.clone(), v.clone()))
                    .collect();
                let cnt = mine.iter().find(|(sn, _, _)| *sn == format!("{}_count", fam)).map(|x| x.2.clone());
                let sum = mine.iter().find(|(sn, _, _)| *sn == format!("{}_sum", fam)).and_then(|x| x.2.parse::<f64>().ok());
                let total: i64 = vals.iter().sum();
                if cnt != Some(vals.len().to_string()) || sum != Some(dy(total)) {
                    out.oracle_fail(
                        "rendered _count/_sum do not cover all samples",
                        &format!("{}: labels {:?}: _count {:?} _sum {:?}", describe_input(), ls, cnt, sum),
                    );
                }
                if rule == "summary" {
                    let labels: Vec<&str> = quants.iter().map(|x| x.0.as_str()).collect();
                    if !buckets.is_empty() || labels != qtexts {
                        out.oracle_fail(
                            "histogram name not exposed with the buckets of the first applicable rule (full, prefix, suffix, global, else summary)",
                            &format!("{}: rule=summary, labels {:?}: bucket lines {:?}, quantile labels {:?}", describe_input(), ls, buckets, labels),
                        );
                    }
                    let (mn, mx) = vals.iter().fold((f64::INFINITY, f64::NEG_INFINITY), |(a, b), x| (a.min(dy(*x)), b.max(dy(*x))));
                    for (q, v) in &quants {
                        // everything was recorded within the last milliseconds: the window holds all samples
                        let x: f64 = v.parse().unwrap_or(f64::NAN);
                        let slack = SKETCH_ALPHA * mn.abs().max(mx.abs()) + SKETCH_MIN_VALUE;
                        if !(x >= mn - slack && x <= mx + slack) {
                            out.oracle_fail(
                                "summary quantile outside [min,max] of the samples in the window",
                                &format!("{}: labels {:?}: quantile={} shows {} (min {} max {})", describe_input(), ls, q, v, mn, mx),
                            );
                        }
                    }
                } else {
                    // the `le` lines in rendering order: the bounds of one applicable rule, then +Inf
                    let les: Vec<i64> = buckets.iter().filter(|x| x.0 != "+Inf").map(|x| (x.0.parse::<f64>().unwrap_or(f64::NAN) * 1024.0) as i64).collect();
                    let inf: Vec<&(String, String)> = buckets.iter().filter(|x| x.0 == "+Inf").collect();
                    if !allowed.contains(&les) || !quants.is_empty() || inf.len() != 1 || buckets.last().map(|x| x.0.as_str()) != Some("+Inf") {
                        out.oracle_fail(
                            "histogram name not exposed with the buckets of the first applicable rule (full, prefix, suffix, global, else summary)",
                            &format!("{}: rule={} allowed bounds*1024 {:?}, labels {:?}: le lines {:?}, quantile lines {:?}", describe_input(), rule, allowed, ls, buckets, quants),
                        );
                        continue;
                    }
                    let mut prev = 0u64;
                    for (le, v) in &buckets {
                        let got: u64 = v.parse().unwrap_or(u64::MAX);
                        let want = if le == "+Inf" {
                            vals.len() as u64
                        } else {
                            let b: f64 = le.parse().unwrap();
                            vals.iter().filter(|x| dy(**x) <= b).count() as u64
                        };
                        if got != want || got < prev {
                            out.oracle_fail(
                                "histogram bucket count is not the number of samples <= bound",
                                &format!("{}: labels {:?}: le={} want {} got {} (previous line {})", describe_input(), ls, le, want, got, prev),
                            );
                        }
                        prev = got;
                    }
                    if les.len() > 8 {
                        out.count("E.rendered histogram with more than 8 bounds");
                    }
                }
            }
            if n.label_sets.len() > 1 {
                out.count("E.name with several label sets");
            }
            if c.unit_suffix && fam != own {
                out.count(&format!("E.exposed under a unit suffix, rule={}", rule));
                if c.calls.len() >= 2 {
                    out.nontrivial();
                }
            }
        }
    };
    let mut described_after = false;
    let nh = c.history.len();
    for (i, h) in c.history.iter().enumerate() {
        match h {
            None => {
                handle.run_upkeep();
                out.op("prom upkeep", "ok");
            }
            Some((ni, li, v)) => {
                rec.register_histogram(&keys[*ni][*li], &META).record(dy(*v));
                tally[*ni][*li].push(*v);
                let ls: Vec<(String, String)> = c.names[*ni].label_sets[*li].clone();
                out.op(&format!("prom hrec {} {} {}", hexs(&c.names[*ni].raw), pairs(&ls), v), "ok");
            }
        }
        if i == nh / 2 {
            // a first render in the middle: the distributions exist from here on (`or_insert_with`), later descriptions
            // change the family name but must not change the type
            check_render(out, &tally, false);
            for n in &c.names {
                describe(out, n, false);
            }
            described_after = true;
        }
    }
    if !described_after {
        for n in &c.names {
            describe(out, n, false);
        }
    }
    check_render(out, &tally, true);
}

fn expo_corpus() -> Vec<ExpoCase> {
    use metrics::Unit;
    let s = |x: &str| x.to_string();
    let nm = |raw: &str, unit: Option<Unit>| ExpoName { raw: s(raw), descs: vec![(unit, s("help"), true)], label_sets: vec![vec![], vec![(s("host"), s("h1"))]] };
    let hist = |n: usize| -> Vec<Option<(usize, usize, i64)>> {
        (0..n).flat_map(|i| vec![Some((i, 0, 512)), Some((i, 1, 2048)), Some((i, 0, 1024))]).collect()
    };
    vec![
        // a Full override of the plain name, the name exposed under a unit suffix; a Suffix override equal to the unit
        // suffix of a name no buckets apply to (past seeded defect: the type decided on the exposed family name)
        ExpoCase {
            unit_suffix: true,
            global: None,
            calls: vec![(0, s("request_latency"), vec![512, 1024, 4096]), (2, s("_seconds"), vec![100, 200])],
            names: vec![nm("request_latency", Some(Unit::Seconds)), nm("queue_wait", Some(Unit::Seconds))],
            history: hist(2),
        },
        // overrides that match the exposed name only (Full of name+suffix, Prefix `name_`), and the same with suffixes off
        ExpoCase {
            unit_suffix: true,
            global: None,
            calls: vec![(0, s("mem_bytes"), vec![1024]), (1, s("lat_"), vec![2048, 4096]), (2, s("ratio"), vec![1, 2, 3])],
            names: vec![nm("mem", Some(Unit::Bytes)), nm("lat", Some(Unit::Milliseconds)), nm("a", Some(Unit::Percent))],
            history: hist(3),
        },
        ExpoCase {
            unit_suffix: false,
            global: None,
            calls: vec![(0, s("request_latency"), vec![512, 1024, 4096]), (2, s("_seconds"), vec![100, 200])],
            names: vec![nm("request_latency", Some(Unit::Seconds)), nm("queue_wait", Some(Unit::Seconds))],
            history: hist(2),
        },
        // a table of 20 matchers, the deciding Full one sorting into the middle
        ExpoCase {
            unit_suffix: true,
            global: Some(vec![7168]),
            calls: (0..20)
                .map(|i| match i % 3 {
                    0 => (0u8, format!("m{}", i), vec![1024 * (i as i64 + 1)]),
                    1 => (1u8, format!("l{}", i), vec![1024 * (i as i64 + 1)]),
                    _ => (2u8, format!("t{}", i), vec![1024 * (i as i64 + 1)]),
                })
                .chain(vec![(0u8, s("lat"), vec![5, 6, 7]), (1u8, s("la"), vec![8, 9]), (2u8, s("at"), vec![10, 11])])
                .collect(),
            names: vec![nm("lat", Some(Unit::Seconds)), nm("m9", None), nm("zzt17", None)],
            history: hist(3),
        },
    ]
}

// ---------------------------------------------------------------------------------------------
// stream W: the window through a real recorder (record and render under `quanta::with_clock`)

fn run_window_session(r: &mut Rng, out: &mut Out) {
    // either setter may be left out: the documentation promises 3 buckets ("Defaults to 3") of 20 s ("Defaults to 20
    // seconds") for whichever was not set, independently of the other
    let set_n: Option<u32> = if r.chance(2, 3) { Some(*r.pick(&[1u32, 2, 3, 4, 5, 7, 17, 40])) } else { None };
    let set_d: Option<u64> = if r.chance(2, 3) { Some(*r.pick(&[1u64, 5, 20, 30]) * 1_000_000_000) } else { None };
    let n = set_n.unwrap_or(3);
    let d = set_d.unwrap_or(20_000_000_000);
    let w = n as u64 * d;
    let (clock, mock) = Clock::mock();
    let start = *r.pick(&[0, d, 10 * w + 17]);
    mock.increment(start);
    let mut t: u64 = start;
    // which value stands under which `quantile=` label: besides 0, 0.5 and 1, four interior quantiles, each compared
    // with the model's answer for exactly that quantile (`rquant`).  0.25/0.75 are dyadic; for 0.9 and 0.999 the f64
    // product q*(k-1) and the rational one have the same integer part for every k-1 <= 12 (at most 12 samples here).
    let interior: [(&str, u64, u64); 5] = [("0.25", 1, 4), ("0.5", 1, 2), ("0.75", 3, 4), ("0.9", 9, 10), ("0.999", 999, 1000)];
    let mut b = PrometheusBuilder::new().set_quantiles(&[0.0, 0.25, 0.5, 0.75, 0.9, 0.999, 1.0]).unwrap();
    // in either order
    let count_first = r.chance(1, 2);
    if count_first {
        if let Some(c) = set_n {
            b = b.set_bucket_count(NonZeroU32::new(c).unwrap());
        }
    }
    if let Some(dd) = set_d {
        b = b.set_bucket_duration(Duration::from_nanos(dd)).unwrap();
    }
    if !count_first {
        if let Some(c) = set_n {
            b = b.set_bucket_count(NonZeroU32::new(c).unwrap());
        }
    }
    let rec = b.build_recorder();
    let handle = rec.handle();
    let key = Key::from_name("win");
    out.count(&format!("W.bucket_count set={} bucket_duration set={}", set_n.is_some(), set_d.is_some()));
    // the model resolves the window (`DistBuilder.windowOf`); the implementation's window is observed through what
    // expires when (oracle below) — the answer column is the documented expectation
    out.op(
        &format!("c15 rnewcfg {} {}", set_n.map(|x| x.to_string()).unwrap_or("~".into()), set_d.map(|x| x.to_string()).unwrap_or("~".into())),
        &format!("{} {}", n, d),
    );
    let table = value_table();
    let mut added: Vec<(f64, u64)> = vec![];
    let steps = [0, 1, d / 2, d, d + 1, w - 1, w, w + 1, 3 * w, (w - d).saturating_sub(1), w - d / 2 - 1, (w - d).saturating_sub(d / 2)];
    let nev = r.range(2, 12);
    for i in 0..=nev {
        let step = *r.pick(&steps);
        mock.increment(step);
        t += step;
        if i < nev && !r.chance(1, 4) {
            let v = dy(*r.pick(&table));
            quanta::with_clock(&clock, || rec.register_histogram(&key, &META).record(v));
            // the sample is timestamped at record time; run_upkeep moves it into the distribution
            handle.run_upkeep();
            out.op(&format!("c15 radd {}@{}", fv_tok(v, true), t), "ok");
            added.push((v, t));
        } else {
            let text = quanta::with_clock(&clock, || handle.render());
            let fams = expo::check_exposition(&text).unwrap_or_default();
            let Some(f) = fams.iter().find(|f| f.name == "win") else { continue };
            let get = |name: &str, q: Option<&str>| -> Option<f64> {
                f.samples
                    .iter()
                    .find(|(sn, ls, _)| sn == name && ls.iter().find(|(k, _)| k == "quantile").map(|x| x.1.as_str()) == q)
                    .and_then(|x| x.2.parse::<f64>().ok())
            };
            let count = get("win_count", None).unwrap_or(-1.0);
            let sum = get("win_sum", None).unwrap_or(f64::NAN);
            let q0 = get("win", Some("0")).unwrap_or(f64::NAN);
            let q1 = get("win", Some("1")).unwrap_or(f64::NAN);
            let q50 = get("win", Some("0.5")).unwrap_or(f64::NAN);
            let upper: Vec<f64> = added.iter().filter(|(_, ts)| ts + w > t).map(|x| x.0).collect();
            let lower: Vec<f64> = added.iter().filter(|(_, ts)| ts + w > t + d).map(|x| x.0).collect();
            out.count(&format!("W.render window={}", if upper.is_empty() { "empty" } else if upper.len() < added.len() { "partial" } else { "all" }));
            let exact_sum: i64 = added.iter().map(|(v, _)| (v * 1024.0) as i64).sum();
            if count != added.len() as f64 || sum != dy(exact_sum) || f.ty != "summary" {
                out.oracle_fail("rendered summary _count/_sum do not cover all samples", &format!("{} {} vs {:?}", count, sum, added));
            }
            // q=0 and q=1 are the sketch's exact min/max; q=0.5 is within the stated relative error of a sample
            let near = |x: f64, y: f64| ((x - y) / y).abs() <= SKETCH_ALPHA;
            let fmin = |v: &Vec<f64>| v.iter().cloned().fold(f64::INFINITY, f64::min);
            let fmax = |v: &Vec<f64>| v.iter().cloned().fold(f64::NEG_INFINITY, f64::max);
            let mid_ok = upper.iter().any(|v| near(q50, *v));
            let ok = if upper.is_empty() {
                q0 == 0.0 && q1 == 0.0 && q50 == 0.0
            } else if lower.is_empty() {
                // the bucket holding the only candidates may or may not have been dropped yet
                (q0 == 0.0 && q1 == 0.0 && q50 == 0.0) || (q0 >= fmin(&upper) && q1 <= fmax(&upper) && mid_ok)
            } else {
                q0 >= fmin(&upper) && q1 <= fmax(&upper) && q0 <= fmin(&lower) && q1 >= fmax(&lower) && mid_ok
            };
            if !ok {
                out.oracle_fail(
                    "rendered quantiles are not those of the samples inside the rolling window (0 when empty)",
                    &format!(
                        "set_bucket_count({:?}) set_bucket_duration({:?} ns): expected window {} x {} ns; now={} adds={:?} rendered q0={} q0.5={} q1={}",
                        set_n, set_d, n, d, t, added, q0, q50, q1
                    ),
                );
            }
            if upper.len() < added.len() {
                out.nontrivial();
            }
            // every configured interior quantile, under its own label: the model names the sample whose bin answers
            let labels: Vec<&str> =
                f.samples.iter().filter(|(sn, _, _)| sn == "win").filter_map(|(_, ls, _)| ls.iter().find(|(k, _)| k == "quantile").map(|x| x.1.as_str())).collect();
            if labels != ["0", "0.25", "0.5", "0.75", "0.9", "0.999", "1"] {
                out.oracle_fail("rendered summary does not show the configured quantiles", &format!("{:?}", labels));
            }
            for (label, num, den) in interior.iter() {
                let x = get("win", Some(label)).unwrap_or(f64::NAN);
                let tok = if x == 0.0 {
                    "none".to_string()
                } else {
                    match table.iter().find(|n| near(x, dy(**n))) {
                        Some(n) => n.to_string(),
                        None => {
                            out.oracle_fail(
                                "summary quantile is not within the sketch's relative error of any recorded sample",
                                &format!("now={} adds={:?} rendered quantile={} shows {}", t, added, label, x),
                            );
                            "undecodable".to_string()
                        }
                    }
                };
                out.op(&format!("c15 rquant {} {} {}", t, num, den), &tok);
            }
            // model: count, sum and the emptiness of the window
            let retained_nonempty = !(q0 == 0.0 && q1 == 0.0);
            out.op(&format!("c15 rsnapq {}", t), &format!("{} {} {}", count as u64, fv_tok(sum, true), if retained_nonempty { "some" } else { "zero" }));
        }
    }
}


/// corpus: the window of a rendered summary whose newest bucket has no positive sample and whose older bucket only
/// saw an infinity (past finding: quantile="0" rendered +Inf and quantile="1" rendered -Inf)
fn run_render_inf_case(out: &mut Out, first: f64, second: f64) {
    let d: u64 = 10_000_000_000;
    let (clock, mock) = Clock::mock();
    let rec = PrometheusBuilder::new()
        .set_quantiles(&[0.0, 0.5, 1.0])
        .unwrap()
        .set_bucket_duration(Duration::from_nanos(d))
        .unwrap()
        .set_bucket_count(NonZeroU32::new(2).unwrap())
        .build_recorder();
    let handle = rec.handle();
    let key = Key::from_name("win");
    out.op(&format!("c15 rnew 2 {}", d), "ok");
    quanta::with_clock(&clock, || rec.register_histogram(&key, &META).record(first));
    handle.run_upkeep();
    out.op(&format!("c15 radd {}@0", fv_tok(first, true)), "ok");
    mock.increment(d);
    quanta::with_clock(&clock, || rec.register_histogram(&key, &META).record(second));
    handle.run_upkeep();
    out.op(&format!("c15 radd {}@{}", fv_tok(second, true), d), "ok");
    let text = quanta::with_clock(&clock, || handle.render());
    let fams = expo::check_exposition(&text).unwrap_or_default();
    let Some(f) = fams.iter().find(|f| f.name == "win") else {
        out.oracle_fail("rendered summary is missing", &text);
        return;
    };
    let finite: Vec<f64> = [first, second].iter().cloned().filter(|v| v.is_finite()).collect();
    let mn = finite.iter().cloned().fold(f64::INFINITY, f64::min);
    let mx = finite.iter().cloned().fold(f64::NEG_INFINITY, f64::max);
    let mut shown = vec![];
    for (sn, ls, v) in &f.samples {
        if let Some((_, q)) = ls.iter().find(|(k, _)| k == "quantile") {
            let x: f64 = v.parse().unwrap_or(f64::NAN);
            shown.push(format!("{}={}", q, v));
            let slack = 1e-3 * mn.abs().max(mx.abs()) + 1e-9;
            if sn == "win" && !(x >= mn - slack && x <= mx + slack) {
                out.oracle_fail(
                    "summary quantile outside [min,max] of the samples in the window",
                    &format!("render(): samples {} at t=0 and {} at t=10s, 2 buckets of 10s, rendered at t=10s: quantile={} shows {}", first, second, q, v),
                );
            }
        }
    }
    let get = |name: &str| f.samples.iter().find(|(sn, _, _)| sn == name).and_then(|x| x.2.parse::<f64>().ok());
    let count = get("win_count").unwrap_or(-1.0);
    let sum = get("win_sum").unwrap_or(0.0);
    out.op(&format!("c15 rsnapq {}", d), &format!("{} {} some", count as u64, fv_tok(sum, true)));
    out.count("W.corpus render with an infinite sample");
}

/// corpus: more than one bucket block (BLOCK_SIZE = 64 samples on 64-bit targets) recorded between two upkeeps, the clock passing a window-bucket
/// boundary in between.  `AtomicBucket::clear_with` hands the NEWEST block to `record_samples` first, so the rolling
/// summary sees decreasing timestamps — outside the property's quantifier ("non-decreasing sample timestamps"), but it
/// is what a busy histogram does.  Compared with the model (which follows the code: the older samples find no bucket and
/// are dropped from the quantiles although they are inside the window); `_count`/`_sum` must still cover everything.
fn run_multiblock_drain_case(out: &mut Out, first: usize, second: usize) {
    let d: u64 = 10_000_000_000;
    let (clock, mock) = Clock::mock();
    let rec = PrometheusBuilder::new()
        .set_quantiles(&[0.0, 0.5, 1.0])
        .unwrap()
        .set_bucket_duration(Duration::from_nanos(d))
        .unwrap()
        .set_bucket_count(NonZeroU32::new(3).unwrap())
        .build_recorder();
    let handle = rec.handle();
    let key = Key::from_name("win");
    out.op(&format!("c15 rnewcfg 3 {}", d), &format!("3 {}", d));
    let h = rec.register_histogram(&key, &META);
    quanta::with_clock(&clock, || (0..first).for_each(|_| h.record(1.0)));
    mock.increment(d + 1);
    quanta::with_clock(&clock, || (0..second).for_each(|_| h.record(2.0)));
    handle.run_upkeep();
    // drain order: blocks of 64 in recording order, handed over newest block first
    let all: Vec<(i64, u64)> = (0..first).map(|_| (1024i64, 0u64)).chain((0..second).map(|_| (2048i64, d + 1))).collect();
    let blocks: Vec<&[(i64, u64)]> = all.chunks(64).collect();
    for b in blocks.iter().rev() {
        out.op(&format!("c15 radd {}", list(b.iter().map(|(v, t)| format!("{}@{}", v, t)))), "ok");
    }
    let text = quanta::with_clock(&clock, || handle.render());
    let fams = expo::check_exposition(&text).unwrap_or_default();
    let Some(f) = fams.iter().find(|f| f.name == "win") else {
        out.oracle_fail("rendered summary is missing", &text);
        return;
    };
    let get = |name: &str, q: Option<&str>| -> Option<f64> {
        f.samples
            .iter()
            .find(|(sn, ls, _)| sn == name && ls.iter().find(|(k, _)| k == "quantile").map(|x| x.1.as_str()) == q)
            .and_then(|x| x.2.parse::<f64>().ok())
    };
    let count = get("win_count", None).unwrap_or(-1.0);
    let sum = get("win_sum", None).unwrap_or(f64::NAN);
    let q0 = get("win", Some("0")).unwrap_or(f64::NAN);
    let q50 = get("win", Some("0.5")).unwrap_or(f64::NAN);
    if count != (first + second) as f64 || sum != first as f64 + 2.0 * second as f64 {
        out.oracle_fail("rendered summary _count/_sum do not cover all samples", &format!("{} {} vs {} + {}", count, sum, first, second));
    }
    let tok = if ((q50 - 1.0) / 1.0).abs() <= SKETCH_ALPHA {
        "1024"
    } else if ((q50 - 2.0) / 2.0).abs() <= SKETCH_ALPHA {
        "2048"
    } else {
        out.oracle_fail("summary quantile is not within the sketch's relative error of any recorded sample", &format!("q0.5={}", q50));
        "undecodable"
    };
    out.op(&format!("c15 rquant {} 1 2", d + 1), tok);
    out.op(&format!("c15 rsnapq {}", d + 1), &format!("{} {} some", count as u64, fv_tok(sum, true)));
    if q0 != 1.0 {
        // all `first` samples of value 1.0 are d+1 ns old, the window is 3d: they are inside it, yet the minimum shown is 2.0
        out.count("W.observation: multi-block drain (decreasing timestamps) dropped in-window samples from the quantiles");
    } else {
        out.count("W.multi-block drain kept the older block");
    }
}

/// corpus: the four guards of the builder and `Histogram::new(&[])`.  None of the generated streams ever passes an empty
/// list (they `unwrap()`), so a dropped guard would go unnoticed there; what it protects is the first drain of a
/// matching histogram (`Distribution::new_histogram(&[])` panics under the `distributions` write lock).
fn run_builder_guards(out: &mut Out) {
    let ans = |ok: bool| if ok { "ok" } else { "err" };
    let r1 = PrometheusBuilder::new().set_buckets(&[]).is_ok();
    out.op("c15 guard buckets 0", ans(r1));
    let r2 = PrometheusBuilder::new().set_buckets(&[1.0]).is_ok();
    out.op("c15 guard buckets 1", ans(r2));
    for (k, m) in [Matcher::Full("a".into()), Matcher::Prefix("".into()), Matcher::Suffix("_x".into())].into_iter().enumerate() {
        let r = PrometheusBuilder::new().set_buckets_for_metric(m.clone(), &[]).is_ok();
        out.op("c15 guard metric 0", ans(r));
        let r = PrometheusBuilder::new().set_buckets_for_metric(m, &[0.5, 1.0]).is_ok();
        out.op("c15 guard metric 2", ans(r));
        let _ = k;
    }
    let r3 = PrometheusBuilder::new().set_quantiles(&[]).is_ok();
    out.op("c15 guard quantiles 0", ans(r3));
    let r4 = PrometheusBuilder::new().set_quantiles(&[0.5]).is_ok();
    out.op("c15 guard quantiles 1", ans(r4));
    let r5 = PrometheusBuilder::new().set_bucket_duration(Duration::from_nanos(0)).is_ok();
    out.op("c15 guard duration 0", ans(r5));
    let r6 = PrometheusBuilder::new().set_bucket_duration(Duration::from_nanos(1)).is_ok();
    out.op("c15 guard duration 1", ans(r6));
    if r1 || r3 || r5 {
        out.oracle_fail("builder accepted an empty bucket list", &format!("set_buckets(&[]) ok={} set_quantiles(&[]) ok={} set_bucket_duration(0) ok={}", r1, r3, r5));
    }
    // `Histogram::new(&[])` is `None`, and that is what the model says
    out.op("c15 hnew 0 .", if Histogram::new(&[]).is_some() { "ok" } else { "none" });
    // after a rejected call a fresh builder works as if nothing had happened: an accepted empty list would panic here
    let rec = PrometheusBuilder::new().set_buckets_for_metric(Matcher::Full("g".into()), &[1.0]).unwrap().build_recorder();
    rec.register_histogram(&Key::from_name("g"), &META).record(0.5);
    let text = rec.handle().render();
    if !text.contains("g_bucket{le=\"1\"} 1") {
        out.oracle_fail("histogram bucket count is not the number of samples <= bound", &text);
    }
    out.count("G.builder guards");
}

/// corpus, observations (no oracle: each is reported in the counters, see REPORT): inputs the property's quantifier names
/// but whose outcome on the real code is a finding rather than a law.
fn run_observations(out: &mut Out) {
    // (a) a bound list that contains +Inf, rendered: `render` prints every bound and then its own `le="+Inf"` line
    let rec = PrometheusBuilder::new().set_buckets(&[1.0, f64::INFINITY]).unwrap().build_recorder();
    let h = rec.register_histogram(&Key::from_name("infb"), &META);
    h.record(0.5);
    h.record(f64::NAN);
    let text = rec.handle().render();
    let inf_lines: Vec<&str> = text.lines().filter(|l| l.starts_with("infb_bucket") && (l.contains("le=\"+Inf\"") || l.contains("le=\"inf\""))).collect();
    let all_bucket_lines: Vec<&str> = text.lines().filter(|l| l.starts_with("infb_bucket")).collect();
    out.count(&format!(
        "O.observation: bounds [1, +Inf], samples 0.5 and NaN: bucket lines {:?} ({} of them say +Inf; exposition check: {})",
        all_bucket_lines,
        inf_lines.len(),
        match expo::check_exposition(&text) {
            Ok(_) => "well-formed".to_string(),
            Err(e) => format!("REJECTED: {}", e),
        }
    ));
    // (b) a window that holds only NaN samples
    let (clock, _mock) = Clock::mock();
    let mut dist = Distribution::new_summary(Arc::new(parse_quantiles(&[0.0, 0.5, 1.0])), Duration::from_nanos(10), NonZeroU32::new(2).unwrap());
    dist.record_samples(&[(f64::NAN, clock.now())]);
    if let Distribution::Summary(s, _, _) = &dist {
        let snap = s.snapshot(clock.now());
        out.count(&format!(
            "O.observation: NaN-only window: count {} quantile(0)={:?} quantile(0.5)={:?} quantile(1)={:?}",
            snap.count(),
            snap.quantile(0.0),
            snap.quantile(0.5),
            snap.quantile(1.0)
        ));
    }
    // (c) the largest bucket count the builder accepts (`NonZeroU32::MAX`): in a child process, since an allocation failure
    // aborts.  `RollingSummary::new` reserves `Vec::with_capacity(count)` when the first sample of a summary is drained.
    for (name, count) in [("u32::MAX", u32::MAX), ("10^7", 10_000_000u32), ("10^4", 10_000u32)] {
        let exe = match std::env::current_exe() {
            Ok(e) => e,
            Err(_) => return,
        };
        let dir = out.dir.join(format!("probe-{}", count));
        let t0 = std::time::Instant::now();
        let res = std::process::Command::new(exe)
            .args(["C15", "--seed", "1", "--cases", "0", "--out"])
            .arg(&dir)
            .env("MV_C15_PROBE_BUCKET_COUNT", count.to_string())
            .stdout(std::process::Stdio::piped())
            .stderr(std::process::Stdio::piped())
            .output();
        let outcome = match res {
            Ok(o) => {
                let so = String::from_utf8_lossy(&o.stdout).to_string();
                let se = String::from_utf8_lossy(&o.stderr).to_string();
                if o.status.success() && so.contains("probe-ok") {
                    format!("renders ({})", so.trim())
                } else {
                    format!("PROCESS DIED: status {:?}, stderr {:?}", o.status.code(), se.lines().next().unwrap_or(""))
                }
            }
            Err(e) => format!("probe not run: {}", e),
        };
        let _ = t0;
        out.count(&format!("O.observation: set_bucket_count({}) then one sample and a render: {}", name, outcome));
        // "all bucket counts" is in the property's quantifier: every count the builder accepts must give a summary that
        // renders its one sample (repaired defect: `Vec::with_capacity(count)` aborted the process for the largest counts)
        if outcome.starts_with("PROCESS DIED") {
            out.case(&format!("bucket-count probe {}", name));
            out.oracle_fail(
                "a summary configured with a bucket count the builder accepts kills the process at its first drain",
                &format!("PrometheusBuilder::new().set_bucket_count({}).build_recorder(); one histogram sample; render() :: {}", name, outcome),
            );
        }
    }
}

/// child side of observation (c)
fn bucket_count_probe(count: u32) {
    let rec = PrometheusBuilder::new().set_bucket_count(NonZeroU32::new(count).unwrap()).build_recorder();
    rec.register_histogram(&Key::from_name("big"), &META).record(1.0);
    let text = rec.handle().render();
    println!("probe-ok big_count line present: {}", text.contains("big_count 1"));
}


// ---------------------------------------------------------------------------------------------
// stream C: the configured quantiles (`metrics_util::{Quantile, parse_quantiles}`, `PrometheusBuilder::set_quantiles`)
// and the quantile lines a rendered summary shows for them

/// the oracle's own reading of "All values are clamped between 0.0 and 1.0" (independent of the model): a configured
/// value that is no number, or below 0, is the minimum; above 1 the maximum
fn own_clamp(q: f64) -> f64 {
    if q.is_nan() || q < 0.0 {
        0.0
    } else if q > 1.0 {
        1.0
    } else {
        q
    }
}

/// quantile values the model can name (units of 1/1024) besides NaN and the infinities
fn quantile_pool() -> Vec<f64> {
    let mut v = vec![
        f64::NAN,
        -f64::NAN,
        f64::INFINITY,
        f64::NEG_INFINITY,
        -1.0,
        -0.25,
        dy(-1),
        0.0,
        1.0,
        dy(1025),
        1.25,
        1.5,
        2.0,
        1000.0,
        -1000.0,
        0.5,
        0.25,
        0.75,
        0.125,
        0.875,
        dy(1),
        dy(1023),
    ];
    for k in [3i64, 17, 100, 333, 511, 513, 900, 1000, 1021] {
        v.push(dy(k));
    }
    v
}

fn label_class(l: &str) -> &'static str {
    if l == "min" {
        "min"
    } else if l == "max" {
        "max"
    } else if l.starts_with('p') {
        "p"
    } else {
        "other"
    }
}

/// corpus: `Quantile::new` / `parse_quantiles` called directly on every special value
fn run_quantile_new_corpus(out: &mut Out) {
    for q in quantile_pool() {
        let x = metrics_util::Quantile::new(q);
        out.op(&format!("c15 qnew {}", fv_tok(q, true)), &format!("{} {}", fv_tok(x.value(), true), label_class(x.label())));
        let v = x.value();
        if !(v >= 0.0 && v <= 1.0) || v.to_bits() != own_clamp(q).to_bits() {
            out.oracle_fail(
                "a configured quantile is not clamped into [0,1]",
                &format!("Quantile::new({:?}).value() = {:?} (label {:?})", q, v, x.label()),
            );
        }
        if (x.label() == "min") != (v == 0.0) || (x.label() == "max") != (v == 1.0) {
            out.oracle_fail("a configured quantile is not clamped into [0,1]", &format!("Quantile::new({:?}) has value {:?} but label {:?}", q, v, x.label()));
        }
    }
    // values the model cannot name (not a multiple of 1/1024): oracle only
    for q in [0.999, 0.99, 0.9, 0.95, 1e-300, f64::MIN_POSITIVE, 5e-324, 1.0 - f64::EPSILON / 2.0, 1.0 + f64::EPSILON, -5e-324, 1e300, -1e300, f64::MAX, f64::MIN] {
        let x = metrics_util::Quantile::new(q);
        if x.value().to_bits() != own_clamp(q).to_bits() {
            out.oracle_fail("a configured quantile is not clamped into [0,1]", &format!("Quantile::new({:?}).value() = {:?}", q, x.value()));
        }
    }
    let all = quantile_pool();
    let parsed = parse_quantiles(&all);
    if parsed.len() != all.len() || parsed.iter().zip(all.iter()).any(|(p, q)| *p != metrics_util::Quantile::new(*q)) {
        out.oracle_fail("a configured quantile is not clamped into [0,1]", "parse_quantiles is not Quantile::new element by element");
    }
    out.op(&format!("c15 qcfg {}", list(all.iter().map(|q| fv_tok(*q, true)))), &format!("ok {}", parsed.len()));
    out.op("c15 qcfg .", if PrometheusBuilder::new().set_quantiles(&[]).is_ok() { "ok 0" } else { "err" });
    // observation: the sign of zero (`f64::max(-0.0, 0.0)` may return either; "-0" would get the label `p-0`)
    let nz = metrics_util::Quantile::new(-0.0);
    out.count(&format!("C.observation: Quantile::new(-0.0) = value {:?} label {:?}", nz.value(), nz.label()));
    out.count("C.corpus Quantile::new on special values");
}

/// one session: a recorder whose quantiles are configured with arbitrary f64s, a summary under a mock clock; `forced`
/// puts the given values at the front of the configured list
fn run_configured_quantiles_session(r: &mut Rng, out: &mut Out, forced: &[f64]) {
    let pool = quantile_pool();
    let mut cfg: Vec<f64> = forced.to_vec();
    let extra = r.range(if forced.is_empty() { 1 } else { 0 }, 6);
    for _ in 0..extra {
        // half of the picks from the out-of-range / non-number part of the pool
        cfg.push(if r.chance(1, 2) { pool[r.below(15)] } else { *r.pick(&pool) });
    }
    let n = *r.pick(&[1u32, 2, 3, 5, 8]);
    let d = *r.pick(&[7u64, 1000, 100_000_000, 300_000_000, 1_000_000_000, 20_000_000_000]);
    let w = n as u64 * d;
    let (clock, mock) = Clock::mock();
    let start = *r.pick(&[0, d, 10 * w + 17]);
    mock.increment(start);
    let mut t: u64 = start;
    let b = PrometheusBuilder::new().set_quantiles(&cfg);
    let Ok(b) = b else {
        out.oracle_fail("set_quantiles refused a non-empty list", &format!("{:?}", cfg));
        return;
    };
    let rec = b.set_bucket_count(NonZeroU32::new(n).unwrap()).set_bucket_duration(Duration::from_nanos(d)).unwrap().build_recorder();
    let handle = rec.handle();
    let key = Key::from_name("cq");
    out.op(&format!("c15 rnewcfg {} {}", n, d), &format!("{} {}", n, d));
    out.op(&format!("c15 qcfg {}", list(cfg.iter().map(|q| fv_tok(*q, true)))), &format!("ok {}", cfg.len()));
    for q in &cfg {
        out.count(&format!(
            "C.configured quantile {}",
            if q.is_nan() { "NaN" } else if q.is_infinite() { "infinite" } else if *q < 0.0 { "below 0" } else if *q > 1.0 { "above 1" } else if *q == 0.0 || *q == 1.0 { "0 or 1" } else { "inside (0,1)" }
        ));
    }
    let table = value_table();
    let mut added: Vec<(f64, u64)> = vec![];
    let steps = [0, 1, d / 2, d, d + 1, 2 * d, 3 * d, w - 1, w, w + 1, 3 * w, (w - d).saturating_sub(1), w - d / 2 - 1];
    let nev = r.range(2, 14);
    let near = |x: f64, y: f64| ((x - y) / y).abs() <= SKETCH_ALPHA;
    for i in 0..=nev {
        // biased towards small steps so that most renders see a window with several samples
        let step = if r.chance(3, 5) { *r.pick(&[0, 1, d / 2, d, d + 1]) } else { *r.pick(&steps) };
        mock.increment(step);
        t += step;
        if i < nev && !r.chance(1, 3) {
            let v = dy(*r.pick(&table));
            quanta::with_clock(&clock, || rec.register_histogram(&key, &META).record(v));
            handle.run_upkeep();
            out.op(&format!("c15 radd {}@{}", fv_tok(v, true), t), "ok");
            added.push((v, t));
            continue;
        }
        let text = quanta::with_clock(&clock, || handle.render());
        // line by line (a list that clamps two values to the same quantile repeats a series, which the strict reader refuses)
        let mut lines: Vec<(String, f64)> = vec![];
        let mut ty = String::new();
        let (mut count, mut sum) = (-1.0f64, f64::NAN);
        for line in text.lines() {
            match expo::parse_line(line) {
                Ok(expo::PLine::Type { name, ty: t2 }) if name == "cq" => ty = t2,
                Ok(expo::PLine::Sample { name, labels, value }) => {
                    let x: f64 = value.parse().unwrap_or(f64::NAN);
                    if name == "cq" {
                        let l = labels.iter().find(|(k, _)| k == "quantile").map(|x| x.1.clone()).unwrap_or_default();
                        lines.push((l, x));
                    } else if name == "cq_count" {
                        count = x;
                    } else if name == "cq_sum" {
                        sum = x;
                    }
                }
                _ => {}
            }
        }
        if added.is_empty() {
            // nothing recorded yet: the family is not rendered at all
            continue;
        }
        let upper: Vec<f64> = added.iter().filter(|(_, ts)| ts + w > t).map(|x| x.0).collect();
        let lower: Vec<f64> = added.iter().filter(|(_, ts)| ts + w > t + d).map(|x| x.0).collect();
        out.count(&format!("C.render window={}", if upper.is_empty() { "empty" } else if upper.len() < added.len() { "partial" } else { "all" }));
        let exact_sum: i64 = added.iter().map(|(v, _)| (v * 1024.0) as i64).sum();
        if count != added.len() as f64 || sum != dy(exact_sum) || ty != "summary" {
            out.oracle_fail("rendered summary _count/_sum do not cover all samples", &format!("type {:?} {} {} vs {:?}", ty, count, sum, added));
        }
        // ---- independent oracle: one line per configured quantile, in order, labelled with a number in [0,1] (the clamped
        // configured value), showing a value between the smallest and the largest sample of the window (0 iff it is empty)
        let describe = || format!("set_quantiles({:?}), {} buckets of {} ns; now={} adds={:?}; rendered quantile lines {:?}", cfg, n, d, t, added, lines);
        if lines.len() != cfg.len() {
            out.oracle_fail("rendered summary does not show the configured quantiles", &describe());
        }
        for (k, (l, x)) in lines.iter().enumerate() {
            let lf: f64 = l.parse().unwrap_or(f64::NAN);
            if !(lf >= 0.0 && lf <= 1.0) || l.to_ascii_lowercase().contains("nan") {
                out.oracle_fail("a configured quantile is exposed with a label outside [0,1]", &format!("line {} has quantile={:?} :: {}", k, l, describe()));
            } else if k < cfg.len() && lf != own_clamp(cfg[k]) {
                out.oracle_fail("rendered summary does not show the configured quantiles", &format!("line {} has quantile={:?}, configured {:?} :: {}", k, l, cfg[k], describe()));
            }
            let fmin = |v: &Vec<f64>| v.iter().cloned().fold(f64::INFINITY, f64::min);
            let fmax = |v: &Vec<f64>| v.iter().cloned().fold(f64::NEG_INFINITY, f64::max);
            let inside = |x: f64| x >= fmin(&upper) * (1.0 - SKETCH_ALPHA) && x <= fmax(&upper) * (1.0 + SKETCH_ALPHA);
            let ok = if upper.is_empty() {
                *x == 0.0
            } else if lower.is_empty() {
                // the bucket holding the only candidates may or may not have been dropped yet
                *x == 0.0 || inside(*x)
            } else {
                inside(*x)
            };
            if !ok {
                out.oracle_fail(
                    "rendered quantiles are not those of the samples inside the rolling window (0 when empty)",
                    &format!("line {} quantile={:?} shows {} :: {}", k, l, x, describe()),
                );
            }
        }
        if cfg.iter().any(|q| !(*q >= 0.0 && *q <= 1.0)) && !lower.is_empty() {
            out.nontrivial();
        }
        // ---- the model's answer, line by line
        let toks: Vec<String> = lines
            .iter()
            .map(|(l, x)| {
                let lf: f64 = l.parse().unwrap_or(f64::NAN);
                let shown = if *x == 0.0 {
                    "none".to_string()
                } else if let (true, Some(nv)) = (lf == 0.0 || lf == 1.0, table.iter().find(|nv| dy(**nv) == *x)) {
                    format!("x{}", nv)
                } else {
                    match table.iter().find(|nv| near(*x, dy(**nv))) {
                        Some(nv) => nv.to_string(),
                        None => "undecodable".to_string(),
                    }
                };
                format!("{}:{}", fv_tok(lf, true), shown)
            })
            .collect();
        out.op(&format!("c15 rrender {}", t), &list(toks));
        let retained_nonempty = lines.iter().any(|(_, x)| *x != 0.0);
        out.op(&format!("c15 rsnapq {}", t), &format!("{} {} {}", count as u64, fv_tok(sum, true), if retained_nonempty { "some" } else { "zero" }));
    }
}

/// corpus: the alignment of a new bucket, for bucket durations whose length in seconds is no binary fraction: a first
/// sample at t0, the next one exactly k durations later (no bucket in between), then a snapshot in the last half
/// duration of that sample's life in the window and one just after it
fn align_corpus() -> Vec<RollCase> {
    use REv::*;
    let table = value_table();
    let mut v = vec![];
    for d in [100_000_000u64, 10_000_000, 1_000_000, 300_000_000, 1000, 10, 7, 3, 700_000_000, 1_100_000_000] {
        for k in 1u64..=24 {
            let n = (k + 1) as u32;
            let w = n as u64 * d;
            v.push(RollCase {
                n,
                d,
                start: if k % 2 == 0 { 0 } else { 5 * w + 3 },
                decodable: true,
                scale_exp: 0,
                events: vec![
                    (0, Add(dy(table[3]))),
                    (k * d, Add(dy(table[20]))),
                    (0, Snap),
                    (w - d + d / 2, Snap),
                    (d - d / 2 - 1, Snap),
                    (1, Snap),
                ],
            });
        }
    }
    v
}

// ---------------------------------------------------------------------------------------------

pub fn run(cfg: &Cfg, out: &mut Out) {
    if let Ok(v) = std::env::var("MV_C15_PROBE_BUCKET_COUNT") {
        bucket_count_probe(v.parse().expect("probe count"));
        std::process::exit(0);
    }
    let root = Rng::new(cfg.seed);
    // corpus first
    for (i, c) in hist_corpus().iter().enumerate() {
        out.case(&format!("corpus hist {}", i));
        let mut r = root.fork(1_000_000 + i as u64);
        run_hist_case(&mut r, out, c);
    }
    out.case("corpus sum rounding observation");
    run_sum_rounding_observation(out);
    for (i, c) in roll_corpus().iter().enumerate() {
        out.case(&format!("corpus roll {}", i));
        run_roll_case(out, c);
    }
    for (i, c) in dist_corpus().iter().enumerate() {
        out.case(&format!("corpus dist {}", i));
        run_dist_case(out, c);
    }
    for (i, c) in expo_corpus().iter().enumerate() {
        out.case(&format!("corpus exposure {}", i));
        run_expo_case(out, c);
    }
    for (i, c) in align_corpus().iter().enumerate() {
        out.case(&format!("corpus bucket alignment {}", i));
        run_roll_case(out, c);
    }
    out.case("corpus Quantile::new");
    run_quantile_new_corpus(out);
    for (i, forced) in [vec![f64::NAN], vec![0.5, f64::NAN, 1.0], vec![-1.0, 2.0, f64::INFINITY, f64::NEG_INFINITY, -f64::NAN], vec![0.0, 0.0, 1.0]].iter().enumerate() {
        for j in 0..3u64 {
            out.case(&format!("corpus configured quantiles {} {}", i, j));
            let mut r = root.fork(2_000_000 + 10 * i as u64 + j);
            run_configured_quantiles_session(&mut r, out, forced);
        }
    }
    out.case("corpus builder guards");
    run_builder_guards(out);
    out.case("corpus observations");
    run_observations(out);
    out.case("corpus render inf,-1");
    run_render_inf_case(out, f64::INFINITY, -1.0);
    out.case("corpus render -inf,0");
    run_render_inf_case(out, f64::NEG_INFINITY, 0.0);
    out.case("corpus multi-block drain 64+24");
    run_multiblock_drain_case(out, 64, 24);
    out.case("corpus multi-block drain 300+300");
    run_multiblock_drain_case(out, 300, 300);
    out.case("corpus single-block drain 30+30");
    run_multiblock_drain_case(out, 30, 30);
    for i in 0..cfg.cases {
        let mut r = root.fork(i as u64);
        match i % 8 {
            1 if (i / 8) % 2 == 1 => {
                out.case(&format!("seed={} i={} exposure", cfg.seed, i));
                let c = gen_expo_case(&mut r);
                run_expo_case(out, &c);
            }
            0 | 1 => {
                out.case(&format!("seed={} i={} hist exact", cfg.seed, i));
                let c = gen_hist_case(&mut r, true);
                run_hist_case(&mut r, out, &c);
            }
            2 => {
                out.case(&format!("seed={} i={} hist order-only", cfg.seed, i));
                let c = gen_hist_case(&mut r, false);
                run_hist_case(&mut r, out, &c);
            }
            3 => {
                out.case(&format!("seed={} i={} roll decodable", cfg.seed, i));
                let c = gen_roll_case(&mut r, true);
                run_roll_case(out, &c);
            }
            4 if (i / 8) % 2 == 0 => {
                out.case(&format!("seed={} i={} roll mixed", cfg.seed, i));
                let c = gen_roll_case(&mut r, false);
                run_roll_case(out, &c);
            }
            4 => {
                out.case(&format!("seed={} i={} roll quantiles", cfg.seed, i));
                run_quantile_case(&mut r, out);
            }
            5 => {
                out.case(&format!("seed={} i={} dist", cfg.seed, i));
                let c = gen_dist_case(&mut r);
                run_dist_case(out, &c);
            }
            6 if (i / 8) % 2 == 1 => {
                out.case(&format!("seed={} i={} configured quantiles", cfg.seed, i));
                run_configured_quantiles_session(&mut r, out, &[]);
            }
            6 => {
                out.case(&format!("seed={} i={} window session", cfg.seed, i));
                run_window_session(&mut r, out);
            }
            _ => {
                out.case(&format!("seed={} i={} recorder session", cfg.seed, i));
                prom::session(&mut r, out, Flavour::Buckets);
            }
        }
    }
}
