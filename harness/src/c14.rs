//! C14 — a copy-on-write string / label slice reads back what it was built from, every owned allocation is
//! released exactly once, every `Arc` reference is given back exactly once (metrics/src/cow.rs).
//!
//! Three streams over one generic engine (`Case<D>`), all speaking the `cow` line protocol of
//! `lean/MetricsVerif/Driver/Cow.lean`:
//!   A "str"    — `metrics::SharedString` (= `Cow<'static, str>`), arcs are `Arc<str>`;
//!   B "labels" — `Cow<'static, [Label]>` as reachable through `metrics::Key`;
//!   C "slice"  — `metrics::verif_cow::Cow<'static, [D]>` directly (hook), `D` counts its destructor calls.
//!
//! The live-allocation count `n=` of every answer comes from the tracking allocator (`alloc.rs`): only code
//! inside `alloc::track(|| ..)` counts, and those closures contain exactly the call into the code under test
//! (or the construction of the `String`/`Vec`/`Arc` that is handed to it, which the model counts too).
//!
//! `cow intostd` is never emitted: `impl<'a, T: Cowable> From<Cow<'a, T>> for std::borrow::Cow<'a, T>` has an
//! implicit `T: Sized` bound, and `Cowable` is only implemented for `str` and `[T]`, so the impl is
//! uncallable.  The other direction (`From<std::borrow::Cow<str>>`) is exercised as `borrowed` / `owned`.
use crate::alloc;
use crate::util::*;
use metrics::verif_cow::Cow as MCow;
use metrics::{Key, Label, SharedString};
use std::borrow::Borrow;
use std::collections::hash_map::DefaultHasher;
use std::hash::{Hash, Hasher};
use std::panic::{catch_unwind, AssertUnwindSafe};
use std::sync::atomic::{AtomicIsize, AtomicUsize, Ordering};
use std::sync::Arc;

const FAULT: &str = "allocator fault: double free / free of unknown pointer / bad layout";

// ---------------------------------------------------------------------------------------------
// the generic engine

/// what the harness believes a value is (statistics and the non-triviality rule only)
#[derive(Clone, Copy, PartialEq, Eq)]
enum K {
    /// borrowed, or an owned value of capacity 0 (indistinguishable by construction)
    B,
    /// owned with a real buffer
    Ow,
    Sh,
    /// the plain `String` / `Vec` that `into_owned` returned
    Plain,
}
impl K {
    fn name(self) -> &'static str {
        match self {
            K::B => "borrowed",
            K::Ow => "owned",
            K::Sh => "shared",
            K::Plain => "plain",
        }
    }
}

trait Dom: Sized + 'static {
    /// the copy-on-write value (`Clone`: `clone_from` is also reached through `Option<C>` / `Vec<C>`)
    type C: Send + Clone + 'static;
    /// what `into_owned` returns
    type O: Send + 'static;
    type A: 'static;
    const NAME: &'static str;
    const HAS_EQ: bool;
    /// size in bytes of one element of the owned value (`u8` for strings)
    const ELEM: usize;
    /// the element type's `Clone` can be made to panic (stream C only): arm it so that the `k`-th element clone
    /// from now on panics / disarm it (returns whether it was still armed, i.e. did not fire)
    fn arm_panic(_k: usize) {}
    fn disarm_panic() -> bool {
        true
    }
    /// number of element objects alive right now (stream C only: `D` counts constructions and destructions)
    fn live_elems() -> Option<isize> {
        None
    }
    /// `Ord::max` / `Ord::min` (provided methods, by value): `which` 0 = max, 1 = min
    fn c_minmax(_a: Self::C, _b: Self::C, _which: usize) -> Self::C {
        unreachable!()
    }
    fn c_bytes(c: &Self::C) -> Vec<u8>;
    fn o_bytes(o: &Self::O) -> Vec<u8>;
    fn c_ptr(c: &Self::C) -> usize;
    fn o_ptr(o: &Self::O) -> usize;
    fn c_clone(c: &Self::C) -> Self::C;
    fn o_clone(o: &Self::O) -> Self::O;
    fn into_owned(c: Self::C) -> Self::O;
    fn o_cap(o: &Self::O) -> usize;
    fn eq(a: &V<Self>, b: &V<Self>) -> bool;
    fn a_new(bytes: &[u8]) -> Self::A;
    fn a_bytes(a: &Self::A) -> Vec<u8>;
    fn a_strong(a: &Self::A) -> usize;
    fn a_share(a: &Self::A, route: usize) -> Self::C;
    /// `Hash` / `Ord` / `Borrow` / `Display` agree with the expected content; `Some(detail)` on failure
    fn extra_oracle(_a: &V<Self>, _ea: &[u8], _b: &V<Self>, _eb: &[u8]) -> Option<String> {
        None
    }
}

enum V<D: Dom> {
    C(D::C),
    O(D::O),
}

fn bytes_of<D: Dom>(v: &V<D>) -> Vec<u8> {
    match v {
        V::C(c) => D::c_bytes(c),
        V::O(o) => D::o_bytes(o),
    }
}
fn ptr_of<D: Dom>(v: &V<D>) -> usize {
    match v {
        V::C(c) => D::c_ptr(c),
        V::O(o) => D::o_ptr(o),
    }
}

struct Case<'o, D: Dom> {
    out: &'o mut Out,
    /// indexed by model handle
    vals: Vec<Option<V<D>>>,
    /// the harness's own record of what each live value was built from
    exp: Vec<Option<Vec<u8>>>,
    kinds: Vec<K>,
    cloned: Vec<bool>,
    /// which of the harness's arcs a Shared value points to (the harness's own bookkeeping, for the count oracle)
    arc_of: Vec<Option<usize>>,
    arcs: Vec<Option<D::A>>,
    arc_built: Vec<Vec<u8>>,
    counting: bool,
    /// an allocator fault or a failed thread stopped the case: nothing further is emitted
    dead: bool,
    /// handles (arcs: 1000 + index) whose content mismatch has been reported already
    reported: Vec<usize>,
    orng: Rng,
    /// element objects alive when the case started (stream C)
    elem_base: Option<isize>,
}

impl<'o, D: Dom> Drop for Case<'o, D> {
    fn drop(&mut self) {
        // normally empty here; after a fault or a panic the remaining values are not trusted
        self.abandon();
    }
}

impl<'o, D: Dom> Case<'o, D> {
    fn new(out: &'o mut Out, orng: Rng) -> Self {
        Case {
            out,
            vals: vec![],
            exp: vec![],
            kinds: vec![],
            cloned: vec![],
            arc_of: vec![],
            arcs: vec![],
            arc_built: vec![],
            counting: true,
            dead: false,
            reported: vec![],
            orng,
            elem_base: D::live_elems(),
        }
    }

    fn abandon(&mut self) {
        for v in self.vals.drain(..) {
            std::mem::forget(v);
        }
        for a in self.arcs.drain(..) {
            std::mem::forget(a);
        }
        self.exp.clear();
    }

    fn suffix(&self) -> String {
        let n = if self.counting { alloc::live().to_string() } else { "*".to_string() };
        let s = list(self.arcs.iter().map(|a| match a {
            Some(a) => D::a_strong(a).to_string(),
            None => "~".to_string(),
        }));
        format!(" n={} s={}", n, s)
    }

    fn emit(&mut self, op: String, ans: String) {
        let full = format!("{}{}", ans, self.suffix());
        self.out.op(&op, &full);
        self.after_op();
    }

    fn check_faults(&mut self) -> bool {
        if alloc::has_faults() {
            for f in alloc::take_faults() {
                self.out.oracle_fail(FAULT, &f);
            }
            self.dead = true;
            self.abandon();
            return true;
        }
        false
    }

    /// the independent oracles that run after every op
    fn after_op(&mut self) {
        if self.check_faults() {
            return;
        }
        // every Arc reference taken is given back exactly once, at every step: the strong count of an Arc the
        // harness still holds is its own reference plus one per live Shared value made from it
        for (a, arc) in self.arcs.iter().enumerate() {
            if let Some(arc) = arc {
                let holders =
                    (0..self.vals.len()).filter(|h| self.vals[*h].is_some() && self.arc_of[*h] == Some(a)).count();
                let sc = D::a_strong(arc);
                if sc != 1 + holders && !self.reported.contains(&(2000 + a)) {
                    self.reported.push(2000 + a);
                    let d = format!(
                        "a{}: strong count {} with {} live value(s) made from it plus the caller's own reference (expected {}): {}",
                        a,
                        sc,
                        holders,
                        1 + holders,
                        if sc > 1 + holders { "a reference was not given back" } else { "a reference was given back twice" }
                    );
                    self.out.oracle_fail("Arc reference not given back", &d);
                    // a wrong count means the block is (or will be) freed under a live holder, or never: nothing
                    // made from it can be used or dropped safely any more
                    self.dead = true;
                    self.abandon();
                    return;
                }
            }
        }
        // every element is destroyed exactly once, at every step: the element objects alive are exactly those of the
        // live values that own a buffer (Owned, or the plain Vec that `into_owned` returned) plus those of every
        // Arc block that the harness or a live Shared value still holds
        if let (Some(base), Some(now)) = (self.elem_base, D::live_elems()) {
            let mut want = base;
            for h in 0..self.vals.len() {
                if self.vals[h].is_some() && matches!(self.kinds[h], K::Ow | K::Plain) {
                    want += self.exp[h].as_ref().map_or(0, |e| e.len()) as isize;
                }
            }
            for a in 0..self.arcs.len() {
                let held = self.arcs[a].is_some()
                    || (0..self.vals.len()).any(|h| self.vals[h].is_some() && self.arc_of[h] == Some(a));
                if held {
                    want += self.arc_built[a].len() as isize;
                }
            }
            if now != want && !self.reported.contains(&3000) {
                self.reported.push(3000);
                let d = format!(
                    "{} element object(s) alive, the live values and Arc blocks account for {}: {} element(s) {}",
                    now - base,
                    want - base,
                    (now - want).abs(),
                    if now > want { "were never destroyed (leaked)" } else { "were destroyed although a live value still owns them (they will be destroyed twice)" }
                );
                self.out.oracle_fail("element destructor count", &d);
            }
        }
        // a value whose bytes differ from the record is reported once; Hash/Ord/Display are only consulted
        // while every value reads correctly (they would walk bytes that may no longer be UTF-8)
        let mut all_ok = true;
        for h in 0..self.vals.len() {
            if let (Some(v), Some(e)) = (&self.vals[h], &self.exp[h]) {
                let got = bytes_of(v);
                if &got != e {
                    all_ok = false;
                    if !self.reported.contains(&h) {
                        self.reported.push(h);
                        let d = format!("h{} reads {} but was built from {}", h, hex(&got), hex(e));
                        self.out.oracle_fail("content changed", &d);
                    }
                }
            }
        }
        for (a, arc) in self.arcs.iter().enumerate() {
            if let Some(arc) = arc {
                let got = D::a_bytes(arc);
                if got != self.arc_built[a] {
                    all_ok = false;
                    if !self.reported.contains(&(1000 + a)) {
                        self.reported.push(1000 + a);
                        let d = format!("a{} reads {} but was built from {}", a, hex(&got), hex(&self.arc_built[a]));
                        self.out.oracle_fail("content changed", &d);
                    }
                }
            }
        }
        let live = self.live();
        if !live.is_empty() {
            let h1 = live[self.orng.below(live.len())];
            let h2 = live[self.orng.below(live.len())];
            if let (true, Some(a), Some(b)) = (all_ok, &self.vals[h1], &self.vals[h2]) {
                let ea = self.exp[h1].as_ref().unwrap();
                let eb = self.exp[h2].as_ref().unwrap();
                if let Some(d) = D::extra_oracle(a, ea, b, eb) {
                    self.out.oracle_fail("Hash/Ord/Borrow/Display disagree with the content", &format!("h{} h{}: {}", h1, h2, d));
                }
            }
        }
    }

    fn live(&self) -> Vec<usize> {
        (0..self.vals.len()).filter(|h| self.vals[*h].is_some()).collect()
    }
    fn held_arcs(&self) -> Vec<usize> {
        (0..self.arcs.len()).filter(|a| self.arcs[*a].is_some()).collect()
    }

    /// pick a live handle, favouring owned-with-buffer and shared values; `cow_only` excludes plain values
    fn pick(&self, r: &mut Rng, cow_only: bool) -> Option<usize> {
        let live: Vec<usize> =
            self.live().into_iter().filter(|h| !cow_only || self.kinds[*h] != K::Plain).collect();
        if live.is_empty() {
            return None;
        }
        let fav: Vec<usize> =
            live.iter().copied().filter(|h| matches!(self.kinds[*h], K::Ow | K::Sh)).collect();
        if !fav.is_empty() && r.chance(2, 3) {
            Some(fav[r.below(fav.len())])
        } else {
            Some(live[r.below(live.len())])
        }
    }

    // ---- ops --------------------------------------------------------------------------------

    fn count_off(&mut self) {
        self.counting = false;
        self.out.op("cow count off", "ok");
    }

    fn arc(&mut self, bytes: &[u8]) -> usize {
        if self.dead {
            return 0;
        }
        let a = alloc::track(|| D::a_new(bytes));
        let k = self.arcs.len();
        self.arcs.push(Some(a));
        self.arc_built.push(bytes.to_vec());
        self.out.count("op:arc");
        self.emit(format!("cow arc {}", hex(bytes)), format!("a{}", k));
        k
    }

    fn droparc(&mut self, a: usize) {
        if self.dead {
            return;
        }
        let arc = self.arcs[a].take().expect("held arc");
        alloc::track(move || drop(arc));
        self.out.count("op:droparc");
        self.emit(format!("cow droparc {}", a), "ok".to_string());
    }

    /// bind a freshly made value to the next handle; `op` is the model op that made it
    fn push(&mut self, op: String, v: V<D>, built: Vec<u8>, kind: K) -> usize {
        let k = self.vals.len();
        let ans = format!("h{} {}", k, hex(&bytes_of(&v)));
        self.vals.push(Some(v));
        self.exp.push(Some(built));
        self.kinds.push(kind);
        self.cloned.push(false);
        if self.arc_of.len() <= k {
            self.arc_of.push(None);
        }
        self.emit(op, ans);
        k
    }

    fn shared(&mut self, a: usize, route: usize) -> usize {
        if self.dead {
            return 0;
        }
        let c = {
            let arc = self.arcs[a].as_ref().expect("held arc");
            alloc::track(|| D::a_share(arc, route))
        };
        self.out.count("op:shared");
        let built = self.arc_built[a].clone();
        // recorded before the op is emitted: the oracles of `emit` already count this holder
        self.arc_of.push(Some(a));
        self.push(format!("cow shared {}", a), V::C(c), built, K::Sh)
    }

    fn clone(&mut self, h: usize) -> usize {
        self.clone_with(h, |v| match v {
            V::C(c) => V::C(D::c_clone(c)),
            V::O(o) => V::O(D::o_clone(o)),
        })
    }

    fn clone_with(&mut self, h: usize, f: impl FnOnce(&V<D>) -> V<D>) -> usize {
        if self.dead {
            return 0;
        }
        let new = {
            let src = self.vals[h].as_ref().expect("live handle");
            alloc::track(|| f(src))
        };
        self.bind_clone(h, new, format!("cow clone {}", h))
    }

    /// bind the result of a clone of `h` to the next handle; `opline` is the model op that made it
    fn bind_clone(&mut self, h: usize, new: V<D>, opline: String) -> usize {
        let (p, len) = {
            let src = self.vals[h].as_ref().expect("live handle");
            (ptr_of(&new) == ptr_of(src), bytes_of(src).len())
        };
        let sk = self.kinds[h];
        self.out.count("op:clone");
        self.out.count(&format!("clone of:{}", sk.name()));
        if matches!(sk, K::Ow | K::Sh) {
            self.cloned[h] = true;
        }
        let nk = match sk {
            K::Ow | K::Plain if len == 0 => K::B,
            K::Plain => K::Plain,
            k => k,
        };
        let nk = if matches!(new, V::O(_)) { K::Plain } else { nk };
        let k = self.vals.len();
        let ans = format!("h{} {} p={}", k, hex(&bytes_of(&new)), if p { 1 } else { 0 });
        let built = self.exp[h].clone().unwrap();
        let arc = if matches!(new, V::C(_)) { self.arc_of[h] } else { None };
        self.vals.push(Some(new));
        self.exp.push(Some(built));
        self.kinds.push(nk);
        // a clone of a cloned-and-interesting value is interesting in its own right
        self.cloned.push(false);
        self.arc_of.push(arc);
        self.emit(opline, ans);
        k
    }

    /// `dst.clone_from(&src)` on two copy-on-write values — a provided method of `Clone` (`impl Clone for Cow` defines
    /// only `clone`), reached directly (route 0), through `Option<Cow>::clone_from` (1) or `Vec<Cow>::clone_from` (2).
    /// `arm = Some(k)`: the element type's `Clone` panics at its `k`-th call from now; the panic is caught here, as a
    /// caller could.  Model: the destination's old handle dies, the new value gets the next handle (`clonefrom`);
    /// when the call unwinds nothing changes (`clonefromu` answers `unwound`).
    fn clone_from(&mut self, hd: usize, hs: usize, route: usize, arm: Option<usize>) {
        if self.dead || hd == hs {
            return;
        }
        let mut dst = match self.vals[hd].take() {
            Some(V::C(c)) => c,
            _ => panic!("harness: clonefrom into a plain or dead handle"),
        };
        let src = match self.vals[hs].take() {
            Some(V::C(c)) => c,
            _ => panic!("harness: clonefrom from a plain or dead handle"),
        };
        // the containers of routes 1 and 2 are the harness's own (built and released outside the tracked window)
        let (res, dst, src) = match route {
            0 => {
                if let Some(k) = arm {
                    D::arm_panic(k);
                }
                let r = catch_unwind(AssertUnwindSafe(|| alloc::track(|| Clone::clone_from(&mut dst, &src))));
                D::disarm_panic();
                (r, dst, src)
            }
            1 => {
                let mut od = Some(dst);
                let os = Some(src);
                if let Some(k) = arm {
                    D::arm_panic(k);
                }
                let r = catch_unwind(AssertUnwindSafe(|| alloc::track(|| Clone::clone_from(&mut od, &os))));
                D::disarm_panic();
                (r, od.take().expect("Option::clone_from emptied its destination"), os.expect("source"))
            }
            _ => {
                let mut dv = vec![dst];
                let mut sv = vec![src];
                if let Some(k) = arm {
                    D::arm_panic(k);
                }
                let r = catch_unwind(AssertUnwindSafe(|| alloc::track(|| Clone::clone_from(&mut dv, &sv))));
                D::disarm_panic();
                (r, dv.pop().expect("Vec::clone_from emptied its destination"), sv.pop().expect("source"))
            }
        };
        self.vals[hs] = Some(V::C(src));
        self.out.count(if arm.is_some() { "op:clonefromu" } else { "op:clonefrom" });
        self.out.count(&format!("clonefrom route:{}", ["direct", "Option", "Vec"][route.min(2)]));
        self.out.count(&format!("clonefrom {} <- {}", self.kinds[hd].name(), self.kinds[hs].name()));
        match res {
            Err(_) => {
                // nothing of the destination may have been touched: it goes back under its old handle and the
                // oracles of `emit` read it, count its elements and (later) drop it
                self.vals[hd] = Some(V::C(dst));
                self.out.count(&format!("clonefrom unwound {} <- {}", self.kinds[hd].name(), self.kinds[hs].name()));
                self.out.nontrivial();
                self.emit(format!("cow clonefromu {} {}", hd, hs), "unwound".to_string());
            }
            Ok(()) => {
                // the old value of the destination was released inside the call
                self.exp[hd] = None;
                if self.cloned[hd] || matches!(self.kinds[hd], K::Ow | K::Sh) {
                    self.out.nontrivial();
                }
                // only an Owned source runs `Clone` of the elements; elsewhere the armed panic cannot fire and the
                // model's `cloneFromUnwind` is the ordinary `clone_from`
                let opname = if arm.is_some() && self.kinds[hs] != K::Ow { "clonefromu" } else { "clonefrom" };
                self.bind_clone(hs, V::C(dst), format!("cow {} {} {}", opname, hd, hs));
            }
        }
    }

    /// `Ord::max(a, b)` / `Ord::min(a, b)` — provided methods of `Ord`, by value: one argument is handed back (it keeps
    /// its handle), the other one is dropped inside the call (`cow drop`)
    fn minmax(&mut self, h1: usize, h2: usize, which: usize) {
        if self.dead || h1 == h2 {
            return;
        }
        let (a, b) = match (self.vals[h1].take(), self.vals[h2].take()) {
            (Some(V::C(a)), Some(V::C(b))) => (a, b),
            _ => panic!("harness: minmax on a plain or dead handle"),
        };
        let (ea, eb) = (self.exp[h1].clone().unwrap(), self.exp[h2].clone().unwrap());
        // std: max hands back the second argument unless the first is greater, min the first unless it is greater
        let first_wins = if which == 0 { ea > eb } else { ea <= eb };
        let (hw, hl) = if first_wins { (h1, h2) } else { (h2, h1) };
        let pw = if first_wins { D::c_ptr(&a) } else { D::c_ptr(&b) };
        let w = alloc::track(move || D::c_minmax(a, b, which));
        self.out.count(if which == 0 { "op:max" } else { "op:min" });
        if D::c_ptr(&w) != pw || &D::c_bytes(&w) != self.exp[hw].as_ref().unwrap() {
            let d = format!(
                "{}(h{}, h{}) handed back a value reading {} ({} address as its argument h{}), expected h{} itself, reading {}",
                if which == 0 { "max" } else { "min" },
                h1,
                h2,
                hex(&D::c_bytes(&w)),
                if D::c_ptr(&w) == pw { "same" } else { "another" },
                hw,
                hw,
                hex(self.exp[hw].as_ref().unwrap())
            );
            self.out.oracle_fail("Hash/Ord/Borrow/Display disagree with the content", &d);
        }
        self.vals[hw] = Some(V::C(w));
        self.exp[hl] = None;
        self.emit(format!("cow drop {}", hl), "ok".to_string());
    }

    /// `clone` of a copy-on-write value while the element type's `Clone` is armed to panic at its `k`-th call;
    /// the panic is caught here, as a caller could
    fn clone_unwind(&mut self, h: usize, k: usize) {
        if self.dead {
            return;
        }
        let res = {
            let src = match self.vals[h].as_ref() {
                Some(V::C(c)) => c,
                _ => panic!("harness: cloneu on a plain or dead handle"),
            };
            D::arm_panic(k);
            let r = catch_unwind(AssertUnwindSafe(|| alloc::track(|| D::c_clone(src))));
            D::disarm_panic();
            r
        };
        self.out.count("op:cloneu");
        match res {
            Err(_) => {
                self.out.count(&format!("clone unwound of:{}", self.kinds[h].name()));
                self.out.nontrivial();
                self.emit(format!("cow cloneu {}", h), "unwound".to_string());
            }
            // only the Owned arm runs `Clone` of the elements; elsewhere the armed panic cannot fire and the
            // model's `cloneUnwind` is the ordinary clone.  An Owned source whose copy did not reach the armed
            // element (no elements) is an ordinary clone as well
            Ok(new) => {
                let opname = if self.kinds[h] == K::Ow { "clone" } else { "cloneu" };
                self.bind_clone(h, V::C(new), format!("cow {} {}", opname, h));
            }
        }
    }

    fn deref(&mut self, h: usize) {
        if self.dead {
            return;
        }
        let got = bytes_of(self.vals[h].as_ref().expect("live handle"));
        self.out.count("op:deref");
        self.emit(format!("cow deref {}", h), hex(&got));
    }

    fn eq(&mut self, h1: usize, h2: usize) {
        if self.dead {
            return;
        }
        let b = D::eq(self.vals[h1].as_ref().unwrap(), self.vals[h2].as_ref().unwrap());
        self.out.count("op:eq");
        self.emit(format!("cow eq {} {}", h1, h2), if b { "true" } else { "false" }.to_string());
    }

    fn into_owned(&mut self, h: usize) -> usize {
        if self.dead {
            return 0;
        }
        let c = match self.vals[h].take() {
            Some(V::C(c)) => c,
            _ => panic!("harness: intoowned on a plain or dead handle"),
        };
        let built = self.exp[h].take().unwrap();
        let o = alloc::track(move || D::into_owned(c));
        self.bind_owned(h, o, built, "intoowned")
    }

    fn bind_owned(&mut self, h: usize, o: D::O, built: Vec<u8>, opname: &str) -> usize {
        let cap = D::o_cap(&o);
        self.out.count("op:intoowned");
        self.out.count(&format!("intoowned of:{}", self.kinds[h].name()));
        if self.cloned[h] {
            self.out.nontrivial();
        }
        // the String / Vec handed to the caller must own a block of exactly `capacity` elements: a larger claim
        // lets safe code (push, extend) write outside the block, and frees it with a layout it never had
        if cap > 0 && D::ELEM > 0 {
            let real = alloc::block_size(D::o_ptr(&o));
            if real != Some(cap * D::ELEM) {
                let d = format!(
                    "into_owned of h{} ({}) returned a value of length {} claiming capacity {} ({} bytes), but {}",
                    h,
                    self.kinds[h].name(),
                    D::o_bytes(&o).len(),
                    cap,
                    cap * D::ELEM,
                    match real {
                        Some(sz) => format!("the block it points to was allocated with {} bytes", sz),
                        None => "it does not point to the start of a live allocation".to_string(),
                    }
                );
                self.out.oracle_fail("owned value claims a capacity it never allocated", &d);
                std::mem::forget(o);
                self.dead = true;
                self.abandon();
                return 0;
            }
        }
        let k = self.vals.len();
        let ans = format!("h{} {} cap={}", k, hex(&D::o_bytes(&o)), cap);
        self.vals.push(Some(V::O(o)));
        self.exp.push(Some(built));
        self.kinds.push(K::Plain);
        self.cloned.push(false);
        self.arc_of.push(None);
        // the op carries the REAL capacity of the returned String/Vec: for a Borrowed/Shared source it is the
        // standard library's choice for the fresh copy (`Arc<str>::to_string()` goes through `Display` and
        // gives max(8, len), `to_owned`/`to_vec` are exact); for an Owned source the model ignores it and
        // answers the capacity it stored at `owned`/`clone` time, which must be the real one
        self.emit(format!("cow {} {} {}", opname, h, cap), ans);
        k
    }

    /// `into_owned` while the element type's `Clone` is armed to panic at its `k`-th call; the panic is caught
    /// here, as a caller could.  The value is gone either way (it was moved into the call).
    fn into_owned_unwind(&mut self, h: usize, k: usize) {
        if self.dead {
            return;
        }
        let c = match self.vals[h].take() {
            Some(V::C(c)) => c,
            _ => panic!("harness: intoownedu on a plain or dead handle"),
        };
        let built = self.exp[h].take().unwrap();
        D::arm_panic(k);
        let res = catch_unwind(AssertUnwindSafe(|| alloc::track(move || D::into_owned(c))));
        D::disarm_panic();
        self.out.count("op:intoownedu");
        match res {
            Err(_) => {
                self.out.count(&format!("intoowned unwound of:{}", self.kinds[h].name()));
                self.out.nontrivial();
                self.emit(format!("cow intoownedu {} 0", h), "unwound".to_string());
            }
            // an Owned value is handed back as it is (`from_raw_parts`): no `Clone` runs, nothing can unwind, the
            // model's `intoOwnedUnwind` is the ordinary `into_owned`.  A Borrowed / Shared value whose copy
            // did not reach the armed element (no elements) is an ordinary `into_owned` as well
            Ok(o) => {
                let opname = if self.kinds[h] == K::Ow { "intoownedu" } else { "intoowned" };
                self.bind_owned(h, o, built, opname);
            }
        }
    }

    fn drop_h(&mut self, h: usize, on_thread: bool) {
        if self.dead {
            return;
        }
        let v = self.vals[h].take().expect("live handle");
        self.exp[h] = None;
        if self.cloned[h] {
            self.out.nontrivial();
        }
        self.out.count(&format!("drop of:{}", self.kinds[h].name()));
        if on_thread {
            self.out.count("op:dropt");
            self.out.count("cross-thread drop");
            // spawn and join run untracked (thread bookkeeping allocates); only the drop itself is tracked
            let r = std::thread::spawn(move || alloc::track(move || drop(v))).join();
            if let Err(e) = r {
                self.out.oracle_fail("panic in code under test", &format!("drop on another thread: {}", panic_msg(&e)));
                self.dead = true;
                self.abandon();
                return;
            }
            self.emit(format!("cow dropt {}", h), "ok".to_string());
        } else {
            self.out.count("op:drop");
            alloc::track(move || drop(v));
            self.emit(format!("cow drop {}", h), "ok".to_string());
        }
    }

    /// one random op among those every stream shares; false when nothing applicable was found
    fn random_op(&mut self, r: &mut Rng) -> bool {
        let held = self.held_arcs();
        let has_arcs = !held.is_empty();
        let w = [
            24,                                   // clone
            12,                                   // intoowned
            14,                                   // drop
            5,                                    // dropt
            8,                                    // deref
            if D::HAS_EQ { 6 } else { 0 },        // eq
            if has_arcs { 10 } else { 0 },        // shared
            if has_arcs { 2 } else { 0 },         // droparc
            8,                                    // clonefrom (direct / Option / Vec)
            if D::HAS_EQ { 3 } else { 0 },        // max / min
        ];
        match r.weighted(&w) {
            0 => match self.pick(r, false) {
                Some(h) => {
                    self.clone(h);
                    true
                }
                None => false,
            },
            1 => match self.pick(r, true) {
                Some(h) => {
                    self.into_owned(h);
                    true
                }
                None => false,
            },
            2 => match self.pick(r, false) {
                Some(h) => {
                    self.drop_h(h, false);
                    true
                }
                None => false,
            },
            3 => match self.pick(r, false) {
                Some(h) => {
                    self.drop_h(h, true);
                    true
                }
                None => false,
            },
            4 => match self.pick(r, false) {
                Some(h) => {
                    self.deref(h);
                    true
                }
                None => false,
            },
            5 => {
                let live = self.live();
                if live.is_empty() {
                    return false;
                }
                let h1 = live[r.below(live.len())];
                let h2 = live[r.below(live.len())];
                self.eq(h1, h2);
                true
            }
            6 => {
                let a = held[r.below(held.len())];
                self.shared(a, r.below(2));
                true
            }
            7 => {
                let a = held[r.below(held.len())];
                self.droparc(a);
                true
            }
            w => match (self.pick(r, true), self.pick(r, true)) {
                (Some(h1), Some(h2)) if h1 != h2 => {
                    if w == 8 {
                        self.clone_from(h1, h2, r.below(3), None);
                    } else {
                        self.minmax(h1, h2, r.below(2));
                    }
                    true
                }
                _ => false,
            },
        }
    }

    /// end of case: everything is dropped through the protocol, then the leak / strong-count / fault oracles
    fn finish(&mut self, r: &mut Rng) {
        let mut live = self.live();
        while !live.is_empty() && !self.dead {
            let i = r.below(live.len());
            let h = live.swap_remove(i);
            self.drop_h(h, r.chance(1, 6));
        }
        if self.dead {
            return;
        }
        // about half of the arcs go first; the ones still held must be back to exactly one reference (ours)
        let mut held = self.held_arcs();
        let mut keep = vec![];
        while !held.is_empty() {
            let a = held.swap_remove(r.below(held.len()));
            if r.chance(1, 2) {
                self.droparc(a);
            } else {
                keep.push(a);
            }
        }
        if self.dead {
            return;
        }
        for a in &keep {
            let arc = self.arcs[*a].as_ref().unwrap();
            let sc = D::a_strong(arc);
            if sc != 1 {
                let d = format!("a{}: strong count {} after every value was dropped (expected 1)", a, sc);
                self.out.oracle_fail("Arc reference not given back", &d);
            }
            let got = D::a_bytes(arc);
            if got != self.arc_built[*a] {
                let d = format!("a{} reads {} but was built from {}", a, hex(&got), hex(&self.arc_built[*a]));
                self.out.oracle_fail("content changed", &d);
            }
        }
        for a in keep {
            self.droparc(a);
        }
        if self.dead {
            return;
        }
        let n = alloc::live();
        if n != 0 {
            self.out.oracle_fail("leak", &format!("{} allocation(s) made by the code under test still live at the end of the case", n));
        }
        self.check_faults();
    }
}

fn panic_msg(e: &Box<dyn std::any::Any + Send>) -> String {
    if let Some(s) = e.downcast_ref::<&str>() {
        s.to_string()
    } else if let Some(s) = e.downcast_ref::<String>() {
        s.clone()
    } else {
        "non-string panic payload".to_string()
    }
}

/// the provided (defaulted) methods of `PartialEq` / `PartialOrd` / `Hash` on two copy-on-write values agree with the
/// ordering `want` of their contents: `ne`, `lt`, `le`, `gt`, `ge`, and `hash_slice` over both (`pair_hash` = hash of
/// the two contents as a two-element slice of plain references, which feeds a hasher the same way)
fn provided_methods<C: PartialEq + PartialOrd + Hash>(x: &C, y: &C, want: std::cmp::Ordering, pair_hash: u64) -> Option<String> {
    use std::cmp::Ordering::*;
    let got = (x.ne(y), x.lt(y), x.le(y), x.gt(y), x.ge(y));
    let exp = (want != Equal, want == Less, want != Greater, want == Greater, want != Less);
    if got != exp {
        return Some(format!("(ne, lt, le, gt, ge) = {:?}, the contents compare {:?}", got, want));
    }
    // `[C]::hash` = length prefix + `C::hash_slice`
    let mut h = DefaultHasher::new();
    h.write_usize(2);
    C::hash_slice(std::slice::from_ref(x), &mut h);
    C::hash_slice(std::slice::from_ref(y), &mut h);
    if h.finish() != pair_hash {
        return Some("hash_slice over two values differs from the hash of their contents".to_string());
    }
    None
}

fn hash_of<T: Hash + ?Sized>(t: &T) -> u64 {
    let mut h = DefaultHasher::new();
    t.hash(&mut h);
    h.finish()
}

/// classification of an owned value by (len, cap)
fn shape_key(len: usize, cap: usize) -> &'static str {
    if cap == 0 {
        "owned:cap0"
    } else if len == 0 {
        "owned:empty-with-cap"
    } else if len == cap {
        "owned:len=cap"
    } else {
        "owned:len<cap"
    }
}

#[derive(Clone, Copy)]
enum Shape {
    /// `String::new()` / `Vec::new()`
    New,
    /// `with_capacity(n)`, left empty
    EmptyCap(usize),
    /// len = cap
    Exact,
    /// `with_capacity(len + n)`
    Extra(usize),
}

fn random_shape(r: &mut Rng) -> Shape {
    match r.weighted(&[2, 3, 4, 6]) {
        0 => Shape::New,
        1 => Shape::EmptyCap(r.range(1, 32)),
        2 => Shape::Exact,
        _ => Shape::Extra(r.range(1, 24)),
    }
}

// ---------------------------------------------------------------------------------------------
// stream A: SharedString

struct StrDom;
impl Dom for StrDom {
    type C = SharedString;
    type O = String;
    type A = Arc<str>;
    const NAME: &'static str = "str";
    const HAS_EQ: bool = true;
    const ELEM: usize = 1;
    fn c_bytes(c: &SharedString) -> Vec<u8> {
        let s: &str = c;
        s.as_bytes().to_vec()
    }
    fn o_bytes(o: &String) -> Vec<u8> {
        o.as_bytes().to_vec()
    }
    fn c_ptr(c: &SharedString) -> usize {
        let s: &str = c;
        s.as_ptr() as usize
    }
    fn o_ptr(o: &String) -> usize {
        o.as_ptr() as usize
    }
    fn c_clone(c: &SharedString) -> SharedString {
        c.clone()
    }
    fn o_clone(o: &String) -> String {
        o.clone()
    }
    fn into_owned(c: SharedString) -> String {
        c.into_owned()
    }
    fn c_minmax(a: SharedString, b: SharedString, which: usize) -> SharedString {
        if which == 0 {
            Ord::max(a, b)
        } else {
            Ord::min(a, b)
        }
    }
    fn o_cap(o: &String) -> usize {
        o.capacity()
    }
    fn eq(a: &V<Self>, b: &V<Self>) -> bool {
        match (a, b) {
            (V::C(a), V::C(b)) => a == b,
            (V::C(a), V::O(b)) => **a == **b,
            (V::O(a), V::C(b)) => **a == **b,
            (V::O(a), V::O(b)) => a == b,
        }
    }
    fn a_new(bytes: &[u8]) -> Arc<str> {
        Arc::from(std::str::from_utf8(bytes).unwrap())
    }
    fn a_bytes(a: &Arc<str>) -> Vec<u8> {
        a.as_bytes().to_vec()
    }
    fn a_strong(a: &Arc<str>) -> usize {
        Arc::strong_count(a)
    }
    fn a_share(a: &Arc<str>, route: usize) -> SharedString {
        if route == 0 {
            SharedString::from_shared(Arc::clone(a))
        } else {
            SharedString::from(Arc::clone(a))
        }
    }
    fn extra_oracle(a: &V<Self>, ea: &[u8], b: &V<Self>, eb: &[u8]) -> Option<String> {
        let (sa, sb) = match (std::str::from_utf8(ea), std::str::from_utf8(eb)) {
            (Ok(x), Ok(y)) => (x, y),
            _ => return Some("harness record is not UTF-8".to_string()),
        };
        let ha = match a {
            V::C(c) => hash_of(c),
            V::O(o) => hash_of(o),
        };
        if ha != hash_of(sa) {
            return Some(format!("Hash differs from the hash of {}", hexs(sa)));
        }
        if let V::C(c) = a {
            let br: &str = c.borrow();
            let ar: &str = c.as_ref();
            if br.as_bytes() != ea || ar.as_bytes() != ea {
                return Some("Borrow/AsRef differ from the content".to_string());
            }
            if format!("{}", c).as_bytes() != ea || format!("{:?}", c) != format!("{:?}", sa) {
                return Some("Display/Debug differ from the content".to_string());
            }
        }
        let want = sa.cmp(sb);
        let got = match (a, b) {
            (V::C(x), V::C(y)) => {
                if x.partial_cmp(y) != Some(want) {
                    return Some("partial_cmp differs".to_string());
                }
                if let Some(d) = provided_methods(x, y, want, hash_of(&[sa, sb][..])) {
                    return Some(d);
                }
                x.cmp(y)
            }
            (V::C(x), V::O(y)) => (**x).cmp(y.as_str()),
            (V::O(x), V::C(y)) => x.as_str().cmp(&**y),
            (V::O(x), V::O(y)) => x.cmp(y),
        };
        if got != want {
            return Some(format!("cmp gives {:?}, the contents compare {:?}", got, want));
        }
        None
    }
}

const STR_POOL: &[&str] = &[
    "",
    "x",
    "abc",
    "metric_name",
    "ß日本🦀",
    "a\"b\\c\n",
    "requests_total_by_something_rather_long_0123456789",
    "\u{0}",
];

fn a_borrowed(case: &mut Case<StrDom>, s: &'static str, route: usize) -> usize {
    if case.dead {
        return 0;
    }
    let c = alloc::track(|| match route {
        // `Default`: `from_borrowed(<&str>::default())`
        _ if s.is_empty() && route >= 2 => SharedString::default(),
        0 => SharedString::const_str(s),
        1 => SharedString::from_borrowed(s),
        2 => SharedString::from(s),
        _ => SharedString::from(std::borrow::Cow::Borrowed(s)),
    });
    case.out.count("op:borrowed");
    case.out.count(if s.is_empty() { "borrowed:empty" } else { "borrowed:non-empty" });
    case.push(format!("cow borrowed {}", hexs(s)), V::C(c), s.as_bytes().to_vec(), K::B)
}

fn a_owned(case: &mut Case<StrDom>, content: &str, shape: Shape, route: usize) -> usize {
    if case.dead {
        return 0;
    }
    // the String is built inside the tracked window: the model counts its buffer from `owned` on
    let s: String = alloc::track(|| match shape {
        Shape::New => String::new(),
        Shape::EmptyCap(n) => String::with_capacity(n),
        Shape::Exact => content.to_string().into_boxed_str().into_string(),
        Shape::Extra(n) => {
            let mut s = String::with_capacity(content.len() + n);
            s.push_str(content);
            s
        }
    });
    let (len, cap) = (s.len(), s.capacity());
    let built = s.as_bytes().to_vec();
    let c = alloc::track(move || match route {
        0 => SharedString::from_owned(s),
        1 => SharedString::from(s),
        _ => SharedString::from(std::borrow::Cow::Owned(s)),
    });
    case.out.count("op:owned");
    case.out.count(shape_key(len, cap));
    let kind = if cap == 0 { K::B } else { K::Ow };
    case.push(format!("cow owned {} {}", hex(&built), cap), V::C(c), built, kind)
}

fn a_create(case: &mut Case<StrDom>, r: &mut Rng) {
    let held = case.held_arcs();
    let w = [if case.arcs.len() < 6 { 3 } else { 0 }, 3, 6, if held.is_empty() { 0 } else { 5 }];
    match r.weighted(&w) {
        0 => {
            let s = if r.chance(1, 6) { String::new() } else { wild_string(r, false) };
            case.arc(s.as_bytes());
        }
        1 => {
            let s = r.pick_str(STR_POOL);
            a_borrowed(case, s, r.below(4));
        }
        2 => {
            let s = wild_string(r, false);
            let shape = random_shape(r);
            a_owned(case, &s, shape, r.below(3));
        }
        _ => {
            let a = held[r.below(held.len())];
            case.shared(a, r.below(2));
        }
    }
}

// ---------------------------------------------------------------------------------------------
// stream B: label slices through Key

const NAME: &str = "name";
const KEYS: [&str; 12] = ["k00", "k01", "k02", "k03", "k04", "k05", "k06", "k07", "k08", "k09", "k10", "k11"];
const VALS: [&str; 12] = ["v00", "v01", "v02", "v03", "v04", "v05", "v06", "v07", "v08", "v09", "v10", "v11"];

static ST0: [Label; 0] = [];
static ST1: [Label; 1] = [Label::from_static_parts("k02", "v02")];
static ST3: [Label; 3] = [
    Label::from_static_parts("k00", "v00"),
    Label::from_static_parts("k01", "v01"),
    Label::from_static_parts("k05", "v05"),
];
static ST9: [Label; 9] = [
    Label::from_static_parts("k08", "v08"),
    Label::from_static_parts("k07", "v07"),
    Label::from_static_parts("k06", "v06"),
    Label::from_static_parts("k05", "v05"),
    Label::from_static_parts("k04", "v04"),
    Label::from_static_parts("k03", "v03"),
    Label::from_static_parts("k02", "v02"),
    Label::from_static_parts("k01", "v01"),
    Label::from_static_parts("k01", "v01"),
];

/// the id of a label = index of its key in KEYS, provided the value is the matching one (0xff otherwise:
/// never a valid id, so a corrupted element shows as changed content)
fn label_id(l: &Label) -> u8 {
    match KEYS.iter().position(|k| *k == l.key()) {
        Some(i) if VALS[i] == l.value() => i as u8,
        _ => 0xff,
    }
}

struct LabelDom;
impl Dom for LabelDom {
    type C = Key;
    type O = Vec<Label>;
    type A = ();
    const NAME: &'static str = "labels";
    const HAS_EQ: bool = false; // Key::eq compares names and ignores label order: not the slice's `==`
    const ELEM: usize = std::mem::size_of::<Label>();
    fn c_bytes(c: &Key) -> Vec<u8> {
        c.labels().map(label_id).collect()
    }
    fn o_bytes(o: &Vec<Label>) -> Vec<u8> {
        o.iter().map(label_id).collect()
    }
    fn c_ptr(c: &Key) -> usize {
        c.labels().as_slice().as_ptr() as usize
    }
    fn o_ptr(o: &Vec<Label>) -> usize {
        o.as_ptr() as usize
    }
    fn c_clone(c: &Key) -> Key {
        c.clone()
    }
    fn o_clone(o: &Vec<Label>) -> Vec<Label> {
        o.clone()
    }
    fn into_owned(c: Key) -> Vec<Label> {
        c.into_parts().1
    }
    fn o_cap(o: &Vec<Label>) -> usize {
        o.capacity()
    }
    fn eq(_: &V<Self>, _: &V<Self>) -> bool {
        unreachable!()
    }
    fn a_new(_: &[u8]) {}
    fn a_bytes(_: &()) -> Vec<u8> {
        vec![]
    }
    fn a_strong(_: &()) -> usize {
        0
    }
    fn a_share(_: &(), _: usize) -> Key {
        unreachable!()
    }
    fn extra_oracle(a: &V<Self>, ea: &[u8], _b: &V<Self>, _eb: &[u8]) -> Option<String> {
        // name and hash of a key are stable and independent of how the labels are stored
        if let V::C(k) = a {
            if k.name() != NAME {
                return Some("key name changed".to_string());
            }
            if k.labels().len() != ea.len() {
                return Some("labels().len() differs".to_string());
            }
            if k.get_hash() != k.clone_hash_reference() {
                return Some("get_hash differs from the hash of an equal freshly built key".to_string());
            }
        }
        None
    }
}

/// `get_hash` of a key must equal `get_hash` of a key built from clones of the same labels — computed
/// without going through the tracked window (harness-side, allocations are untracked)
trait HashRef {
    fn clone_hash_reference(&self) -> u64;
}
impl HashRef for Key {
    fn clone_hash_reference(&self) -> u64 {
        let labels: Vec<Label> = self.labels().cloned().collect();
        Key::from_parts(NAME, labels).get_hash()
    }
}

struct Pool {
    labels: Vec<Label>,
    el_arcs: Vec<Arc<str>>,
    baseline: Vec<usize>,
    owned_variant: bool,
}

fn make_pool(r: &mut Rng, owned_variant: bool) -> Pool {
    let n = r.range(1, 12);
    let mut labels = vec![];
    let mut el_arcs: Vec<Arc<str>> = vec![];
    for id in 0..n {
        let l = if owned_variant {
            Label::new(KEYS[id].to_string(), VALS[id].to_string())
        } else {
            // only strings whose clone does not allocate, so the allocation count is exact
            match r.below(3) {
                0 => Label::from_static_parts(KEYS[id], VALS[id]),
                1 => {
                    let ka: Arc<str> = Arc::from(KEYS[id]);
                    let va: Arc<str> = Arc::from(VALS[id]);
                    let l = Label::new(SharedString::from(Arc::clone(&ka)), SharedString::from_shared(Arc::clone(&va)));
                    el_arcs.push(ka);
                    el_arcs.push(va);
                    l
                }
                _ => {
                    let va: Arc<str> = Arc::from(VALS[id]);
                    let l = Label::new(KEYS[id], SharedString::from(Arc::clone(&va)));
                    el_arcs.push(va);
                    l
                }
            }
        };
        labels.push(l);
    }
    let baseline = el_arcs.iter().map(Arc::strong_count).collect();
    Pool { labels, el_arcs, baseline, owned_variant }
}

fn random_ids(r: &mut Rng, pool: &Pool, max: usize) -> Vec<u8> {
    let len = match r.below(6) {
        0 => 0,
        1 => 1,
        2 => 2,
        3 => r.range(8, 10).min(max.max(1)),
        _ => r.range(1, max.max(1)),
    };
    (0..len).map(|_| r.below(pool.labels.len()) as u8).collect()
}

/// a `Vec<Label>` whose buffer (if any) is allocated inside a tracked window, filled with clones of pool labels
fn b_vec(pool: &Pool, ids: &[u8], shape: Shape) -> Vec<Label> {
    let mut v: Vec<Label> = alloc::track(|| match shape {
        Shape::New if ids.is_empty() => Vec::new(),
        Shape::EmptyCap(n) if ids.is_empty() => Vec::with_capacity(n),
        Shape::Extra(n) => Vec::with_capacity(ids.len() + n),
        _ => Vec::with_capacity(ids.len()),
    });
    for id in ids {
        v.push(pool.labels[*id as usize].clone()); // never reallocates: capacity >= len
    }
    v
}

fn b_owned(case: &mut Case<LabelDom>, pool: &Pool, ids: &[u8], shape: Shape, route: usize) -> usize {
    if case.dead {
        return 0;
    }
    let v = b_vec(pool, ids, shape);
    let (len, cap) = (v.len(), v.capacity());
    let key = alloc::track(move || if route == 0 { Key::from_parts(NAME, v) } else { Key::from((NAME, v)) });
    case.out.count("op:owned");
    case.out.count(shape_key(len, cap));
    let kind = if cap == 0 { K::B } else { K::Ow };
    case.push(format!("cow owned {} {}", hex(ids), cap), V::C(key), ids.to_vec(), kind)
}

/// `Key::from_name` / `From<&str>`: `Cow::from_owned(Vec::new())`
fn b_from_name(case: &mut Case<LabelDom>, route: usize) -> usize {
    if case.dead {
        return 0;
    }
    let key = alloc::track(|| if route == 0 { Key::from_name(NAME) } else { Key::from(NAME) });
    case.out.count("op:owned");
    case.out.count("owned:cap0");
    case.push("cow owned - 0".to_string(), V::C(key), vec![], K::B)
}

/// `Key::from_parts(name, other.labels())`: `IntoLabels for Iter<Label>` collects clones into an
/// exact-capacity Vec (TrustedLen), so the capacity handed to `from_owned` is the length
fn b_from_iter(case: &mut Case<LabelDom>, h: usize) -> usize {
    if case.dead {
        return 0;
    }
    let (key, ids) = {
        let src = match case.vals[h].as_ref() {
            Some(V::C(k)) => k,
            _ => panic!("harness: from_iter on a non-key"),
        };
        (alloc::track(|| Key::from_parts(NAME, src.labels())), LabelDom::c_bytes(src))
    };
    case.out.count("op:owned");
    case.out.count("owned:from-iter");
    let kind = if ids.is_empty() { K::B } else { K::Ow };
    case.push(format!("cow owned {} {}", hex(&ids), ids.len()), V::C(key), ids, kind)
}

fn b_borrowed(case: &mut Case<LabelDom>, s: &'static [Label], route: usize) -> usize {
    if case.dead {
        return 0;
    }
    let key = alloc::track(|| match route {
        0 => Key::from_static_labels(NAME, s),
        _ => Key::from_static_parts(NAME, s),
    });
    let ids: Vec<u8> = s.iter().map(label_id).collect();
    case.out.count("op:borrowed");
    case.out.count(if s.is_empty() { "borrowed:empty" } else { "borrowed:non-empty" });
    case.push(format!("cow borrowed {}", hex(&ids)), V::C(key), ids, K::B)
}

/// `with_extra_labels`: empty extras = `clone`; otherwise `clone().into_owned()`, `extend`, `from_owned`,
/// which the model sees as a read of the source followed by a fresh owned value
fn b_extra(case: &mut Case<LabelDom>, pool: &Pool, h: usize, extra: &[u8]) -> usize {
    if case.dead {
        return 0;
    }
    case.out.count(if extra.is_empty() { "with_extra_labels:empty" } else { "with_extra_labels:non-empty" });
    let extras: Vec<Label> = extra.iter().map(|id| pool.labels[*id as usize].clone()).collect();
    if extra.is_empty() {
        return case.clone_with(h, move |v| match v {
            V::C(k) => V::C(k.with_extra_labels(extras)),
            V::O(_) => panic!("harness: with_extra_labels on a plain Vec"),
        });
    }
    // `with_extra_labels` starts with `self.labels.clone().into_owned()` and then `extend`s the result in place.
    // That first step is run on its own beforehand (clone the key, take its labels, drop them), so that a clone
    // which does not own what its capacity word claims is seen by the oracles BEFORE `extend` writes through it.
    let probe = case.clone(h);
    let probe = if case.dead { 0 } else { case.into_owned(probe) };
    if !case.dead {
        case.drop_h(probe, false);
    }
    if !case.dead {
        case.deref(h);
    }
    if case.dead {
        std::mem::forget(extras);
        return 0;
    }
    let before = alloc::live();
    let (key, mut ids) = {
        let src = match case.vals[h].as_ref() {
            Some(V::C(k)) => k,
            _ => panic!("harness: with_extra_labels on a non-key"),
        };
        let ids = LabelDom::c_bytes(src);
        (alloc::track(move || src.with_extra_labels(extras)), ids)
    };
    let n = ids.len();
    ids.extend_from_slice(extra);
    // the capacity of the new Vec is not observable through Key; it is what RawVec::grow_amortized gives
    // for an exact-capacity Vec of n elements extended by m: max(2n, n+m, 4) (4 = MIN_NON_ZERO_CAP for
    // elements of 48 bytes).  A later into_parts() on this key reports the real capacity, so a wrong
    // prediction would show up as a difference there.
    let cap = (2 * n).max(n + extra.len()).max(4);
    if case.counting && alloc::live() != before + 1 && !alloc::has_faults() {
        let d = format!("with_extra_labels changed the number of live allocations by {} (expected +1)", alloc::live() - before);
        case.out.oracle_fail("leak", &d);
    }
    if case.kinds[h] != K::B {
        case.cloned[h] = true;
    }
    case.push(format!("cow owned {} {}", hex(&ids), cap), V::C(key), ids, K::Ow)
}

struct BStatics {
    slices: Vec<&'static [Label]>,
}

fn b_statics(r: &mut Rng) -> BStatics {
    let mut slices: Vec<&'static [Label]> = vec![&ST0, &ST1, &ST3, &ST9];
    for _ in 0..3 {
        let n = r.range(0, 6);
        let v: Vec<Label> = (0..n)
            .map(|_| {
                let id = r.below(12);
                Label::from_static_parts(KEYS[id], VALS[id])
            })
            .collect();
        slices.push(Box::leak(v.into_boxed_slice()));
    }
    BStatics { slices }
}

fn b_create(case: &mut Case<LabelDom>, r: &mut Rng, pool: &Pool, st: &BStatics) {
    let keys: Vec<usize> =
        case.live().into_iter().filter(|h| matches!(case.vals[*h], Some(V::C(_)))).collect();
    let w = [3, 8, 2, if keys.is_empty() { 0 } else { 2 }];
    match r.weighted(&w) {
        0 => {
            if r.chance(1, 5) {
                let key = alloc::track(|| Key::from_static_name(NAME));
                case.out.count("op:borrowed");
                case.out.count("borrowed:empty");
                case.push("cow borrowed -".to_string(), V::C(key), vec![], K::B);
            } else {
                let s = st.slices[r.below(st.slices.len())];
                b_borrowed(case, s, r.below(2));
            }
        }
        1 => {
            let shape = random_shape(r);
            let ids = match shape {
                Shape::New | Shape::EmptyCap(_) => vec![],
                _ => random_ids(r, pool, 12),
            };
            b_owned(case, pool, &ids, shape, r.below(2));
        }
        2 => {
            b_from_name(case, r.below(2));
        }
        _ => {
            let h = keys[r.below(keys.len())];
            b_from_iter(case, h);
        }
    }
}

fn b_end(case: &mut Case<LabelDom>, pool: &Pool) {
    if case.dead {
        return;
    }
    // element destructors ran exactly once: every element Arc is back to the references the pool holds
    for (i, a) in pool.el_arcs.iter().enumerate() {
        let sc = Arc::strong_count(a);
        if sc != pool.baseline[i] {
            let d = format!(
                "element string {}: strong count {} at the end of the case, {} before it ({})",
                hexs(a),
                sc,
                pool.baseline[i],
                if sc > pool.baseline[i] { "element leaked" } else { "element dropped twice" }
            );
            case.out.oracle_fail("Arc reference not given back", &d);
        }
    }
    for (id, l) in pool.labels.iter().enumerate() {
        if label_id(l) as usize != id {
            case.out.oracle_fail("content changed", &format!("pool label {} no longer reads k/v {}", id, id));
        }
    }
}

// ---------------------------------------------------------------------------------------------
// stream C: Cow<'static, [D]> through the hook, D counts constructions and destructions

static LIVE_D: AtomicIsize = AtomicIsize::new(0);

#[derive(Debug)]
struct D(u8);
/// countdown to a panicking comparison / hash of `D` (`eq`, `partial_cmp`, `cmp`, `hash`): -1 = disarmed
static PANIC_CMP: AtomicIsize = AtomicIsize::new(-1);
fn cmp_tick() {
    if PANIC_CMP.load(Ordering::SeqCst) >= 0 && PANIC_CMP.fetch_sub(1, Ordering::SeqCst) == 0 {
        std::panic::resume_unwind(Box::new(()));
    }
}
impl PartialEq for D {
    fn eq(&self, o: &D) -> bool {
        cmp_tick();
        self.0 == o.0
    }
}
impl Eq for D {}
impl PartialOrd for D {
    fn partial_cmp(&self, o: &D) -> Option<std::cmp::Ordering> {
        cmp_tick();
        Some(self.0.cmp(&o.0))
    }
}
impl Ord for D {
    fn cmp(&self, o: &D) -> std::cmp::Ordering {
        cmp_tick();
        self.0.cmp(&o.0)
    }
}
impl Hash for D {
    fn hash<H: Hasher>(&self, state: &mut H) {
        cmp_tick();
        self.0.hash(state)
    }
}
impl D {
    fn new(id: u8) -> D {
        LIVE_D.fetch_add(1, Ordering::SeqCst);
        D(id)
    }
}
/// countdown to a panicking `D::clone`: -1 = disarmed; k >= 0 = the (k+1)-th clone from now panics (once)
static PANIC_IN: AtomicIsize = AtomicIsize::new(-1);

impl Clone for D {
    fn clone(&self) -> D {
        if PANIC_IN.load(Ordering::SeqCst) >= 0 && PANIC_IN.fetch_sub(1, Ordering::SeqCst) == 0 {
            // `resume_unwind` starts an ordinary unwind without going through the panic hook (no stderr noise);
            // the payload is zero-sized, so that no allocation of the harness is counted as the code's
            std::panic::resume_unwind(Box::new(()));
        }
        D::new(self.0)
    }
}
impl Drop for D {
    fn drop(&mut self) {
        LIVE_D.fetch_sub(1, Ordering::SeqCst);
    }
}

/// never dropped, never counted
static SD2: [D; 2] = [D(7), D(9)];
static SD0: [D; 0] = [];

type DCow = MCow<'static, [D]>;

struct SliceDom;
impl Dom for SliceDom {
    type C = DCow;
    type O = Vec<D>;
    type A = Arc<[D]>;
    const NAME: &'static str = "slice";
    const HAS_EQ: bool = true;
    const ELEM: usize = std::mem::size_of::<D>();
    fn arm_panic(k: usize) {
        PANIC_IN.store(k as isize, Ordering::SeqCst);
    }
    fn disarm_panic() -> bool {
        PANIC_IN.swap(-1, Ordering::SeqCst) >= 0
    }
    fn live_elems() -> Option<isize> {
        Some(LIVE_D.load(Ordering::SeqCst))
    }
    fn c_minmax(a: DCow, b: DCow, which: usize) -> DCow {
        if which == 0 {
            Ord::max(a, b)
        } else {
            Ord::min(a, b)
        }
    }
    fn c_bytes(c: &DCow) -> Vec<u8> {
        c.iter().map(|d| d.0).collect()
    }
    fn o_bytes(o: &Vec<D>) -> Vec<u8> {
        o.iter().map(|d| d.0).collect()
    }
    fn c_ptr(c: &DCow) -> usize {
        let s: &[D] = c;
        s.as_ptr() as usize
    }
    fn o_ptr(o: &Vec<D>) -> usize {
        o.as_ptr() as usize
    }
    fn c_clone(c: &DCow) -> DCow {
        c.clone()
    }
    fn o_clone(o: &Vec<D>) -> Vec<D> {
        o.clone()
    }
    fn into_owned(c: DCow) -> Vec<D> {
        c.into_owned()
    }
    fn o_cap(o: &Vec<D>) -> usize {
        o.capacity()
    }
    fn eq(a: &V<Self>, b: &V<Self>) -> bool {
        match (a, b) {
            (V::C(a), V::C(b)) => a == b,
            (V::C(a), V::O(b)) => **a == **b,
            (V::O(a), V::C(b)) => **a == **b,
            (V::O(a), V::O(b)) => a == b,
        }
    }
    fn a_new(bytes: &[u8]) -> Arc<[D]> {
        let v: Vec<D> = bytes.iter().map(|b| D::new(*b)).collect();
        Arc::from(v)
    }
    fn a_bytes(a: &Arc<[D]>) -> Vec<u8> {
        a.iter().map(|d| d.0).collect()
    }
    fn a_strong(a: &Arc<[D]>) -> usize {
        Arc::strong_count(a)
    }
    fn a_share(a: &Arc<[D]>, route: usize) -> DCow {
        if route == 0 {
            DCow::from_shared(Arc::clone(a))
        } else {
            DCow::from(Arc::clone(a))
        }
    }
    fn extra_oracle(a: &V<Self>, ea: &[u8], b: &V<Self>, eb: &[u8]) -> Option<String> {
        // reference values are real `[D]`s (constructed and dropped here: net zero on LIVE_D)
        let ra: Vec<D> = ea.iter().map(|x| D::new(*x)).collect();
        let rb: Vec<D> = eb.iter().map(|x| D::new(*x)).collect();
        let ha = match a {
            V::C(c) => hash_of(c),
            V::O(o) => hash_of(&o[..]),
        };
        if ha != hash_of(&ra[..]) {
            return Some("Hash differs from the hash of the content".to_string());
        }
        if let V::C(c) = a {
            let br: &[D] = c.borrow();
            let ar: &[D] = c.as_ref();
            if br != &ra[..] || ar != &ra[..] {
                return Some("Borrow/AsRef differ from the content".to_string());
            }
            if format!("{:?}", c) != format!("{:?}", ra) {
                return Some("Debug differs from the content".to_string());
            }
        }
        let want = ra.cmp(&rb);
        let got = match (a, b) {
            (V::C(x), V::C(y)) => {
                if x.partial_cmp(y) != Some(want) {
                    return Some("partial_cmp differs".to_string());
                }
                if let Some(d) = provided_methods(x, y, want, hash_of(&[&ra[..], &rb[..]][..])) {
                    return Some(d);
                }
                x.cmp(y)
            }
            (V::C(x), V::O(y)) => (**x).cmp(&y[..]),
            (V::O(x), V::C(y)) => x[..].cmp(&**y),
            (V::O(x), V::O(y)) => x.cmp(y),
        };
        if got != want {
            return Some(format!("cmp gives {:?}, the contents compare {:?}", got, want));
        }
        None
    }
}

struct CStatics {
    slices: Vec<&'static [D]>,
}

fn c_statics(r: &mut Rng) -> CStatics {
    let mut slices: Vec<&'static [D]> = vec![&SD0, &SD2];
    for n in [0usize, 1, 3, 8] {
        let v: Vec<D> = (0..n).map(|_| D::new(r.below(16) as u8)).collect();
        slices.push(Box::leak(v.into_boxed_slice()));
    }
    CStatics { slices }
}

fn c_borrowed(case: &mut Case<SliceDom>, s: &'static [D], route: usize) -> usize {
    if case.dead {
        return 0;
    }
    let c = alloc::track(|| match route {
        // `Default`: `from_borrowed(<&[D]>::default())`
        _ if s.is_empty() && route == 2 => DCow::default(),
        0 => DCow::from_borrowed(s),
        1 => DCow::const_slice(s),
        _ => DCow::from(s),
    });
    let ids: Vec<u8> = s.iter().map(|d| d.0).collect();
    case.out.count("op:borrowed");
    case.out.count(if s.is_empty() { "borrowed:empty" } else { "borrowed:non-empty" });
    case.push(format!("cow borrowed {}", hex(&ids)), V::C(c), ids, K::B)
}

fn c_owned(case: &mut Case<SliceDom>, ids: &[u8], shape: Shape, route: usize) -> usize {
    if case.dead {
        return 0;
    }
    let v: Vec<D> = alloc::track(|| match shape {
        Shape::New => Vec::new(),
        Shape::EmptyCap(n) => Vec::with_capacity(n),
        Shape::Exact => {
            let v: Vec<D> = ids.iter().map(|b| D::new(*b)).collect();
            v.into_boxed_slice().into_vec()
        }
        Shape::Extra(n) => {
            let mut v = Vec::with_capacity(ids.len() + n);
            for b in ids {
                v.push(D::new(*b));
            }
            v
        }
    });
    let (len, cap) = (v.len(), v.capacity());
    let built: Vec<u8> = v.iter().map(|d| d.0).collect();
    let c = alloc::track(move || if route == 0 { DCow::from_owned(v) } else { DCow::from(v) });
    case.out.count("op:owned");
    case.out.count(shape_key(len, cap));
    let kind = if cap == 0 { K::B } else { K::Ow };
    case.push(format!("cow owned {} {}", hex(&built), cap), V::C(c), built, kind)
}

fn random_d_ids(r: &mut Rng) -> Vec<u8> {
    let len = match r.below(5) {
        0 => 0,
        1 => 1,
        _ => r.range(1, 12),
    };
    (0..len).map(|_| r.below(16) as u8).collect()
}

fn c_create(case: &mut Case<SliceDom>, r: &mut Rng, st: &CStatics) {
    let held = case.held_arcs();
    let w = [if case.arcs.len() < 6 { 3 } else { 0 }, 3, 6, if held.is_empty() { 0 } else { 5 }];
    match r.weighted(&w) {
        0 => {
            let ids = random_d_ids(r);
            case.arc(&ids);
        }
        1 => {
            let s = st.slices[r.below(st.slices.len())];
            c_borrowed(case, s, r.below(3));
        }
        2 => {
            let shape = random_shape(r);
            let ids = match shape {
                Shape::New | Shape::EmptyCap(_) => vec![],
                _ => random_d_ids(r),
            };
            c_owned(case, &ids, shape, r.below(2));
        }
        _ => {
            let a = held[r.below(held.len())];
            case.shared(a, r.below(2));
        }
    }
}

const READ_OPS: [&str; 10] = ["eq", "ne", "lt", "le", "gt", "ge", "partial_cmp", "cmp", "hash", "hash_slice"];

/// one of the comparison / hash methods of `Cow<[D]>` (defined: `eq`, `partial_cmp`, `cmp`, `hash`; provided by std:
/// `ne`, `lt`, `le`, `gt`, `ge`, `hash_slice`) on two live copy-on-write values while the element type's own
/// `PartialEq` / `PartialOrd` / `Ord` / `Hash` panics at its `k`-th call; the panic is caught here, as a caller could.
/// Nothing is owned by such a call: both values must be exactly what they were (model: `readu` answers `unwound`).
fn c_read_unwind(case: &mut Case<SliceDom>, h1: usize, h2: usize, which: usize, k: usize) {
    if case.dead {
        return;
    }
    let res = {
        let (a, b) = match (case.vals[h1].as_ref(), case.vals[h2].as_ref()) {
            (Some(V::C(a)), Some(V::C(b))) => (a, b),
            _ => panic!("harness: readu on a plain or dead handle"),
        };
        PANIC_CMP.store(k as isize, Ordering::SeqCst);
        let r = catch_unwind(AssertUnwindSafe(|| {
            alloc::track(|| match which {
                0 => {
                    let _ = a == b;
                }
                1 => {
                    let _ = a.ne(b);
                }
                2 => {
                    let _ = a.lt(b);
                }
                3 => {
                    let _ = a.le(b);
                }
                4 => {
                    let _ = a.gt(b);
                }
                5 => {
                    let _ = a.ge(b);
                }
                6 => {
                    let _ = a.partial_cmp(b);
                }
                7 => {
                    let _ = a.cmp(b);
                }
                8 => {
                    let mut h = DefaultHasher::new();
                    a.hash(&mut h);
                    b.hash(&mut h);
                }
                _ => {
                    let mut h = DefaultHasher::new();
                    <DCow as Hash>::hash_slice(std::slice::from_ref(a), &mut h);
                    <DCow as Hash>::hash_slice(std::slice::from_ref(b), &mut h);
                }
            })
        }));
        PANIC_CMP.store(-1, Ordering::SeqCst);
        r
    };
    case.out.count("op:readu");
    match res {
        Err(_) => {
            case.out.count(&format!("readu unwound:{}", READ_OPS[which.min(9)]));
            case.out.nontrivial();
            case.emit(format!("cow readu {} {}", h1, h2), "unwound".to_string());
        }
        // the armed element was never reached (different lengths, an early difference, empty values): an ordinary read
        Ok(()) => {
            case.out.count("readu: panic not reached");
            case.deref(h1);
        }
    }
}

fn c_end(case: &mut Case<SliceDom>, d_at_start: isize) {
    if case.dead {
        return;
    }
    let now = LIVE_D.load(Ordering::SeqCst);
    if now != d_at_start {
        let d = format!(
            "{} element(s) {}",
            (now - d_at_start).abs(),
            if now > d_at_start { "never dropped (leaked)" } else { "dropped twice" }
        );
        case.out.oracle_fail("element destructor count", &d);
    }
}

// ---------------------------------------------------------------------------------------------
// cases

fn random_body<D: Dom>(case: &mut Case<D>, r: &mut Rng, mut create: impl FnMut(&mut Case<D>, &mut Rng), mut special: impl FnMut(&mut Case<D>, &mut Rng) -> bool) {
    let nops = r.range(5, 40);
    for _ in 0..nops {
        if case.dead {
            break;
        }
        let nlive = case.live().len();
        let w_create = if nlive < 2 {
            60
        } else if nlive > 12 {
            5
        } else {
            25
        };
        if r.below(100) < w_create {
            create(case, r);
        } else if special(case, r) {
        } else if !case.random_op(r) {
            create(case, r);
        }
    }
}

enum Which {
    Corpus(usize),
    Random,
}

fn case_str(out: &mut Out, r: &mut Rng, which: Which) {
    let mut case: Case<StrDom> = Case::new(out, r.fork(99));
    match which {
        Which::Corpus(1) => {
            // an empty String with capacity is Owned; its clone has no buffer at all
            let h = a_owned(&mut case, "", Shape::EmptyCap(16), 0);
            let c = case.clone(h);
            case.drop_h(h, false);
            case.drop_h(c, false);
        }
        Which::Corpus(2) => {
            // String::new(): capacity 0 decodes as Borrowed
            let h = a_owned(&mut case, "", Shape::New, 1);
            let c = case.clone(h);
            let o = case.into_owned(h);
            case.drop_h(c, false);
            case.drop_h(o, false);
        }
        Which::Corpus(3) => {
            // the last Cow frees the Arc after the harness gave up its own reference
            let a = case.arc(b"shared-name");
            let h0 = case.shared(a, 0);
            let h1 = case.clone(h0);
            let h2 = case.clone(h0);
            let h3 = case.clone(h1);
            case.droparc(a);
            let h4 = case.into_owned(h1);
            for h in [h4, h3, h2, h0] {
                case.drop_h(h, false);
            }
        }
        Which::Corpus(4) => {
            let h = a_owned(&mut case, "abc", Shape::Extra(5), 2);
            let c = case.clone(h);
            case.drop_h(h, true);
            case.deref(c);
            case.drop_h(c, false);
        }
        Which::Corpus(6) => {
            let h0 = a_borrowed(&mut case, "", 0);
            let h1 = a_borrowed(&mut case, "x", 3);
            case.clone(h0);
            case.clone(h1);
            case.into_owned(h0);
            case.into_owned(h1);
        }
        _ => random_body(&mut case, r, a_create, |_, _| false),
    }
    case.finish(r);
}

fn case_labels(out: &mut Out, r: &mut Rng, which: Which, st: &BStatics) {
    let owned_variant = matches!(which, Which::Random) && r.chance(1, 3);
    let pool = make_pool(r, owned_variant);
    let mut case: Case<LabelDom> = Case::new(out, r.fork(99));
    if pool.owned_variant {
        case.out.count("labels:owned-strings (count off)");
        case.count_off();
    } else {
        case.out.count("labels:non-allocating strings (count on)");
    }
    match which {
        Which::Corpus(_) => {
            let h0 = b_from_name(&mut case, 0);
            // four extras on an empty Vec: capacity max(4, 4) = 4 = new length
            let ids: Vec<u8> = (0..4).map(|i| (i % pool.labels.len()) as u8).collect();
            let h1 = b_extra(&mut case, &pool, h0, &ids);
            case.into_owned(h1);
        }
        Which::Random => {
            random_body(
                &mut case,
                r,
                |c, r| b_create(c, r, &pool, st),
                |c, r| {
                    if !r.chance(1, 7) {
                        return false;
                    }
                    let keys: Vec<usize> =
                        c.live().into_iter().filter(|h| matches!(c.vals[*h], Some(V::C(_)))).collect();
                    if keys.is_empty() {
                        return false;
                    }
                    let h = keys[r.below(keys.len())];
                    let extra: Vec<u8> = if r.chance(1, 4) {
                        vec![]
                    } else {
                        (0..r.range(1, 5)).map(|_| r.below(pool.labels.len()) as u8).collect()
                    };
                    b_extra(c, &pool, h, &extra);
                    true
                },
            );
        }
    }
    case.finish(r);
    b_end(&mut case, &pool);
    if case.dead {
        // the pool's element strings may be shared with values that were abandoned
        std::mem::forget(pool);
    }
}

fn case_slice(out: &mut Out, r: &mut Rng, which: Which, st: &CStatics) {
    let d0 = LIVE_D.load(Ordering::SeqCst);
    let mut case: Case<SliceDom> = Case::new(out, r.fork(99));
    match which {
        Which::Corpus(8) => {
            // a failed `into_owned` of a Shared slice gives back exactly one reference: two values and the
            // caller share the block, the copy panics at its second element
            let a = case.arc(&[1, 2, 3]);
            let h0 = case.shared(a, 0);
            let h1 = case.clone(h0);
            case.into_owned_unwind(h0, 1);
            case.deref(h1);
            let h2 = case.clone(h1);
            case.into_owned_unwind(h2, 0);
            case.into_owned(h1);
        }
        Which::Corpus(9) => {
            // the value is the last owner: the failed `into_owned` frees the block (once)
            let a = case.arc(&[4, 5]);
            let h0 = case.shared(a, 1);
            case.droparc(a);
            case.into_owned_unwind(h0, 1);
        }
        Which::Corpus(10) => {
            // failed clones / conversions of Owned and Borrowed values: the partial copy and its elements are
            // released, the source stays usable
            let h = c_owned(&mut case, &[1, 2, 3, 4], Shape::Extra(3), 0);
            case.clone_unwind(h, 2);
            case.clone_unwind(h, 0);
            let c = case.clone(h);
            case.into_owned_unwind(h, 0); // Owned: no Clone runs, returns normally
            case.into_owned_unwind(c, 3);
            let b = c_borrowed(&mut case, &SD2, 0);
            case.clone_unwind(b, 0); // Borrowed: the words are copied
            case.into_owned_unwind(b, 1);
        }
        Which::Corpus(11) => {
            // `clone_from` whose element copy panics part-way, every route, Owned destination and Owned source:
            // destination longer than the source (a copy that reuses the buffer truncates it first), shorter with
            // spare capacity, shorter without (a reused buffer would have to grow); afterwards the destination must
            // be exactly what it was, every element alive exactly once, and a completed `clone_from` must follow
            let long = c_owned(&mut case, &[1, 2, 3, 4, 5], Shape::Extra(2), 0);
            let short = c_owned(&mut case, &[6, 7], Shape::Exact, 1);
            let mid = c_owned(&mut case, &[8, 9, 10], Shape::Extra(1), 0);
            let same = c_owned(&mut case, &[14, 15, 16], Shape::Exact, 0);
            for route in 0..3 {
                case.clone_from(mid, same, route, Some(2)); // 3 <- 3, fails at the last element (nothing may be overwritten)
                case.clone_from(long, short, route, Some(1)); // 5 <- 2, fails at the second element
                case.clone_from(long, mid, route, Some(0)); // 5 <- 3, fails at once
                case.clone_from(short, long, route, Some(3)); // 2 (cap 2) <- 5, fails after the buffer had to grow
                case.clone_from(mid, long, route, Some(4)); // 3 (cap 4) <- 5
                case.clone_from(short, mid, route, Some(2)); // 2 (cap 2) <- 3
            }
            case.deref(long);
            case.deref(short);
            // completed ones: the old buffer of the destination is released, the new value reads the source
            case.clone_from(long, short, 0, None);
            case.clone_from(mid, short, 2, None);
            // other kinds as destination / source, with the panic armed where it cannot fire
            let a = case.arc(&[11, 12, 13]);
            let sh = case.shared(a, 0);
            let b = c_borrowed(&mut case, &SD2, 1);
            case.clone_from(sh, short, 1, Some(1)); // shared <- owned: unwinds, the reference stays taken
            case.clone_from(b, short, 0, Some(0)); // borrowed <- owned: unwinds
            case.clone_from(short, sh, 0, Some(0)); // owned <- shared: no user code runs, completes
            case.clone_from(sh, b, 2, Some(0)); // shared <- borrowed: completes, one reference given back
        }
        Which::Corpus(12) => {
            // comparisons and hashes (defined and provided methods) whose element operation panics, then max / min
            let x = c_owned(&mut case, &[1, 2, 3, 4], Shape::Extra(3), 0);
            let y = c_owned(&mut case, &[1, 2, 3, 5], Shape::Exact, 0);
            let a = case.arc(&[1, 2, 3, 4]);
            let z = case.shared(a, 1);
            for which in 0..10 {
                c_read_unwind(&mut case, x, y, which, 2);
                c_read_unwind(&mut case, z, x, which, 3);
            }
            case.eq(x, z);
            case.minmax(x, y, 0); // y is handed back, x dropped inside the call
            case.minmax(y, z, 1); // z ([1,2,3,4]) < y: z handed back
        }
        Which::Corpus(_) => {
            let h = c_owned(&mut case, &[1, 2, 3], Shape::Extra(4), 0);
            case.clone(h);
            case.into_owned(h);
        }
        Which::Random => random_body(
            &mut case,
            r,
            |c, r| c_create(c, r, st),
            |c, r| {
                // a panicking element `Clone` inside clone / into_owned, caught by the caller
                if !r.chance(1, 4) {
                    return false;
                }
                let h = match c.pick(r, true) {
                    Some(h) => h,
                    None => return false,
                };
                let len = bytes_of(c.vals[h].as_ref().unwrap()).len();
                let k = r.below(len.max(1));
                match r.below(5) {
                    0 => c.clone_unwind(h, k),
                    1 => c.into_owned_unwind(h, k),
                    2 => {
                        let h2 = match c.pick(r, true) {
                            Some(h2) => h2,
                            None => return false,
                        };
                        c_read_unwind(c, h, h2, r.below(10), r.below(len.max(1) + 1));
                    }
                    // `h` is the SOURCE: the panic fires while its k-th element is copied; destinations of every
                    // kind, shorter / longer / with and without spare capacity
                    _ => {
                        let hd = match c.pick(r, true) {
                            Some(hd) if hd != h => hd,
                            _ => return false,
                        };
                        c.clone_from(hd, h, r.below(3), Some(k));
                    }
                }
                true
            },
        ),
    }
    case.finish(r);
    c_end(&mut case, d0);
    if SliceDom::disarm_panic() {
        case.out.oracle_fail("harness", "the armed D::clone panic was left armed at the end of a case");
    }
}

// ---------------------------------------------------------------------------------------------
// stream D: `into_owned()` of an Arc-backed Cow racing `Weak::upgrade()` on the same allocation (real threads,
// stress; failing-input search only).  The Cow is the only strong owner, another thread holds a `Weak` and keeps
// upgrading, reading and dropping.  Whatever the interleaving: contents unchanged, every element dropped once.
fn stress_weak_upgrade(out: &mut Out, iterations: usize) {
    use std::sync::atomic::AtomicBool;
    const N: usize = 20_000;
    let mut upgrades_total = 0usize;
    for it in 0..iterations {
        let before = LIVE_D.load(Ordering::SeqCst);
        let arc: Arc<[D]> = (0..N).map(|i| D::new(i as u8)).collect();
        let weak = Arc::downgrade(&arc);
        let cow = DCow::from_shared(arc);
        let stop = AtomicBool::new(false);
        let barrier = std::sync::Barrier::new(2);
        let upgrades = AtomicUsize::new(0);
        let bad_read = AtomicBool::new(false);
        let mut bad_owned = false;
        std::thread::scope(|sc| {
            sc.spawn(|| {
                barrier.wait();
                while !stop.load(Ordering::Acquire) {
                    if let Some(strong) = weak.upgrade() {
                        upgrades.fetch_add(1, Ordering::Relaxed);
                        if strong.len() != N || strong[0].0 != 0 || strong[N - 1].0 != (N - 1) as u8 {
                            bad_read.store(true, Ordering::SeqCst);
                        }
                        drop(strong);
                    }
                }
            });
            barrier.wait();
            for _ in 0..(it % 7) * 40 {
                std::hint::spin_loop();
            }
            // two iterations out of three convert the value, the third one clones and drops it (the last strong
            // reference goes away in `drop_from_parts` while the other thread upgrades its Weak)
            if it % 3 == 2 {
                let c2 = cow.clone();
                drop(cow);
                bad_owned = c2.len() != N || c2[N - 1].0 != (N - 1) as u8;
                drop(c2);
                stop.store(true, Ordering::Release);
            } else {
                let owned: Vec<D> = cow.into_owned();
                stop.store(true, Ordering::Release);
                bad_owned = owned.len() != N || !owned.iter().enumerate().all(|(i, d)| d.0 == i as u8);
                drop(owned);
            }
        });
        drop(weak);
        upgrades_total += upgrades.load(Ordering::Relaxed);
        let after = LIVE_D.load(Ordering::SeqCst);
        if after != before {
            out.oracle_fail(
                "into_owned() racing Weak::upgrade(): elements were dropped twice or leaked",
                &format!(
                    "Arc<[D]> of {} elements, downgraded to a Weak, handed to Cow::from_shared (only strong owner); thread T loops Weak::upgrade()/read/drop while the main thread calls into_owned() and drops the Vec; iteration {}: live element count changed by {} ({} upgrades succeeded)",
                    N, it, after - before, upgrades.load(Ordering::Relaxed)
                ),
            );
            LIVE_D.store(before, Ordering::SeqCst);
            break;
        }
        if bad_read.load(Ordering::SeqCst) || bad_owned {
            out.oracle_fail("into_owned() racing Weak::upgrade(): content changed", &format!("iteration {}", it));
            break;
        }
    }
    out.count(&format!("weak-upgrade stress iterations={}", iterations));
    if upgrades_total > 0 {
        out.nontrivial();
        out.count("weak-upgrade stress: upgrades succeeded while into_owned ran or before it");
    }
}

/// `Cow<[T]>` must NOT be `Send` / `Sync` when `T` is neither (cow.rs `unsafe impl<T: Cowable + … + ?Sized>`):
/// a compile-time check, restricted to what holds before AND after the repair of the bounds (round 6: the code as
/// found made `Cow<[Cell<u8>]>` `Send` — unsound, see `auto_trait_table` / the type probes — and this module used
/// to ASSERT that positively).  `NotAuto::<X>::check` is ambiguous — the harness stops compiling — as soon as the
/// probed type implements the trait `X` stands for (the `static_assertions::assert_not_impl_any` construction).
#[allow(dead_code)]
mod not_auto {
    use metrics::verif_cow::Cow as MCow;
    use std::rc::Rc;
    pub trait AmbiguousIfSend<A> {
        fn check() {}
    }
    impl<T: ?Sized> AmbiguousIfSend<()> for T {}
    impl<T: ?Sized + Send> AmbiguousIfSend<u8> for T {}
    pub trait AmbiguousIfSync<A> {
        fn check() {}
    }
    impl<T: ?Sized> AmbiguousIfSync<()> for T {}
    impl<T: ?Sized + Sync> AmbiguousIfSync<u8> for T {}
    /// `Rc<u8>` is neither `Send` nor `Sync`; `Cell<u8>` is `Send` but not `Sync`
    pub fn assert_bounds() {
        let _ = <MCow<'static, [Rc<u8>]> as AmbiguousIfSend<_>>::check;
        let _ = <MCow<'static, [Rc<u8>]> as AmbiguousIfSync<_>>::check;
        let _ = <MCow<'static, [std::cell::Cell<u8>]> as AmbiguousIfSync<_>>::check;
        // and positively
        fn is_send_sync<T: Send + Sync>() {}
        is_send_sync::<MCow<'static, str>>();
        is_send_sync::<MCow<'static, [metrics::Label]>>();
    }
}

// ---------------------------------------------------------------------------------------------
// stream E: values that share ONE `Arc<str>` and ONE `Arc<[D]>` are cloned, read, converted and dropped by
// several threads at once (real threads, no schedule control).  The oracle does not depend on the interleaving:
// whatever it was, every reference taken was given back (strong counts back to 1), every element copy was
// destroyed (LIVE_D back), every read saw the content, and the allocator saw no double / foreign free.
fn stress_shared_threads(out: &mut Out, rounds: usize, seed: u64) {
    const THREADS: usize = 4;
    let before = LIVE_D.load(Ordering::SeqCst);
    let text = "shared-across-threads-\u{df}\u{65e5}";
    let sa: Arc<str> = Arc::from(text);
    let da: Arc<[D]> = (0..37u8).map(D::new).collect();
    let weak = Arc::downgrade(&da);
    let bad = AtomicUsize::new(0);
    for round in 0..rounds {
        // each thread starts from its own value made from the caller's Arcs and sends half of its values on
        let s0: Vec<SharedString> = (0..THREADS).map(|i| if i % 2 == 0 { SharedString::from_shared(Arc::clone(&sa)) } else { SharedString::from(Arc::clone(&sa)) }).collect();
        let d0: Vec<DCow> = (0..THREADS).map(|_| DCow::from_shared(Arc::clone(&da))).collect();
        let (tx, rx) = std::sync::mpsc::channel::<(SharedString, DCow)>();
        let barrier = std::sync::Barrier::new(THREADS + 1);
        std::thread::scope(|sc| {
            for (t, (s, d)) in s0.into_iter().zip(d0.into_iter()).enumerate() {
                let tx = tx.clone();
                let (bad, barrier, weak) = (&bad, &barrier, &weak);
                let mut r = Rng::new(seed ^ ((round * THREADS + t) as u64).wrapping_mul(0x9E37_79B9));
                sc.spawn(move || {
                    barrier.wait();
                    let mut ss = vec![s];
                    let mut ds = vec![d];
                    for _ in 0..60 {
                        match r.below(7) {
                            0 | 1 => {
                                let c = ss[r.below(ss.len())].clone();
                                ss.push(c);
                                let c = ds[r.below(ds.len())].clone();
                                ds.push(c);
                            }
                            2 if ss.len() > 1 => {
                                drop(ss.swap_remove(r.below(ss.len())));
                                drop(ds.swap_remove(r.below(ds.len())));
                            }
                            3 if ss.len() > 1 => {
                                let o: String = ss.swap_remove(r.below(ss.len())).into_owned();
                                let v: Vec<D> = ds.swap_remove(r.below(ds.len())).into_owned();
                                if o != text || v.len() != 37 || v[36].0 != 36 {
                                    bad.fetch_add(1, Ordering::SeqCst);
                                }
                            }
                            4 if ss.len() > 1 => {
                                // sent to and dropped on another thread
                                let _ = tx.send((ss.swap_remove(r.below(ss.len())), ds.swap_remove(r.below(ds.len()))));
                            }
                            5 => {
                                // a Weak upgraded while other threads drop / convert their values
                                if let Some(strong) = weak.upgrade() {
                                    if strong.len() != 37 || strong[5].0 != 5 {
                                        bad.fetch_add(1, Ordering::SeqCst);
                                    }
                                }
                            }
                            _ => {
                                let s = &ss[r.below(ss.len())];
                                let d = &ds[r.below(ds.len())];
                                if &**s != text || d.len() != 37 || d[7].0 != 7 {
                                    bad.fetch_add(1, Ordering::SeqCst);
                                }
                            }
                        }
                    }
                });
            }
            drop(tx);
            barrier.wait();
            // the main thread drops what the workers send it, while they are still running
            for (s, d) in rx.iter() {
                if &*s != text || d.len() != 37 {
                    bad.fetch_add(1, Ordering::SeqCst);
                }
                drop(s);
                drop(d);
            }
        });
        let (ssc, dsc) = (Arc::strong_count(&sa), Arc::strong_count(&da));
        if ssc != 1 || dsc != 1 {
            out.oracle_fail(
                "Arc reference not given back",
                &format!("stream E round {}: {} threads cloned / dropped / converted / sent values sharing one Arc<str> and one Arc<[D]>; after all of them were dropped the strong counts are {} and {} (expected 1 and 1)", round, THREADS, ssc, dsc),
            );
            // a wrong count makes the final drops unsafe
            std::mem::forget(sa);
            std::mem::forget(da);
            return;
        }
    }
    if bad.load(Ordering::SeqCst) != 0 {
        out.oracle_fail("content changed", &format!("stream E: {} reads of shared values on worker threads saw other content", bad.load(Ordering::SeqCst)));
    }
    drop(weak);
    drop(da);
    let after = LIVE_D.load(Ordering::SeqCst);
    if after != before {
        out.oracle_fail("element destructor count", &format!("stream E: live element count changed by {} over the whole stream", after - before));
        LIVE_D.store(before, Ordering::SeqCst);
    }
    for f in alloc::take_faults() {
        out.oracle_fail(FAULT, &f);
    }
    out.count(&format!("shared-threads stress rounds={}", rounds));
    out.nontrivial();
}

// ---------------------------------------------------------------------------------------------
// type probes (round 3, after seed C14-6): "no safe sequence of operations reads memory that has been released" has a
// compile-time half that no run of the harness can see — every borrow the harness makes is `'static`. Each probe is a
// small SAFE program that must be REFUSED by rustc (a borrowed value outliving what it borrows; a value with
// thread-unsafe elements crossing threads); its control variant must compile. They are type-checked against the
// `metrics` rlib this harness was linked with (same mechanism as C01's probes).

struct TProbe {
    name: &'static str,
    body: &'static str,
    control: &'static str,
    codes: &'static [&'static str],
    what: &'static str,
}

const TPROBES: &[TProbe] = &[
    TProbe {
        name: "from_borrowed(&local) returned as a 'static SharedString",
        body: "pub fn f() -> metrics::SharedString { let local = String::from(\"request-42\"); metrics::SharedString::from_borrowed(local.as_str()) }",
        control: "pub fn f(s: &'static str) -> metrics::SharedString { metrics::SharedString::from_borrowed(s) }",
        codes: &["E0515", "E0597", "E0521", "E0716"],
        what: "safe Rust accepts a 'static SharedString borrowed from a local String (from_borrowed no longer ties the value to the borrow): reading it after the String is freed reads released memory",
    },
    TProbe {
        name: "const_str(&local) returned as a 'static SharedString",
        body: "pub fn f() -> metrics::SharedString { let local = String::from(\"x\"); metrics::SharedString::const_str(local.as_str()) }",
        control: "pub fn f(s: &'static str) -> metrics::SharedString { metrics::SharedString::const_str(s) }",
        codes: &["E0515", "E0597", "E0521", "E0716"],
        what: "safe Rust accepts a 'static SharedString made by const_str from a local String",
    },
    TProbe {
        name: "borrowed str outlives its owner inside one function",
        body: "pub fn f() -> usize { let c; { let local = String::from(\"abc\"); c = metrics::verif_cow::Cow::<str>::from_borrowed(local.as_str()); } c.len() }",
        control: "pub fn f() -> usize { let local = String::from(\"abc\"); let c = metrics::verif_cow::Cow::<str>::from_borrowed(local.as_str()); c.len() }",
        codes: &["E0597", "E0505"],
        what: "safe Rust accepts reading a borrowed Cow<str> after the String it borrows from was dropped",
    },
    TProbe {
        name: "const_slice(&local_vec) returned as a 'static label slice",
        body: "pub fn f() -> metrics::verif_cow::Cow<'static, [metrics::Label]> { let v = vec![metrics::Label::new(\"a\", \"b\")]; metrics::verif_cow::Cow::const_slice(&v[..]) }",
        control: "pub fn f(v: &'static [metrics::Label]) -> metrics::verif_cow::Cow<'static, [metrics::Label]> { metrics::verif_cow::Cow::const_slice(v) }",
        codes: &["E0515", "E0597", "E0521", "E0716"],
        what: "safe Rust accepts a 'static label slice borrowed from a local Vec (const_slice no longer ties the value to the borrow)",
    },
    TProbe {
        name: "from_borrowed(&local_vec[..]) returned as a 'static label slice",
        body: "pub fn f() -> metrics::verif_cow::Cow<'static, [metrics::Label]> { let v = vec![metrics::Label::new(\"a\", \"b\")]; metrics::verif_cow::Cow::from_borrowed(&v[..]) }",
        control: "pub fn f(v: &'static [metrics::Label]) -> metrics::verif_cow::Cow<'static, [metrics::Label]> { metrics::verif_cow::Cow::from_borrowed(v) }",
        codes: &["E0515", "E0597", "E0521", "E0716"],
        what: "safe Rust accepts a 'static label slice borrowed from a local Vec (from_borrowed no longer ties the value to the borrow)",
    },
    TProbe {
        name: "Key built from a borrowed local name",
        body: "pub fn f() -> metrics::Key { let local = String::from(\"n\"); metrics::Key::from_name(metrics::SharedString::from_borrowed(local.as_str())) }",
        control: "pub fn f() -> metrics::Key { let local = String::from(\"n\"); metrics::Key::from_name(metrics::SharedString::from_owned(local)) }",
        codes: &["E0515", "E0597", "E0521", "E0716"],
        what: "safe Rust accepts a Key whose name borrows a local String that is freed at the end of the function",
    },
    TProbe {
        name: "slice of Rc sent to another thread",
        body: "fn is_send<T: Send>() {} pub fn f() { is_send::<metrics::verif_cow::Cow<'static, [std::rc::Rc<u8>]>>() }",
        control: "fn is_send<T: Send>() {} pub fn f() { is_send::<metrics::verif_cow::Cow<'static, [u8]>>(); is_send::<metrics::SharedString>() }",
        codes: &["E0277"],
        what: "Cow<[Rc<u8>]> is Send: dropping it on another thread races the non-atomic reference counts of its elements",
    },
    TProbe {
        name: "slice of Cell shared between threads",
        body: "fn is_sync<T: Sync>() {} pub fn f() { is_sync::<metrics::verif_cow::Cow<'static, [std::cell::Cell<u8>]>>() }",
        control: "fn is_sync<T: Sync>() {} pub fn f() { is_sync::<metrics::verif_cow::Cow<'static, [u8]>>(); is_sync::<metrics::SharedString>() }",
        codes: &["E0277"],
        what: "Cow<[Cell<u8>]> is Sync: two threads can write its elements without synchronisation through a shared reference",
    },
    // round 6: a `Cow` is a `&T` or an `Arc<T>` — moving one to another thread leaves other paths to the same `T`s behind
    // (the caller's borrow, the other clones), so `Send` needs `T: Sync`; and a `&Cow` lets the other thread clone a Shared
    // value and become the last owner, so `Sync` needs `T: Send` (the bounds of `Arc<T>`; Lean: `C14.sound_iff_arc_bounds`).
    // Each body is the complete safe witness program (REPORT.md (f): lost updates / heap corruption when run).
    TProbe {
        name: "shared slice of Cell cloned, one copy moved to another thread",
        body: "pub fn f() -> u64 { let arc: std::sync::Arc<[std::cell::Cell<u64>]> = vec![std::cell::Cell::new(0u64)].into(); let a = metrics::verif_cow::Cow::<[std::cell::Cell<u64>]>::from_shared(arc); let b = a.clone(); let t = std::thread::spawn(move || { for _ in 0..2000000 { b[0].set(b[0].get() + 1) } }); for _ in 0..2000000 { a[0].set(a[0].get() + 1) } t.join().unwrap(); a[0].get() }",
        control: "pub fn f() -> u64 { let arc: std::sync::Arc<[u64]> = vec![0u64].into(); let a = metrics::verif_cow::Cow::<[u64]>::from_shared(arc); let b = a.clone(); let t = std::thread::spawn(move || b[0] + 1); t.join().unwrap() + a[0] }",
        codes: &["E0277"],
        what: "Cow<[Cell<u64>]> is Send although Cell is not Sync: a Shared value is cloned and one copy moved to another thread; both threads read-modify-write the same Cell through &Cell without synchronisation (data race in safe code; with RefCell<String> elements two &mut String: double free / heap corruption)",
    },
    TProbe {
        name: "borrowed slice of RefCell<String> moved into a scoped thread while the owner keeps using it",
        body: "pub fn f() { let cells = vec![std::cell::RefCell::new(String::new())]; let c = metrics::verif_cow::Cow::<[std::cell::RefCell<String>]>::from_borrowed(&cells[..]); std::thread::scope(|s| { s.spawn(move || c[0].borrow_mut().push('x')); cells[0].borrow_mut().push('y'); }) }",
        control: "pub fn f() -> usize { let cells = vec![String::new()]; let c = metrics::verif_cow::Cow::<[String]>::from_borrowed(&cells[..]); std::thread::scope(|s| { let h = s.spawn(move || c[0].len()); cells[0].len() + h.join().unwrap() }) }",
        codes: &["E0277"],
        what: "Cow<[RefCell<String>]> is Send although RefCell is not Sync: a Borrowed value (a &[RefCell<String>]) is moved into a scoped thread while the owner keeps its own access; both threads obtain &mut String from the same RefCell (its borrow flag is not atomic)",
    },
    TProbe {
        name: "&Cow of Sync + !Send elements handed to another thread",
        body: "pub struct G(Option<std::sync::MutexGuard<'static, ()>>); impl Clone for G { fn clone(&self) -> G { G(None) } } pub fn f(c: &metrics::verif_cow::Cow<'static, [G]>) { std::thread::scope(|s| { s.spawn(move || { let mine = c.clone(); std::mem::forget(mine) }); }) }",
        control: "pub struct G(Option<std::sync::MutexGuard<'static, ()>>); impl Clone for G { fn clone(&self) -> G { G(None) } } pub fn f(c: &metrics::verif_cow::Cow<'static, [G]>) { std::thread::scope(|s| { s.spawn(move || { let g: &G = &G(None); let _ = g; }); }); let mine = c.clone(); drop(mine) }",
        codes: &["E0277"],
        what: "Cow<[G]> is Sync for G: Sync + !Send (G holds a MutexGuard): another thread clones a Shared value through &Cow (an Arc increment) and can drop the last reference, destroying !Send objects on a thread that did not create them (a MutexGuard unlocked by a thread that does not hold the lock)",
    },
];

// ---------------------------------------------------------------------------------------------
// auto-trait decision table (round 6): for element types with each combination of `Send` / `Sync`, is `Cow<'static, [E]>`
// `Send`? `Sync`?  The compiler's answer (type-checked against the `metrics` rlib of this harness) is the implementation
// side of the op `cow autotrait <E: Send> <E: Sync>`; the model side is `CowSend.Bound.admits` on the bounds the
// translator read from cow.rs.  Independent oracle, taken from the standard library and not from the model: `Cow<[E]>`
// must not be `Send` (`Sync`) unless `Arc<[E]>` is — the Shared kind IS an `Arc<[E]>`.
const AT_PRELUDE: &str = "#![allow(dead_code, unused_variables)]\npub struct G(Option<std::sync::MutexGuard<'static, ()>>); impl Clone for G { fn clone(&self) -> G { G(None) } }\nfn is_send<T: Send>() {} fn is_sync<T: Sync>() {}\n";
const AT_ELEMS: &[(&str, bool, bool)] =
    &[("u8", true, true), ("std::cell::Cell<u8>", true, false), ("G", false, true), ("std::rc::Rc<u8>", false, false), ("metrics::Label", true, true), ("std::cell::RefCell<String>", true, false)];

fn auto_trait_table(out: &mut Out) {
    let dir = out.dir.join("probes");
    std::fs::create_dir_all(&dir).expect("probe dir");
    // per element type: [Cow Send, Cow Sync, Arc Send, Arc Sync, E Send, E Sync]
    let results: Vec<Vec<Result<(), String>>> = std::thread::scope(|s| {
        let hs: Vec<_> = AT_ELEMS
            .iter()
            .enumerate()
            .map(|(i, (e, _, _))| {
                let dir = dir.clone();
                s.spawn(move || {
                    let tys = [format!("metrics::verif_cow::Cow<'static, [{}]>", e), format!("std::sync::Arc<[{}]>", e), e.to_string()];
                    let mut r = Vec::new();
                    for (j, ty) in tys.iter().enumerate() {
                        for (k, f) in ["is_send", "is_sync"].iter().enumerate() {
                            r.push(crate::c01::rustc_check(&dir, &format!("c14auto{}_{}_{}", i, j, k), &format!("{}pub fn f() {{ {}::<{}>() }}\n", AT_PRELUDE, f, ty)));
                        }
                    }
                    r
                })
            })
            .collect();
        hs.into_iter().map(|h| h.join().expect("auto-trait probe thread")).collect()
    });
    out.case("auto-trait decision table: Cow<[E]> against the bounds read from cow.rs and against Arc<[E]>");
    out.nontrivial();
    for ((e, esend, esync), r) in AT_ELEMS.iter().zip(results) {
        let yes: Vec<bool> = r
            .iter()
            .map(|x| match x {
                Ok(()) => true,
                Err(m) if m.contains("[E0277]") => false,
                Err(m) => panic!("auto-trait probe for `{}`: rustc refused the program for an unexpected reason:\n{}", e, m),
            })
            .collect();
        let (cow_send, cow_sync, arc_send, arc_sync) = (yes[0], yes[1], yes[2], yes[3]);
        // the harness's own labelling of the element type must be the compiler's
        assert_eq!((yes[4], yes[5]), (*esend, *esync), "auto traits of the probe element type `{}`", e);
        out.count(&format!("autotrait E:Send={} E:Sync={}", *esend as u8, *esync as u8));
        out.op(&format!("cow autotrait {} {}", *esend as u8, *esync as u8), &format!("send={} sync={}", cow_send as u8, cow_sync as u8));
        if cow_send && !arc_send {
            out.oracle_fail(
                "Cow<[E]> is Send for an element type for which Arc<[E]> is not (the Shared kind is an Arc<[E]>, the Borrowed kind a &[E]): safe code can give two threads &E to the same elements, or drop E on a foreign thread",
                &format!("E = {} (E: Send = {}, E: Sync = {}); rustc accepts: fn is_send<T: Send>() {{}} pub fn f() {{ is_send::<metrics::verif_cow::Cow<'static, [{}]>>() }} and refuses the same for std::sync::Arc<[{}]>", e, esend, esync, e, e),
            );
        }
        if cow_sync && !arc_sync {
            out.oracle_fail(
                "Cow<[E]> is Sync for an element type for which Arc<[E]> is not: through &Cow another thread can clone a Shared value and drop the last reference (E destroyed on a foreign thread), or reach &E of elements that are not Sync",
                &format!("E = {} (E: Send = {}, E: Sync = {}); rustc accepts: fn is_sync<T: Sync>() {{}} pub fn f() {{ is_sync::<metrics::verif_cow::Cow<'static, [{}]>>() }} and refuses the same for std::sync::Arc<[{}]>", e, esend, esync, e, e),
            );
        }
        // and it must not be needlessly strict either: thread-safe elements make a thread-safe value (clause "can be sent")
        if (arc_send && !cow_send) || (arc_sync && !cow_sync) {
            out.oracle_fail(
                "Cow<[E]> is not Send / Sync although its elements are Send + Sync: values cannot be sent to and dropped on other threads",
                &format!("E = {}: Cow Send = {}, Sync = {}; Arc<[E]> Send = {}, Sync = {}", e, cow_send, cow_sync, arc_send, arc_sync),
            );
        }
    }
}

fn type_probes(out: &mut Out) {
    let dir = out.dir.join("probes");
    std::fs::create_dir_all(&dir).expect("probe dir");
    let results: Vec<(Result<(), String>, Result<(), String>)> = std::thread::scope(|s| {
        let hs: Vec<_> = TPROBES
            .iter()
            .enumerate()
            .map(|(i, p)| {
                let dir = dir.clone();
                s.spawn(move || {
                    let pre = "#![allow(dead_code, unused_variables)]\n";
                    let c = crate::c01::rustc_check(&dir, &format!("c14probe{}_control", i), &format!("{}{}\n", pre, p.control));
                    let b = crate::c01::rustc_check(&dir, &format!("c14probe{}", i), &format!("{}{}\n", pre, p.body));
                    (c, b)
                })
            })
            .collect();
        hs.into_iter().map(|h| h.join().expect("probe thread")).collect()
    });
    for (p, (control, body)) in TPROBES.iter().zip(results) {
        out.case(&format!("type probe: {}", p.name));
        out.count("type_probe");
        out.nontrivial();
        if let Err(e) = &control {
            panic!("type probe `{}`: the LEGAL control program does not compile — harness/toolchain problem:\n{}", p.name, e);
        }
        match &body {
            Ok(()) => out.oracle_fail(p.what, &format!("rustc accepts: {}", p.body)),
            Err(e) if p.codes.iter().any(|c| e.contains(&format!("[{}]", c))) => out.count("type_probe.rejected"),
            Err(e) => panic!("type probe `{}`: rustc refused the program for an unexpected reason (expected one of {:?}):\n{}", p.name, p.codes, e),
        }
    }
}

pub fn run(cfg: &Cfg, out: &mut Out) {
    type_probes(out);
    auto_trait_table(out);
    not_auto::assert_bounds();
    alloc::install();
    out.case("stream D: into_owned racing Weak::upgrade (stress)");
    stress_weak_upgrade(out, if cfg.thorough { 3000 } else { 400 });
    out.case("stream E: shared values cloned / converted / dropped / sent by several threads (stress)");
    alloc::start();
    stress_shared_threads(out, if cfg.thorough { 400 } else { 60 }, cfg.seed);
    alloc::stop();
    let root = Rng::new(cfg.seed);
    let mut sr = root.fork(0xC14);
    let bst = b_statics(&mut sr);
    let cst = c_statics(&mut sr);

    let one = |out: &mut Out, tag: String, r: &mut Rng, stream: usize, corpus: Option<usize>| {
        out.case(&tag);
        out.count(&format!("stream:{}", ["str", "labels", "slice"][stream]));
        alloc::set_poison(if stream == 1 { 0x00 } else { 0xDD });
        alloc::start();
        let res = catch_unwind(AssertUnwindSafe(|| {
            let which = match corpus {
                Some(k) => Which::Corpus(k),
                None => Which::Random,
            };
            match stream {
                0 => case_str(out, r, which),
                1 => case_labels(out, r, which, &bst),
                _ => case_slice(out, r, which, &cst),
            }
        }));
        alloc::stop();
        if let Err(e) = res {
            out.oracle_fail("panic in code under test", &panic_msg(&e));
        }
        // faults raised while a panicking case unwound
        for f in alloc::take_faults() {
            out.oracle_fail(FAULT, &f);
        }
    };

    // corpus
    for k in 1..=12usize {
        let stream = match k {
            5 => 1,
            7..=12 => 2,
            _ => 0,
        };
        let mut r = root.fork(1_000_000 + k as u64);
        one(out, format!("corpus={} {}", k, ["str", "labels", "slice"][stream]), &mut r, stream, Some(k));
    }
    for i in 0..cfg.cases {
        let mut r = root.fork(i as u64);
        let stream = match r.below(10) {
            0..=4 => 0,
            5..=7 => 1,
            _ => 2,
        };
        one(out, format!("seed={} i={} {}", cfg.seed, i, ["str", "labels", "slice"][stream]), &mut r, stream, None);
    }
}
