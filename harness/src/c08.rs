//! C08 — Prometheus output is well-formed exposition text for any input strings.
//!
//! Stream A (correspondence): the public `formatting` functions on hostile strings, byte-for-byte
//! against the Lean model (`c08 …` ops).
//! Stream B (implementation-side oracle + correspondence through the `prom` model, see prom.rs):
//! whole `render()` outputs read by the strict exposition reader in expo.rs.

use crate::util::*;
use metrics::Unit;
use metrics_exporter_prometheus::formatting as f;

pub const UNITS: [Unit; 17] = [
    Unit::Count,
    Unit::Percent,
    Unit::Seconds,
    Unit::Milliseconds,
    Unit::Microseconds,
    Unit::Nanoseconds,
    Unit::Tebibytes,
    Unit::Gibibytes,
    Unit::Mebibytes,
    Unit::Kibibytes,
    Unit::Bytes,
    Unit::TerabitsPerSecond,
    Unit::GigabitsPerSecond,
    Unit::MegabitsPerSecond,
    Unit::KilobitsPerSecond,
    Unit::BitsPerSecond,
    Unit::CountPerSecond,
];

pub fn unit_tok(u: Option<Unit>) -> String {
    match u {
        Some(u) => u.as_str().to_string(),
        None => "~".to_string(),
    }
}

fn class_of(s: &str) -> &'static str {
    if s.is_empty() {
        "empty"
    } else if s.contains('\n') {
        "newline"
    } else if s.contains('\\') {
        "backslash"
    } else if s.contains('"') {
        "quote"
    } else if !s.is_ascii() {
        "nonascii"
    } else {
        "plain"
    }
}


// ---------------------------------------------------------------------------------------------
// wide alphabet (added after seed C08-4: a predicate written with a non-ASCII `char::is_*` method is only
// visible on characters on which it differs from its `is_ascii_*` twin)

/// `char::is_numeric` but not an ASCII digit (general categories Nd, Nl, No)
pub const NUMERIC: &[char] = &[
    '²', '³', '¹', '¼', '½', '¾', '٠', '٣', '۴', '५', '৩', '๓', '０', '５', '９', 'Ⅷ', 'ⅷ', 'Ⅻ', '①', '⑳', '⒈', '〇',
    '〡', '\u{1d7d8}', '\u{1d7ff}', '\u{10107}', '\u{11066}',
];
/// `char::is_alphabetic` but not ASCII (incl. characters whose case mapping is ASCII: Kelvin sign, long s)
pub const ALPHA: &[char] = &[
    'é', 'ß', 'λ', 'Ω', '日', 'ａ', 'Ｚ', '\u{212a}', 'ſ', 'İ', 'ı', 'ª', 'º', 'ǅ', 'ʰ', 'ᴬ', '\u{1d400}', 'я', 'ا',
];
/// `char::is_whitespace` / line-breaking characters other than blank, tab, LF, CR
pub const SPACE: &[char] = &[
    '\u{b}', '\u{c}', '\u{85}', '\u{a0}', '\u{1680}', '\u{2000}', '\u{2003}', '\u{200a}', '\u{2028}', '\u{2029}',
    '\u{202f}', '\u{205f}', '\u{3000}', '\u{1c}', '\u{1e}',
];
/// look-alikes of the delimiters of the format
pub const LOOKALIKE: &[char] = &[
    '＿', '：', '＂', '＼', '∖', '﹨', '″', '“', '”', '‘', '’', '＇', '｛', '｝', '，', '＝', '＃', '﹟', '․',
];
/// format characters, non-characters, plane boundaries, encoding-length boundaries
pub const OTHER: &[char] = &[
    '\u{feff}', '\u{200b}', '\u{200d}', '\u{ad}', '\u{301}', '\u{fffd}', '\u{ffff}', '\u{fffe}', '\u{10ffff}',
    '\u{e000}', '\u{d7ff}', '\u{10000}', '🦀', '\u{1f600}', '\u{80}', '\u{9f}', '\u{ff}', '\u{100}', '\u{7ff}',
    '\u{800}', '\u{0}', '\u{7f}', '\u{1b}',
];

fn hostile_char(r: &mut Rng) -> char {
    match r.weighted(&[4, 3, 2, 2, 2, 2, 1]) {
        0 => (r.below(0x80) as u8) as char, // every ASCII character, incl. all punctuation and C0 controls
        1 => *r.pick(NUMERIC),
        2 => *r.pick(ALPHA),
        3 => *r.pick(SPACE),
        4 => *r.pick(LOOKALIKE),
        5 => *r.pick(OTHER),
        _ => loop {
            // any Unicode scalar value
            if let Some(c) = char::from_u32(r.below(0x11_0000) as u32) {
                break c;
            }
        },
    }
}

const WORDS: &[&str] = &["a", "b", "lat", "reqs", "x_1", "Total", "http", "ns", "le", "quantile", "A9", "__name__", ":"];

/// Superset of `util::wild_string`: the old classes, plus strings over the wide alphabet, random scalar
/// values, long strings (hostile characters at positions ≥ 64 and at the very end) and single hostile
/// characters in leading / inner / trailing position.
pub fn hostile_string(r: &mut Rng, nonempty: bool) -> String {
    let mut s = String::new();
    match r.weighted(&[5, 5, 2, 3, 3, 1]) {
        0 => return wild_string(r, nonempty),
        // a long string with hostile characters straddling a plausible limit (up to 4 KiB here: these strings also
        // become metric names / label names / descriptions of whole sessions; the larger limits are in `long_inputs`)
        5 => {
            let limit = LIMITS[r.weighted(&[3, 3, 3, 3, 6, 6, 3, 3, 3, 6, 6, 1, 1, 1, 1])];
            return boundary_string(r, limit);
        }
        1 => {
            for _ in 0..r.range(1, 10) {
                match r.below(3) {
                    0 => s.push_str(r.pick_str(WORDS)),
                    _ => s.push(hostile_char(r)),
                }
            }
        }
        2 => {
            for _ in 0..r.range(1, 8) {
                s.push(hostile_char(r));
            }
        }
        3 => {
            let ident: Vec<char> = "abcxyzABZ019_:".chars().collect();
            let len = r.range(50, 300);
            let mut cs: Vec<char> = (0..len).map(|_| *r.pick(&ident)).collect();
            for _ in 0..r.range(1, 6) {
                let pos = match r.below(4) {
                    0 => len - 1,
                    1 => r.below(len),
                    _ => 64.min(len - 1) + r.below(len - 64.min(len - 1)),
                };
                cs[pos] = match r.below(4) {
                    0 => *r.pick(&['\\', '"', '\n']),
                    _ => hostile_char(r),
                };
            }
            s = cs.into_iter().collect();
        }
        _ => {
            if r.chance(1, 2) {
                s.push_str(r.pick_str(WORDS));
            }
            s.push(hostile_char(r));
            if r.chance(1, 2) {
                s.push_str(r.pick_str(WORDS));
            }
        }
    }
    if nonempty && s.is_empty() {
        s.push_str(r.pick_str(WORDS));
    }
    s
}

// ---------------------------------------------------------------------------------------------
// long inputs (added after seed C08-6: a cap applied to the escaped text cuts an escape pair in half — visible
// only on a value whose escaped form crosses the cap with an escape pair on the boundary)

/// byte lengths at which a cap, a buffer size or a length field could plausibly bite (`limit - 1` / `limit` pairs
/// of the powers of two, and the decimal round numbers)
pub const LIMITS: &[usize] = &[
    63, 64, 127, 128, 255, 256, 511, 512, 1000, 1023, 1024, 2047, 2048, 4095, 4096, // ..15: also in `hostile_string`
    8191, 8192, 10000, 16383, 16384, 32767, 32768, 65535, 65536, 100_000, 131_071, 131_072,
];

/// `n` bytes of filler: as many `f` as fit, the rest `z`
fn fill(s: &mut String, f: char, n: usize) {
    let k = n / f.len_utf8();
    s.extend(std::iter::repeat(f).take(k));
    s.extend(std::iter::repeat('z').take(n - k * f.len_utf8()));
}

/// A string in which a short hostile piece (escape-needing characters first of all) begins within a few bytes of
/// byte offset `limit`, the offset counted in the raw string or in its escaped form (they differ when escapes
/// precede the filler); filler of 1-, 2-, 3- or 4-byte characters.
pub fn boundary_string(r: &mut Rng, limit: usize) -> String {
    let special = ['\\', '"', '\n'];
    let mut piece = String::new();
    match r.below(5) {
        0 => piece.push(*r.pick(&special)),
        1 => {
            piece.push(*r.pick(&special));
            piece.push(*r.pick(&special));
        }
        2 => {
            piece.push(*r.pick(&special));
            piece.push(hostile_char(r));
        }
        3 => {
            for _ in 0..r.range(2, 6) {
                piece.push(*r.pick(&special));
            }
        }
        _ => {
            for _ in 0..r.range(1, 4) {
                piece.push(hostile_char(r));
            }
        }
    }
    let lead = *r.pick(&[0usize, 0, 0, 1, 2, 3, 7]);
    let f = *r.pick(&['a', 'a', 'a', 'a', 'x', 'é', '日', '🦀']);
    let delta = r.range(0, 5) as isize - 4; // -4 ..= +1
    let at = (limit as isize + delta).max(0) as usize;
    // leading escapes: each is 1 raw byte and 2 escaped bytes
    let before = if r.chance(1, 2) { lead } else { 2 * lead };
    let mut s = String::with_capacity(at + 32);
    for _ in 0..lead {
        s.push(*r.pick(&['\n', '"']));
    }
    fill(&mut s, f, at.saturating_sub(before));
    s.push_str(&piece);
    match r.below(5) {
        0 => {}
        1 => s.push('b'),
        2 => fill(&mut s, f, 9),
        3 => {
            s.push('b');
            s.push(*r.pick(&special));
        }
        _ => {
            // a second piece at the next limit up (a value that crosses two limits)
            let l2 = 2 * (limit + 1);
            let have = s.len();
            if l2 > have + 2 && l2 <= 8200 {
                fill(&mut s, f, l2 - have - 2);
                s.push(*r.pick(&special));
                s.push('c');
            }
        }
    }
    s
}

/// run-length description of a string, exact and short for the strings made here: `'a'×1023 '"' 'b'`
pub fn rle(s: &str) -> String {
    let mut o = String::new();
    let mut it = s.chars().peekable();
    let mut runs = 0;
    while let Some(c) = it.next() {
        let mut n = 1usize;
        while it.peek() == Some(&c) {
            it.next();
            n += 1;
        }
        runs += 1;
        if runs > 48 {
            o.push_str(&format!(" … ({} bytes in all; full hex in the case's ops)", s.len()));
            break;
        }
        if !o.is_empty() {
            o.push(' ');
        }
        if n == 1 {
            o.push_str(&format!("{:?}", c));
        } else {
            o.push_str(&format!("{:?}×{}", c, n));
        }
    }
    if o.is_empty() {
        o.push_str("(empty)");
    }
    o
}

/// head … tail of a long text (the tail is where a cut shows)
pub fn clip(s: &str) -> String {
    let cs: Vec<char> = s.chars().collect();
    if cs.len() <= 420 {
        return s.to_string();
    }
    format!(
        "{} …[{} chars]… {}",
        cs[..140].iter().collect::<String>(),
        cs.len() - 380,
        cs[cs.len() - 240..].iter().collect::<String>()
    )
}

/// The character-wise escape written from the format description: LF ↦ `\n`, `\` ↦ `\\`, `"` ↦ `\"` (label values
/// only). The exporter deliberately reads a backslash that is followed by `\`, `"` or LF as an escape the caller
/// already wrote, so the reference applies (`Some`) only when every backslash is followed by an ordinary
/// character or ends the string — which is the case for what `long_inputs` builds.
fn reference_escape(s: &str, is_desc: bool) -> Option<String> {
    let mut o = String::with_capacity(s.len() + 16);
    let mut it = s.chars().peekable();
    while let Some(c) = it.next() {
        match c {
            '\\' => {
                if matches!(it.peek(), Some('\\') | Some('"') | Some('\n')) {
                    return None;
                }
                o.push_str("\\\\");
            }
            '\n' => o.push_str("\\n"),
            '"' if !is_desc => o.push_str("\\\""),
            c => o.push(c),
        }
    }
    Some(o)
}

/// Implementation-side oracles on the two escapers for one input of any length. Returns false if one fired.
///  * the value stays inside its quotes / the docstring inside its line (strict reader);
///  * nothing is cut off or blown up: `n ≤ chars(out) ≤ 2n` (Lean: `C08.escape_length`);
///  * where the reference applies, the output IS the character-wise escape (Lean: `C08.escape_append`,
///    `escape_boundary`, `escape_flatMap`).
fn escape_oracles(out: &mut Out, s: &str) -> bool {
    let a = escape_oracles_part(out, s, true);
    let b = escape_oracles_part(out, s, false);
    a && b
}

/// `wellformed`: only the reader oracle (the clause of the property proper); else the faithfulness oracles
fn escape_oracles_part(out: &mut Out, s: &str, wellformed: bool) -> bool {
    let mut ok = true;
    let n = s.chars().count();
    if !wellformed && n > 0 {
        // the name sanitizers map character by character (Lean: `C08.name_length`), at any length
        let (m, l) = (f::sanitize_metric_name(s), f::sanitize_label_key(s));
        if m.chars().count() != n || l.chars().count() != n || !crate::expo::is_metric_name(&m) || !crate::expo::is_label_name(&l) {
            ok = false;
            out.oracle_fail(
                "sanitize_metric_name / sanitize_label_key: long input: not one grammar character per input character",
                &format!("input ({} chars) {} -> name {} chars, label name {} chars", n, rle(s), m.chars().count(), l.chars().count()),
            );
        }
    }
    for is_desc in [false, true] {
        let (fname, v) = if is_desc { ("sanitize_description", f::sanitize_description(s)) } else { ("sanitize_label_value", f::sanitize_label_value(s)) };
        let line = if is_desc { format!("# HELP m {}", v) } else { format!("m{{k=\"{}\"}} 1", v) };
        let reads = match crate::expo::parse_line(&line) {
            Ok(crate::expo::PLine::Sample { ref labels, .. }) if !is_desc => labels.len() == 1 && labels[0].1 == v,
            Ok(crate::expo::PLine::Help { ref doc, .. }) if is_desc => *doc == v,
            _ => false,
        };
        if wellformed && !reads {
            ok = false;
            let what = if is_desc { "sanitize_description: docstring leaves its line" } else { "sanitize_label_value: value escapes its quotes" };
            out.oracle_fail(
                what,
                &format!("input ({} bytes) {} -> output ({} bytes) ends {:?} :: reader: {}", s.len(), rle(s), v.len(), tail_of(&v), clip(&format!("{:?}", crate::expo::parse_line(&line)))),
            );
        }
        if wellformed {
            continue;
        }
        let m = v.chars().count();
        if m < n || m > 2 * n {
            ok = false;
            out.oracle_fail(
                &format!("{}: output length outside [n, 2n] characters (something was cut off or added)", fname),
                &format!("input ({} chars, {} bytes) {} -> {} chars, {} bytes, ends {:?}", n, s.len(), rle(s), m, v.len(), tail_of(&v)),
            );
        }
        if let Some(want) = reference_escape(s, is_desc) {
            if v != want {
                ok = false;
                let common = v.bytes().zip(want.bytes()).take_while(|(a, b)| a == b).count();
                out.oracle_fail(
                    &format!("{}: not the character-wise escape of the input", fname),
                    &format!(
                        "input ({} bytes) {} -> {} bytes, wanted {} bytes; first difference at byte {}; output ends {:?}, wanted {:?}",
                        s.len(), rle(s), v.len(), want.len(), common, tail_of(&v), tail_of(&want)
                    ),
                );
            }
        }
    }
    ok
}

fn tail_of(s: &str) -> String {
    let cs: Vec<char> = s.chars().collect();
    cs[cs.len().saturating_sub(12)..].iter().collect()
}

fn limit_prom_text(unit_suffix: bool, globals: &[(String, String)], hist: bool) -> String {
    format!(
        "prom new {} {} {} . {}",
        unit_suffix as u8,
        pairs(globals),
        if hist { "0+1024" } else { "~" },
        list(["0", "0.5", "0.9", "0.95", "0.99", "0.999", "1"].iter().map(|q| hexs(q)))
    )
}

/// One whole recorder session with long strings: global label value `gv`, own label value `lv`, description `d`
/// on a counter, a gauge and a distribution; `render()` goes through the strict reader (every line, every
/// family) and — the same ops — through the Lean recorder model.
fn long_session(out: &mut Out, model: bool, hist: bool, gv: &str, lv: &str, d: &str) {
    static META: metrics::Metadata<'static> = metrics::Metadata::new("mv", metrics::Level::INFO, None);
    use metrics::Recorder;
    let globals = vec![("zone".to_string(), gv.to_string())];
    let mut b = metrics_exporter_prometheus::PrometheusBuilder::new().add_global_label("zone", gv);
    if hist {
        b = b.set_buckets(&[0.0, 1.0]).unwrap();
    }
    let rec = b.build_recorder();
    let handle = rec.handle();
    let op = |out: &mut Out, o: &str, a: &str| {
        if model {
            out.op(o, a);
        }
    };
    op(out, &limit_prom_text(false, &globals, hist), "ok");
    let labels = vec![("path".to_string(), lv.to_string())];
    let mk = |name: &str| {
        metrics::Key::from_parts(
            name.to_string(),
            labels.iter().map(|(k, v)| metrics::Label::new(k.clone(), v.clone())).collect::<Vec<_>>(),
        )
    };
    rec.describe_counter(metrics::KeyName::from("c"), None, d.to_string().into());
    op(out, &format!("prom describe {} ~ {}", hexs("c"), hexs(d)), "ok");
    rec.register_counter(&mk("c"), &META).increment(3);
    op(out, &format!("prom cinc {} {} 3", hexs("c"), pairs(&labels)), "ok");
    rec.register_gauge(&mk("g"), &META).set(crate::prom::dy(512));
    op(out, &format!("prom gset {} {} d512", hexs("g"), pairs(&labels)), "ok");
    rec.register_histogram(&mk("h"), &META).record(crate::prom::dy(1024));
    op(out, &format!("prom hrec {} {} 1024", hexs("h"), pairs(&labels)), "ok");
    let text = handle.render();
    op(out, "prom render", &crate::prom::canonical(&text));
    out.nontrivial();
    let inputs = format!("global label zone = {} ; own label path = {} ; description of c = {}", rle(gv), rle(lv), rle(d));
    match crate::expo::check_exposition(&text) {
        Ok(fams) => {
            let nsamples: usize = fams.iter().map(|f| f.samples.len()).sum();
            let want_samples = if hist { 2 + 5 } else { 2 + 9 };
            if fams.len() != 3 || nsamples != want_samples {
                out.oracle_fail(
                    "render(): long strings: not the 3 families / all their samples",
                    &format!("{} families, {} samples (wanted 3, {}) :: {}", fams.len(), nsamples, want_samples, inputs),
                );
            }
            // every sample carries both labels with the character-wise escape of what was given
            let (wg, wl) = (reference_escape(gv, false), reference_escape(lv, false));
            for fam in &fams {
                for (sn, ls, _) in &fam.samples {
                    let got_g = ls.iter().find(|(k, _)| k == "zone").map(|(_, v)| v.clone());
                    let got_l = ls.iter().find(|(k, _)| k == "path").map(|(_, v)| v.clone());
                    let bad_g = got_g.is_none() || wg.as_ref().map_or(false, |w| got_g.as_ref() != Some(w));
                    let bad_l = got_l.is_none() || wl.as_ref().map_or(false, |w| got_l.as_ref() != Some(w));
                    if bad_g || bad_l {
                        out.oracle_fail(
                            "render(): a sample does not carry the escaped label value that was given",
                            &format!(
                                "sample {}: zone ends {:?} ({} bytes), path ends {:?} ({} bytes) :: {}",
                                sn,
                                got_g.as_deref().map(tail_of),
                                got_g.as_deref().map_or(0, |v| v.len()),
                                got_l.as_deref().map(tail_of),
                                got_l.as_deref().map_or(0, |v| v.len()),
                                inputs
                            ),
                        );
                        return;
                    }
                }
            }
            if let Some(wd) = reference_escape(d, true) {
                if !fams.iter().any(|f| f.name == "c" && f.help.as_deref() == Some(wd.as_str())) {
                    out.oracle_fail("render(): HELP text is not the escaped description", &inputs);
                }
            }
        }
        Err(e) => out.oracle_fail("render(): not well-formed exposition text", &format!("{} :: {}", clip(&e), inputs)),
    }
}

/// Long inputs, deterministic part (runs on every seed).
///  1. oracles only, EVERY length `n` in `0 ..= nmax`: `n` filler bytes, then `\`, `"` or LF, then nothing / `b`
///     (so every cap ≤ nmax applied to raw or escaped text is crossed with an escape pair on it), ASCII and
///     2-/3-/4-byte filler;
///  2. oracles only, around every entry of `LIMITS` (and up to 1 MiB in the thorough tier): offsets −3 … +2;
///  3. model correspondence (all formatting functions + `key_to_parts` with own and global labels) at the limit
///     pairs 255/256, 1023/1024, 4095/4096, 65535/65536, the escape pair before / on / after the limit in raw and
///     in escaped bytes;
///  4. whole recorder sessions (`render()`) with such values as global label, own label and description.
fn long_inputs(cfg: &Cfg, out: &mut Out) {
    let special = ['\\', '"', '\n'];
    let mut fired;
    // 1.
    out.case("long: every length, escape pair at the end (oracles)");
    let nmax = if cfg.thorough { 8400 } else { 1100 };
    let mut nstr = 0u64;
    // first pass: well-formedness of what is written (the property's clause); second pass: nothing cut off or altered
    for wellformed in [true, false] {
        fired = 0;
        for n in 0..=nmax {
            for (i, sp) in special.iter().enumerate() {
                let f = if n % 7 == 3 { ['é', '日', '🦀'][i] } else { 'a' };
                let mut s = String::with_capacity(n + 4);
                fill(&mut s, f, n);
                s.push(*sp);
                if (n + i) % 2 == 0 {
                    s.push('b');
                }
                nstr += 1;
                if fired < 4 && !escape_oracles_part(out, &s, wellformed) {
                    fired += 1;
                }
            }
        }
    }
    nstr /= 2;
    fired = 0;
    // 2.
    out.case("long: around every plausible limit (oracles)");
    let mut limits: Vec<usize> = LIMITS.to_vec();
    if cfg.thorough {
        limits.extend_from_slice(&[262_143, 262_144, 1_048_575, 1_048_576]);
    }
    for &l in &limits {
        for delta in -3isize..=2 {
            let at = (l as isize + delta) as usize;
            for (i, sp) in special.iter().enumerate() {
                // raw offset `at`; and escaped offset `at` (5 escapes in front: 5 raw bytes, 10 escaped)
                for lead in [0usize, 5] {
                    let mut s = String::with_capacity(at + 16);
                    for _ in 0..lead {
                        s.push('\n');
                    }
                    let f = if (delta + 3) as usize % 3 == i && lead == 0 { ['é', '日', '🦀'][i] } else { 'a' };
                    fill(&mut s, f, at.saturating_sub(2 * lead));
                    s.push(*sp);
                    if delta % 2 == 0 {
                        s.push_str("tail");
                    }
                    nstr += 1;
                    if fired < 12 && !escape_oracles(out, &s) {
                        fired += 1;
                    }
                }
            }
        }
    }
    out.count_n("long.oracle_strings", nstr);
    // 3.
    let model_limits: &[usize] = &[255, 256, 1023, 1024, 4095, 4096, 65535, 65536];
    for &l in model_limits {
        out.case(&format!("long: limit {} through the model", l));
        for (i, sp) in special.iter().enumerate() {
            // the escape pair's first byte at l-1 (pair straddles the limit) and at l
            for at in [l - 1, l] {
                let mut s = String::with_capacity(at + 8);
                let lead = if at == l { i } else { 0 };
                for _ in 0..lead {
                    s.push('"');
                }
                fill(&mut s, if l <= 4096 && i == 1 { 'é' } else { 'a' }, at - 2 * lead);
                s.push(*sp);
                if i != 0 {
                    s.push('b');
                }
                out.count("long.model_strings");
                out.op(&format!("c08 lval {}", hexs(&s)), &hexs(&f::sanitize_label_value(&s)));
                out.op(&format!("c08 desc {}", hexs(&s)), &hexs(&f::sanitize_description(&s)));
                if l <= 4096 || at == l - 1 {
                    out.op(&format!("c08 name {}", hexs(&s)), &hexs(&f::sanitize_metric_name(&s)));
                    out.op(&format!("c08 lkey {}", hexs(&s)), &hexs(&f::sanitize_label_key(&s)));
                    let mut b = String::new();
                    f::write_help_line(&mut b, "fam", &s);
                    out.op(&format!("c08 help {} {}", hexs("fam"), hexs(&s)), &hexs(&b));
                }
                escape_oracles(out, &s);
                // key_to_parts: the long value as own label, as global label, and as both (override)
                if at == l - 1 {
                    let klabels = vec![("path".to_string(), s.clone())];
                    let globals = vec![("zone".to_string(), s.clone()), ("path".to_string(), "short".to_string())];
                    let key = metrics::Key::from_parts("m", vec![metrics::Label::new("path", s.clone())]);
                    let gl: indexmap::IndexMap<String, String> = globals.iter().cloned().collect();
                    let (pn, pl) = f::key_to_parts(&key, Some(&gl));
                    out.op(
                        &format!("c08 parts {} {} {}", hexs("m"), pairs(&klabels), pairs(&globals)),
                        &format!("{} {}", hexs(&pn), list(pl.iter().map(|x| hexs(x)))),
                    );
                    match crate::expo::parse_line(&format!("m{{{}}} 1", pl.join(","))) {
                        Ok(crate::expo::PLine::Sample { ref labels, .. }) if labels.len() == 2 => {}
                        other => out.oracle_fail(
                            "key_to_parts: labels do not read back one by one",
                            &format!("label value (own label path, global label zone) {} :: reader: {}", rle(&s), clip(&format!("{:?}", other))),
                        ),
                    }
                }
                out.nontrivial();
            }
        }
    }
    // 4. (the model's exposition reader is quadratic in the length of a label value: the recorder model takes part up to
    // 4 KiB, beyond that the strict reader alone judges the text)
    let session_limits: &[usize] = if cfg.thorough { &[255, 256, 1023, 1024, 4095, 4096, 16383, 16384, 65535, 65536] } else { &[256, 1024, 4096, 16384, 65536] };
    for (j, &l) in session_limits.iter().enumerate() {
        let sp = special[j % 3];
        let mut long = String::new();
        fill(&mut long, 'a', l - 1);
        long.push(sp);
        long.push('b');
        let model = l <= 4096;
        let tag = if model { "" } else { " (strict reader only)" };
        out.case(&format!("long session: limit {} own label{}", l, tag));
        long_session(out, model, j % 2 == 0, "eu", &long, "d");
        out.case(&format!("long session: limit {} global label{}", l, tag));
        long_session(out, model, j % 2 == 1, &long, "v", "d");
        out.case(&format!("long session: limit {} description{}", l, tag));
        long_session(out, model, j % 2 == 0, "eu", "v", &long);
        out.count("long.sessions");
    }
}

fn unescape(s: &str, is_desc: bool) -> Option<String> {
    let mut o = String::new();
    let mut it = s.chars();
    while let Some(c) = it.next() {
        match c {
            '\\' => match it.next() {
                Some('\\') => o.push('\\'),
                Some('n') => o.push('\n'),
                Some('"') if !is_desc => o.push('"'),
                _ => return None,
            },
            '\n' => return None,
            '"' if !is_desc => return None,
            c => o.push(c),
        }
    }
    Some(o)
}

/// Exhaustive over single characters: EVERY Unicode scalar value in leading, inner and trailing position
/// through the two name sanitizers and the escaper (implementation-side oracles; at most 3 reports per
/// oracle), and contiguous blocks through the model (`quick`: U+0000–U+2FFF, the full-width forms, the
/// mathematical digits, the Aegean numbers; `thorough`: all 17 planes).
fn sweep(cfg: &Cfg, out: &mut Out) {
    out.case("sweep all scalar values");
    let mut reported: std::collections::BTreeMap<&'static str, u32> = Default::default();
    let mut fail = |out: &mut Out, what: &'static str, detail: String| {
        let n = reported.entry(what).or_insert(0);
        *n += 1;
        if *n <= 3 {
            out.oracle_fail(what, &detail);
        }
    };
    let mut n = 0u64;
    for cp in 0..0x11_0000u32 {
        let Some(c) = char::from_u32(cp) else { continue };
        n += 1;
        let ok_name = |c: char, first: bool| c == '_' || c == ':' || c.is_ascii_alphabetic() || (!first && c.is_ascii_digit());
        let ok_label = |c: char, first: bool| c == '_' || c.is_ascii_alphabetic() || (!first && c.is_ascii_digit());
        for (s, pos) in [(format!("{c}"), 0usize), (format!("a{c}b"), 1), (format!("ab{c}"), 2)] {
            let m = f::sanitize_metric_name(&s);
            let l = f::sanitize_label_key(&s);
            if !crate::expo::is_metric_name(&m) {
                fail(out, "sanitize_metric_name: not a metric name", format!("input {:?} (U+{:04X} at {}) -> {:?}", s, cp, pos, m));
            }
            if !crate::expo::is_label_name(&l) {
                fail(out, "sanitize_label_key: not a label name", format!("input {:?} (U+{:04X} at {}) -> {:?}", s, cp, pos, l));
            }
            // a character the grammar allows at its position is kept, any other becomes `_`, nothing is added or dropped
            let want_m: String = s.chars().enumerate().map(|(i, x)| if ok_name(x, i == 0) { x } else { '_' }).collect();
            let want_l: String = s.chars().enumerate().map(|(i, x)| if ok_label(x, i == 0) { x } else { '_' }).collect();
            if m != want_m {
                fail(out, "sanitize_metric_name: not 'keep valid characters, replace the others by _'", format!("input {:?} (U+{:04X}) -> {:?}", s, cp, m));
            }
            if l != want_l {
                fail(out, "sanitize_label_key: not 'keep valid characters, replace the others by _'", format!("input {:?} (U+{:04X}) -> {:?}", s, cp, l));
            }
            let v = f::sanitize_label_value(&s);
            match crate::expo::parse_line(&format!("m{{k=\"{}\"}} 1", v)) {
                Ok(crate::expo::PLine::Sample { ref labels, .. }) if labels.len() == 1 && labels[0].1 == v => {}
                other => fail(out, "sanitize_label_value: value escapes its quotes", format!("input {:?} (U+{:04X}) -> {:?} :: {:?}", s, cp, v, other)),
            }
            if unescape(&v, false).as_deref() != Some(s.as_str()) {
                fail(out, "sanitize_label_value: does not unescape to the input", format!("input {:?} (U+{:04X}) -> {:?}", s, cp, v));
            }
            let d = f::sanitize_description(&s);
            match crate::expo::parse_line(&format!("# HELP m {}", d)) {
                Ok(crate::expo::PLine::Help { ref doc, .. }) if *doc == d => {}
                other => fail(out, "sanitize_description: docstring leaves its line", format!("input {:?} (U+{:04X}) -> {:?} :: {:?}", s, cp, d, other)),
            }
            if unescape(&d, true).as_deref() != Some(s.as_str()) {
                fail(out, "sanitize_description: does not unescape to the input", format!("input {:?} (U+{:04X}) -> {:?}", s, cp, d));
            }
        }
    }
    out.count_n("sweep.scalars", n);
    let ranges: &[(u32, u32)] = if cfg.thorough {
        &[(0, 0x11_0000)]
    } else {
        &[(0, 0x3000), (0xff00, 0xfff0), (0x1d7c0, 0x1d800), (0x10100, 0x10140), (0x10_ff00, 0x11_0000)]
    };
    for (lo, hi) in ranges {
        let mut cp = *lo;
        while cp < *hi {
            let chunk: String = (cp..(cp + 256).min(*hi)).filter_map(char::from_u32).collect();
            cp += 256;
            if chunk.is_empty() {
                continue;
            }
            // non-leading position for every character of the block
            let s = format!("a{}", chunk);
            out.op(&format!("c08 name {}", hexs(&s)), &hexs(&f::sanitize_metric_name(&s)));
            out.op(&format!("c08 lkey {}", hexs(&s)), &hexs(&f::sanitize_label_key(&s)));
            out.op(&format!("c08 lval {}", hexs(&s)), &hexs(&f::sanitize_label_value(&s)));
            out.op(&format!("c08 desc {}", hexs(&s)), &hexs(&f::sanitize_description(&s)));
            out.count("sweep.model_blocks");
        }
    }
    out.nontrivial();
}

pub fn run(cfg: &Cfg, out: &mut Out) {
    let root = Rng::new(cfg.seed);
    // corpus first: past findings and the hand-picked nasty inputs
    let corpus: &[&str] = &[
        "",
        "\\",
        "\\\\",
        "\\\n",
        "\\\"",
        "\"",
        "\n",
        "a\\\nb\\",
        "x\"} 1\n# TYPE evil counter\nevil 1\n",
        "9abc",
        ":ok",
        "é",
        "a\u{0}b",
        "\\\\\\",
        "\\n",
        "\\\\n\"",
        // non-ASCII numerics / letters / white space in non-leading position (seed C08-4 and its class)
        "x²",
        "a½b٣c５dⅧ",
        "²x",
        "k\u{212a}ſ",
        "a\u{2029}b\u{b}c\u{c}d\u{85}e",
        "it's $5 (50%) <b>&amp;</b> [x] ^~`!*+;?",
        "＂＼ｎ",
    ];
    out.case("corpus");
    for s in corpus {
        emit_fn_ops(out, s);
    }
    // a long string: hostile characters beyond position 64 and at the very end
    let long: String = format!("{}\\\"\n²{}\\", "a".repeat(70), "b9".repeat(100));
    emit_fn_ops(out, &long);
    // number texts: every numerator with up to 10 fractional bits around 0, and the edges of the range
    for n in (-2050i64..=2050).chain([4095, 4096, 4097, 1 << 20, (1 << 20) + 1, (1 << 30) + 513, (1 << 31) - 1, -(1 << 31) + 1]) {
        letext_op(out, n);
    }
    long_inputs(cfg, out);
    sweep(cfg, out);
    let floats: Vec<String> = [
        f64::INFINITY, f64::NEG_INFINITY, f64::NAN, -0.0, f64::MAX, f64::MIN_POSITIVE, 5e-324, 0.1, 1e21, 1e-7, 0.005,
        123456789.123456789,
    ]
    .iter()
    .map(|x| x.to_string())
    .collect();
    for i in 0..cfg.cases {
        let mut r = root.fork(i as u64);
        out.case(&format!("seed={} i={}", cfg.seed, i));
        // the formatting functions are linear in the model as well: here the limits go up to 32 KiB (1 case in 12)
        let s = if r.chance(1, 12) {
            let l = LIMITS[r.below(22)];
            out.count("str.boundary_string");
            boundary_string(&mut r, l)
        } else {
            hostile_string(&mut r, false)
        };
        out.count(&format!("strclass.{}", class_of(&s)));
        out.count(&format!("strlen.{}", match s.len() { 0 => "0", 1..=8 => "1-8", 9..=63 => "9-63", 64..=255 => "64-255", 256..=1023 => "256-1023", 1024..=4095 => "1024-4095", _ => "4096+" }));
        if s.chars().any(|c| !c.is_ascii() && c.is_numeric()) {
            out.count("strhas.nonascii_numeric");
        }
        if class_of(&s) != "plain" && class_of(&s) != "empty" {
            out.nontrivial();
        }
        emit_fn_ops(out, &s);
        // write_type_line
        let name = f::sanitize_metric_name(&hostile_string(&mut r, true));
        let ty = *r.pick(&["counter", "gauge", "histogram", "summary", "untyped"]);
        let mut tb = String::new();
        f::write_type_line(&mut tb, &name, ty);
        out.op(&format!("c08 type {} {}", hexs(&name), hexs(ty)), &hexs(&tb));
        match crate::expo::parse_line(tb.strip_suffix('\n').unwrap_or("\n")) {
            Ok(crate::expo::PLine::Type { name: ref n, ty: ref t }) if *n == name && t == ty => {}
            other => out.oracle_fail("write_type_line: not the TYPE line meant", &format!("{:?} :: {:?}", other, tb)),
        }
        // write_metric_line with all parts (up to 9 labels: the comma / `first` logic)
        let suffix: Option<&'static str> = *r.pick(&[None, Some("bucket"), Some("sum"), Some("count")]);
        let nlabels = r.weighted(&[3, 3, 3, 3, 1, 1, 1, 1, 1, 1]);
        let labels: Vec<String> = (0..nlabels)
            .map(|_| {
                let k = hostile_string(&mut r, true);
                let v = hostile_string(&mut r, false);
                format!("{}=\"{}\"", f::sanitize_label_key(&k), f::sanitize_label_value(&v))
            })
            .collect();
        let extra: Option<(&'static str, String)> = match r.below(4) {
            0 => None,
            1 => Some(("le", r.pick(&["0.5", "1", "+Inf", "0.005"]).to_string())),
            2 => Some(("quantile", r.pick(&["0", "0.5", "0.99", "1"]).to_string())),
            // `Display for f64` of non-finite / extreme bounds (what `set_buckets(&[f64::INFINITY])` leads to)
            _ => Some((*r.pick(&["le", "quantile"]), r.pick(&floats).clone())),
        };
        let value = r.pick(&["0", "1", "18446744073709551615", "0.25", "NaN", "inf", "-inf", "1e-7"]).to_string();
        let unit: Option<Unit> = if r.chance(1, 3) { None } else { Some(*r.pick(&UNITS)) };
        out.count(&format!("line.labels={} extra={} unit={}", nlabels, extra.is_some(), unit.is_some()));
        let mut buf = String::new();
        f::write_metric_line(&mut buf, &name, suffix, &labels, extra.clone(), value.as_str(), unit);
        out.op(
            &format!(
                "c08 line {} {} {} {} {} {}",
                hexs(&name),
                opt_hexs(suffix),
                list(labels.iter().map(|l| hexs(l))),
                match &extra {
                    Some((k, v)) => format!("{}:{}", hexs(k), hexs(v)),
                    None => "~".into(),
                },
                hexs(&value),
                unit_tok(unit)
            ),
            &hexs(&buf),
        );
        // the line must read back as one sample (implementation-side oracle): same labels in order, same value
        match crate::expo::parse_line(buf.strip_suffix('\n').unwrap_or(&buf)) {
            Ok(crate::expo::PLine::Sample { labels: pl, value: pv, .. }) => {
                let mut want: Vec<String> = labels.clone();
                if let Some((k, v)) = &extra {
                    want.push(format!("{}=\"{}\"", k, v));
                }
                let got: Vec<String> = pl.iter().map(|(k, v)| format!("{}=\"{}\"", k, v)).collect();
                if got != want || pv != value || !buf.ends_with('\n') {
                    out.oracle_fail("write_metric_line: sample read back differently", &buf);
                }
                if let Some((_, v)) = pl.last().filter(|_| extra.is_some()) {
                    if v.parse::<f64>().is_err() {
                        out.oracle_fail("write_metric_line: le/quantile value is not a float", &buf);
                    }
                }
            }
            other => out.oracle_fail("write_metric_line: not a sample line", &format!("{:?} :: {:?}", other, buf)),
        }
        // key_to_parts
        let kname = hostile_string(&mut r, true);
        // 0-3 own labels as before in half of the cases; else up to 24 (no cap, no window in `key_to_parts`: the merge
        // and the join are for every length — Lean `keyToParts_ok`), short strings there so that the op stays small
        let wide_parts = r.chance(1, 2);
        let nown = if wide_parts { r.weighted(&[1, 1, 1, 1, 2, 2, 3, 3, 3, 3, 2, 2, 2, 1, 1, 1, 1, 1, 1, 1, 1, 1, 1, 1, 1]) } else { r.below(4) };
        let mut klabels: Vec<(String, String)> = (0..nown)
            .map(|_| {
                if wide_parts && r.chance(2, 3) {
                    (small_hostile(&mut r, true), small_hostile(&mut r, false))
                } else {
                    (hostile_string(&mut r, true), hostile_string(&mut r, false))
                }
            })
            .collect();
        if wide_parts && klabels.len() >= 2 && r.chance(1, 3) {
            // the same RAW label name again later in the key (`IndexMap::insert`: first position, last value)
            let j = r.below(klabels.len());
            let k = klabels[j].0.clone();
            let at = r.range(j + 1, klabels.len());
            klabels.insert(at, (k, small_hostile(&mut r, false)));
            out.count("parts.repeated_own_label");
        }
        let mut globals: Vec<(String, String)> = vec![];
        for _ in 0..(if wide_parts { r.below(9) } else { r.below(3) }) {
            // sometimes the same name as a key label, so that the override path is taken
            let k = if !klabels.is_empty() && r.chance(1, 2) {
                klabels[r.below(klabels.len())].0.clone()
            } else {
                hostile_string(&mut r, true)
            };
            if !globals.iter().any(|(g, _)| *g == k) {
                globals.push((k, hostile_string(&mut r, false)));
            }
        }
        let key = metrics::Key::from_parts(
            kname.clone(),
            klabels.iter().map(|(k, v)| metrics::Label::new(k.clone(), v.clone())).collect::<Vec<_>>(),
        );
        let gl: indexmap::IndexMap<String, String> = globals.iter().cloned().collect();
        // `None` and an empty map of default labels are the same thing
        let use_none = globals.is_empty() && r.chance(1, 2);
        let (pn, pl) = if use_none { f::key_to_parts(&key, None) } else { f::key_to_parts(&key, Some(&gl)) };
        out.count(if use_none { "parts.globals=None" } else { "parts.globals=Some" });
        out.count(&format!(
            "parts.labels_out={}",
            match pl.len() { 0 => "0", 1..=3 => "1-3", 4..=5 => "4-5", 6..=9 => "6-9", 10..=16 => "10-16", _ => "17+" }
        ));
        // independent of the model: one label string per distinct raw name, globals first (in their order), then the
        // key's own new names in order; each string is `sanitised name="escaped value"` of the LAST value given
        {
            let mut order: Vec<String> = globals.iter().map(|g| g.0.clone()).collect();
            for (k, _) in &klabels {
                if !order.contains(k) {
                    order.push(k.clone());
                }
            }
            let want: Vec<String> = order
                .iter()
                .map(|k| {
                    let v = klabels.iter().rev().find(|x| x.0 == *k).or_else(|| globals.iter().find(|x| x.0 == *k)).unwrap();
                    format!("{}=\"{}\"", f::sanitize_label_key(k), f::sanitize_label_value(&v.1))
                })
                .collect();
            if want != pl {
                out.oracle_fail("key_to_parts: not one label per distinct name in insertion order", &format!("{:?} vs {:?}", want, pl));
            }
        }
        out.op(
            &format!("c08 parts {} {} {}", hexs(&kname), pairs(&klabels), pairs(&globals)),
            &format!("{} {}", hexs(&pn), list(pl.iter().map(|l| hexs(l)))),
        );
        // every part is grammar-conforming on its own
        if !crate::expo::is_metric_name(&pn) {
            out.oracle_fail("key_to_parts: not a metric name", &pn);
        }
        match crate::expo::parse_line(&format!("m{{{}}} 1", pl.join(","))) {
            Ok(crate::expo::PLine::Sample { ref labels, .. }) if labels.len() == pl.len() => {}
            Ok(_) if pl.is_empty() => {}
            other => out.oracle_fail("key_to_parts: labels do not read back one by one", &format!("{:?} :: {:?}", other, pl)),
        }
        // `Display for f64` of a bucket bound / `_sum` / gauge value n/1024, as TEXT against the model's `dyText`
        for _ in 0..2 {
            let n: i64 = match r.below(4) {
                0 => r.range(0, 8192) as i64 - 4096,
                1 => (r.range(0, 1 << 22) as i64 - (1 << 21)) * 1024 / (1 << r.below(11)),
                2 => r.range(0, 1 << 31) as i64 - (1 << 30),
                _ => *r.pick(&[0i64, 1, -1, 512, 1023, 1024, 1025, -1024, 5, 10240, 102400, 1048576, (1 << 31) - 1, -(1 << 31) + 1]),
            };
            letext_op(out, n);
        }
    }
}

/// a short hostile string (at most 6 characters of the wide alphabet)
fn small_hostile(r: &mut Rng, nonempty: bool) -> String {
    let n = r.range(if nonempty { 1 } else { 0 }, 6);
    (0..n).map(|_| if r.chance(1, 2) { hostile_char(r) } else { *r.pick(&['a', 'k', '_', '9', '"', '\\', '\n', '=', ',', '}']) }).collect()
}

/// Exact decimal text of `n / 1024`, written from scratch (long division; 1024 = 2^10, so at most 10 fractional
/// digits and no rounding): what `Display for f64` — the shortest text that reads back to the same f64, never in
/// exponent form — prints for such a value as long as |n| < 2^31 (every shorter decimal is off by at least 5e-10, more
/// than half an ulp below 2^21). Mirrors `PromNum.dyText` of the Lean model.
pub fn dy_text(n: i64) -> String {
    let a = n.unsigned_abs();
    let mut s = String::new();
    if n < 0 {
        s.push('-');
    }
    s.push_str(&(a / 1024).to_string());
    let mut rem = a % 1024;
    if rem != 0 {
        s.push('.');
        while rem != 0 {
            rem *= 10;
            s.push((b'0' + (rem / 1024) as u8) as char);
            rem %= 1024;
        }
    }
    s
}

/// `-?[0-9]+(\.[0-9]+)?`
pub fn is_plain_decimal(s: &str) -> bool {
    let t = s.strip_prefix('-').unwrap_or(s);
    let mut it = t.splitn(2, '.');
    let ip = it.next().unwrap_or("");
    let digits = |x: &str| !x.is_empty() && x.bytes().all(|b| b.is_ascii_digit());
    digits(ip) && it.next().map_or(true, digits)
}

fn letext_op(out: &mut Out, n: i64) {
    let real = format!("{}", crate::prom::dy(n));
    out.op(&format!("c08 letext {}", n), &hexs(&real));
    if real != dy_text(n) || !is_plain_decimal(&real) {
        out.oracle_fail("Display of n/1024 is not its exact plain decimal text", &format!("n={} {:?} vs {:?}", n, real, dy_text(n)));
    }
}

/// Number texts of a whole render AS TEXT (the model comparison re-parses `le` and the f64 values, so `1`, `1.0` and `1e0`
/// are the same item there):
///  * every `le` of a histogram family is `+Inf` or the exact plain decimal text of one of the configured bounds;
///  * every `quantile` of a summary family is one of the configured quantile texts and a plain decimal;
///  * every f64 sample value that is exactly n/1024 (|n| < 2^31) is written as its exact plain decimal text;
///  * every u64 sample value (counter, `_bucket`, `_count`) is a run of ASCII digits without a leading zero.
pub fn number_text_oracle(out: &mut Out, cfg: &crate::prom::SessionCfg, qtexts: &[String], text: &str) {
    use crate::expo::PLine;
    let mut bounds: Vec<String> = vec![];
    for b in cfg.buckets.iter().chain(cfg.overrides.iter().map(|o| &o.2)) {
        bounds.extend(b.iter().map(|n| dy_text(*n)));
    }
    let (mut cur, mut ty) = (String::new(), String::new());
    for line in text.strip_suffix('\n').unwrap_or(text).split('\n') {
        match crate::expo::parse_line(line) {
            Ok(PLine::Type { name, ty: t }) => {
                cur = name;
                ty = t;
            }
            Ok(PLine::Sample { name, labels, value }) => {
                for (k, v) in &labels {
                    if k == "le" && ty == "histogram" {
                        out.count("numtext.le");
                        if v != "+Inf" && !(bounds.contains(v) && is_plain_decimal(v)) {
                            out.oracle_fail("le text is not the plain decimal text of a configured bound", &format!("{:?} bounds {:?}", line, bounds));
                        }
                    }
                    if k == "quantile" && ty == "summary" {
                        out.count("numtext.quantile");
                        if !(qtexts.contains(v) && is_plain_decimal(v)) {
                            out.oracle_fail("quantile text is not a configured quantile as plain decimal", &format!("{:?} quantiles {:?}", line, qtexts));
                        }
                    }
                }
                let unsigned = ty == "counter"
                    || (ty == "histogram" && name == format!("{}_bucket", cur))
                    || ((ty == "histogram" || ty == "summary") && name == format!("{}_count", cur));
                if unsigned {
                    let ok = !value.is_empty() && value.bytes().all(|b| b.is_ascii_digit()) && (value == "0" || !value.starts_with('0'));
                    if !ok || value.parse::<u64>().is_err() {
                        out.oracle_fail("u64 sample value is not a plain run of digits", line);
                    }
                } else if let Ok(x) = value.parse::<f64>() {
                    let sc = x * 1024.0;
                    if x.is_finite() && sc.fract() == 0.0 && sc.abs() < 2147483648.0 && !(x == 0.0 && x.is_sign_negative()) {
                        out.count("numtext.dyadic_value");
                        if value != dy_text(sc as i64) {
                            out.oracle_fail("f64 sample value n/1024 is not written as its exact plain decimal text", &format!("{:?} want {}", line, dy_text(sc as i64)));
                        }
                    }
                }
            }
            _ => {}
        }
    }
}

/// stream B: whole sessions with hostile strings everywhere
pub fn run_sessions(cfg: &Cfg, out: &mut Out) {
    let root = Rng::new(cfg.seed ^ 0xC08);
    for i in 0..cfg.cases / 2 {
        let mut r = root.fork(i as u64);
        out.case(&format!("render seed={} i={}", cfg.seed, i));
        crate::prom::session(&mut r, out, crate::prom::Flavour::Strings);
    }
    // stream D: wide shapes — up to 12 own + 4 global labels (`key_to_parts` beyond 5 labels), up to 9 series per
    // family, up to 12 bounds, up to 4 bucket overrides (several may match one name: `get_distribution_type` and
    // `get_distribution` must agree — Lean `distType_newDist`), repeated `add_global_label` / repeated matchers
    let wide = crate::prom::Shape {
        max_globals: 4,
        max_over: 4,
        max_metrics: 4,
        max_series: 9,
        max_own_labels: 12,
        max_bounds: 12,
        wide: true,
    };
    let rootw = Rng::new(cfg.seed ^ 0xC08D);
    for i in 0..(cfg.cases / 8).min(300) {
        let mut r = rootw.fork(i as u64);
        out.case(&format!("wide render seed={} i={}", cfg.seed, i));
        crate::prom::session_shaped(&mut r, out, crate::prom::Flavour::Strings, &wide);
    }
    run_adjacent(cfg, out);
}

// ---------------------------------------------------------------------------------------------
// stream C: families whose names are `_`-extensions of one another (unit / type suffixes)

fn unit_sfx(u: Option<Unit>) -> String {
    match u {
        None | Some(Unit::Count) => String::new(),
        Some(Unit::Percent) => "_ratio".into(),
        Some(u) => format!("_{}", u.as_str()),
    }
}

/// names a family occupies in the exposition: its own and the sample names its type adds
fn occupied(fam: &str, ty: &str) -> Vec<String> {
    match ty {
        "histogram" => vec![fam.to_string(), format!("{fam}_bucket"), format!("{fam}_sum"), format!("{fam}_count")],
        "summary" => vec![fam.to_string(), format!("{fam}_sum"), format!("{fam}_count")],
        _ => vec![fam.to_string()],
    }
}

struct AdjMetric {
    raw: String,
    kind: u8, // 0 counter 1 gauge 2 distribution
    desc: Option<(String, Option<Unit>)>,
    labelled: bool,
}

/// One session over a fixed list of metrics: describe, update, render. The sanitised names are pairwise
/// distinct (the property's precondition). Returns whether two families collide (share a name).
fn adjacent_session(out: &mut Out, unit_suffix: bool, hist: bool, ms: &[AdjMetric]) -> bool {
    static META: metrics::Metadata<'static> = metrics::Metadata::new("mv", metrics::Level::INFO, None);
    use metrics::Recorder;
    let mut b = metrics_exporter_prometheus::PrometheusBuilder::new().set_enable_unit_suffix(unit_suffix);
    if hist {
        b = b.set_buckets(&[0.0, 1.0]).unwrap();
    }
    let rec = b.build_recorder();
    let handle = rec.handle();
    let qtexts = ["0", "0.5", "0.9", "0.95", "0.99", "0.999", "1"];
    out.op(
        &format!(
            "prom new {} . {} . {}",
            unit_suffix as u8,
            if hist { "0+1024" } else { "~" },
            list(qtexts.iter().map(|q| hexs(q)))
        ),
        "ok",
    );
    let dist_ty = if hist { "histogram" } else { "summary" };
    let mut fams: Vec<(String, &str, Option<String>)> = vec![]; // (family name, type, HELP text)
    for m in ms {
        let san = f::sanitize_metric_name(&m.raw);
        let kn = metrics::KeyName::from(m.raw.clone());
        if let Some((d, u)) = &m.desc {
            match m.kind {
                0 => rec.describe_counter(kn, *u, d.clone().into()),
                1 => rec.describe_gauge(kn, *u, d.clone().into()),
                _ => rec.describe_histogram(kn, *u, d.clone().into()),
            }
            out.op(&format!("prom describe {} {} {}", hexs(&m.raw), unit_tok(*u), hexs(d)), "ok");
        }
        let unit = m.desc.as_ref().and_then(|d| d.1).filter(|_| unit_suffix);
        fams.push((
            format!("{}{}", san, unit_sfx(unit)),
            ["counter", "gauge", dist_ty][m.kind as usize],
            m.desc.as_ref().map(|d| f::sanitize_description(&d.0)),
        ));
        let labels: Vec<(String, String)> = if m.labelled { vec![("k".into(), "v".into())] } else { vec![] };
        let key = metrics::Key::from_parts(
            m.raw.clone(),
            labels.iter().map(|(k, v)| metrics::Label::new(k.clone(), v.clone())).collect::<Vec<_>>(),
        );
        let kt = format!("{} {}", hexs(&m.raw), pairs(&labels));
        match m.kind {
            0 => {
                rec.register_counter(&key, &META).increment(3);
                out.op(&format!("prom cinc {} 3", kt), "ok");
            }
            1 => {
                rec.register_gauge(&key, &META).set(crate::prom::dy(512));
                out.op(&format!("prom gset {} d512", kt), "ok");
            }
            _ => {
                rec.register_histogram(&key, &META).record(crate::prom::dy(1024));
                out.op(&format!("prom hrec {} 1024", kt), "ok");
            }
        }
    }
    let mut collide = false;
    for i in 0..fams.len() {
        for j in 0..i {
            let (a, b) = (occupied(&fams[i].0, fams[i].1), occupied(&fams[j].0, fams[j].1));
            if a.iter().any(|x| b.contains(x)) {
                collide = true;
            }
        }
    }
    let text = handle.render();
    out.op("prom render", &crate::prom::canonical(&text));
    out.nontrivial();
    if !collide {
        match crate::expo::check_exposition(&text) {
            Ok(parsed) => {
                for (fam, ty, help) in &fams {
                    if parsed.iter().filter(|p| p.name == *fam && p.ty == *ty && !p.samples.is_empty() && p.help == *help).count() != 1 {
                        out.oracle_fail(
                            "render(): a family is not announced once under its name (sanitised name + unit suffix), type and own description",
                            &format!("family {} ({}) help {:?} :: {:?}", fam, ty, help, text),
                        );
                    }
                }
            }
            Err(e) => out.oracle_fail("render(): not well-formed exposition text", &format!("{} :: {:?}", e, text)),
        }
    }
    collide
}

/// The witness of the Lean theorem `C08.type_lines_unique_false` and random sessions over names that are
/// `_`-extensions of one another. Sessions in which two families really share a name (a unit suffix or a
/// type suffix makes one family's name equal to a name of another family — the recorder does not prevent
/// this, see REPORT / `type_lines_unique_false`) are only compared with the model, which reproduces the
/// behaviour; all others go through the strict reader as well.
pub fn run_adjacent(cfg: &Cfg, out: &mut Out) {
    out.case("adjacent witness: counter a described with Unit::Bytes + counter a_bytes, unit suffix on");
    let w = [
        AdjMetric { raw: "a".into(), kind: 0, desc: Some(("d".into(), Some(Unit::Bytes))), labelled: false },
        AdjMetric { raw: "a_bytes".into(), kind: 0, desc: None, labelled: false },
    ];
    let c = adjacent_session(out, true, false, &w);
    assert!(c, "witness must be classified as a collision");
    // genuine defect, recorded as a known finding (known_findings.json: K-C08-family-collision): reported on every run
    out.oracle_fail(
        "K-C08-family-collision: two families share one name, so the text has two TYPE lines for it and a duplicate series",
        "unit suffix on: counter `a` described with Unit::Bytes and counter `a_bytes` both render as family a_bytes (Lean: C08.type_lines_unique_false); same for summary `a` + gauge `a_sum`",
    );
    out.case("adjacent witness 2: summary a + gauge a_sum");
    let w2 = [
        AdjMetric { raw: "a".into(), kind: 2, desc: None, labelled: false },
        AdjMetric { raw: "a_sum".into(), kind: 1, desc: None, labelled: true },
    ];
    adjacent_session(out, false, false, &w2);
    let root = Rng::new(cfg.seed ^ 0xAD7A);
    let tails = [
        "", "_bytes", "_seconds", "_ratio", "_count", "_sum", "_bucket", "_total", "_bytes_sum", "_seconds_count",
        "_seconds_bucket", ".bytes", "-sum", "_", "__sum", "_percent", "_bytes_bytes", "²bytes",
    ];
    let units = [Some(Unit::Bytes), Some(Unit::Seconds), Some(Unit::Percent), Some(Unit::Count), None];
    for i in 0..cfg.cases / 2 {
        let mut r = root.fork(i as u64);
        out.case(&format!("adjacent seed={} i={}", cfg.seed, i));
        let base = r.pick_str(&["a", "lat", "x:y", "9"]);
        let mut ms: Vec<AdjMetric> = vec![];
        let mut tries = 0;
        let want = r.range(2, 4);
        while ms.len() < want && tries < 20 {
            tries += 1;
            let raw = format!("{}{}", base, r.pick_str(&tails));
            let san = f::sanitize_metric_name(&raw);
            if ms.iter().any(|m| f::sanitize_metric_name(&m.raw) == san) {
                continue;
            }
            let desc = if r.chance(2, 3) { Some((hostile_string(&mut r, false), *r.pick(&units))) } else { None };
            ms.push(AdjMetric { raw, kind: r.below(3) as u8, desc, labelled: r.chance(1, 3) });
        }
        let collide = adjacent_session(out, r.chance(3, 4), r.chance(1, 2), &ms);
        out.count(if collide { "adjacent.colliding (model diff only)" } else { "adjacent.disjoint (strict reader)" });
    }
}

fn emit_fn_ops(out: &mut Out, s: &str) {
    out.op(&format!("c08 name {}", hexs(s)), &hexs(&f::sanitize_metric_name(s)));
    out.op(&format!("c08 lkey {}", hexs(s)), &hexs(&f::sanitize_label_key(s)));
    out.op(&format!("c08 lval {}", hexs(s)), &hexs(&f::sanitize_label_value(s)));
    out.op(&format!("c08 desc {}", hexs(s)), &hexs(&f::sanitize_description(s)));
    let mut b = String::new();
    f::write_help_line(&mut b, "fam", s);
    out.op(&format!("c08 help {} {}", hexs("fam"), hexs(s)), &hexs(&b));
    if !matches!(crate::expo::parse_line(b.strip_suffix('\n').unwrap_or("\n")), Ok(crate::expo::PLine::Help { .. })) {
        out.oracle_fail("write_help_line: not a HELP line", &b);
    }
    // a label value must stay inside its quotes, a docstring inside its line; nothing is cut off; character-wise escape
    escape_oracles(out, s);
    if !s.is_empty() {
        if !crate::expo::is_metric_name(&f::sanitize_metric_name(s)) {
            out.oracle_fail("sanitize_metric_name: not a metric name", s);
        }
        if !crate::expo::is_label_name(&f::sanitize_label_key(s)) {
            out.oracle_fail("sanitize_label_key: not a label name", s);
        }
    }
}
