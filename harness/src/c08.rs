//! C08 — Prometheus output is well-formed exposition text for any input strings.
//!
//! Stream A (correspondence): the public `formatting` functions on hostile strings, byte-for-byte
//! against the Lean model (`c08 …` ops).
//! Stream B (implementation-side oracle + correspondence through the `prom` model, see prom.rs):
//! whole `render()` outputs read by the strict exposition reader in expo.rs.

use crate::util::*;
use metrics::Unit;
use metrics_exporter_prometheus::formatting as f;

pub const UNITS: [Unit; 17] = [
    Unit::Count,
    Unit::Percent,
    Unit::Seconds,
    Unit::Milliseconds,
    Unit::Microseconds,
    Unit::Nanoseconds,
    Unit::Tebibytes,
    Unit::Gibibytes,
    Unit::Mebibytes,
    Unit::Kibibytes,
    Unit::Bytes,
    Unit::TerabitsPerSecond,
    Unit::GigabitsPerSecond,
    Unit::MegabitsPerSecond,
    Unit::KilobitsPerSecond,
    Unit::BitsPerSecond,
    Unit::CountPerSecond,
];

pub fn unit_tok(u: Option<Unit>) -> String {
    match u {
        Some(u) => u.as_str().to_string(),
        None => "~".to_string(),
    }
}

fn class_of(s: &str) -> &'static str {
    if s.is_empty() {
        "empty"
    } else if s.contains('\n') {
        "newline"
    } else if s.contains('\\') {
        "backslash"
    } else if s.contains('"') {
        "quote"
    } else if !s.is_ascii() {
        "nonascii"
    } else {
        "plain"
    }
}


// ---------------------------------------------------------------------------------------------
// wide alphabet (added after seed C08-4: a predicate written with a non-ASCII `char::is_*` method is only
// visible on characters on which it differs from its `is_ascii_*` twin)

/// `char::is_numeric` but not an ASCII digit (general categories Nd, Nl, No)
pub const NUMERIC: &[char] = &[
    '²', '³', '¹', '¼', '½', '¾', '٠', '٣', '۴', '५', '৩', '๓', '０', '５', '９', 'Ⅷ', 'ⅷ', 'Ⅻ', '①', '⑳', '⒈', '〇',
    '〡', '\u{1d7d8}', '\u{1d7ff}', '\u{10107}', '\u{11066}',
];
/// `char::is_alphabetic` but not ASCII (incl. characters whose case mapping is ASCII: Kelvin sign, long s)
pub const ALPHA: &[char] = &[
    'é', 'ß', 'λ', 'Ω', '日', 'ａ', 'Ｚ', '\u{212a}', 'ſ', 'İ', 'ı', 'ª', 'º', 'ǅ', 'ʰ', 'ᴬ', '\u{1d400}', 'я', 'ا',
];
/// `char::is_whitespace` / line-breaking characters other than blank, tab, LF, CR
pub const SPACE: &[char] = &[
    '\u{b}', '\u{c}', '\u{85}', '\u{a0}', '\u{1680}', '\u{2000}', '\u{2003}', '\u{200a}', '\u{2028}', '\u{2029}',
    '\u{202f}', '\u{205f}', '\u{3000}', '\u{1c}', '\u{1e}',
];
/// look-alikes of the delimiters of the format
pub const LOOKALIKE: &[char] = &[
    '＿', '：', '＂', '＼', '∖', '﹨', '″', '“', '”', '‘', '’', '＇', '｛', '｝', '，', '＝', '＃', '﹟', '․',
];
/// format characters, non-characters, plane boundaries, encoding-length boundaries
pub const OTHER: &[char] = &[
    '\u{feff}', '\u{200b}', '\u{200d}', '\u{ad}', '\u{301}', '\u{fffd}', '\u{ffff}', '\u{fffe}', '\u{10ffff}',
    '\u{e000}', '\u{d7ff}', '\u{10000}', '🦀', '\u{1f600}', '\u{80}', '\u{9f}', '\u{ff}', '\u{100}', '\u{7ff}',
    '\u{800}', '\u{0}', '\u{7f}', '\u{1b}',
];

fn hostile_char(r: &mut Rng) -> char {
    match r.weighted(&[4, 3, 2, 2, 2, 2, 1]) {
        0 => (r.below(0x80) as u8) as char, // every ASCII character, incl. all punctuation and C0 controls
        1 => *r.pick(NUMERIC),
        2 => *r.pick(ALPHA),
        3 => *r.pick(SPACE),
        4 => *r.pick(LOOKALIKE),
        5 => *r.pick(OTHER),
        _ => loop {
            // any Unicode scalar value
            if let Some(c) = char::from_u32(r.below(0x11_0000) as u32) {
                break c;
            }
        },
    }
}

const WORDS: &[&str] = &["a", "b", "lat", "reqs", "x_1", "Total", "http", "ns", "le", "quantile", "A9", "__name__", ":"];

/// Superset of `util::wild_string`: the old classes, plus strings over the wide alphabet, random scalar
/// values, long strings (hostile characters at positions ≥ 64 and at the very end) and single hostile
/// characters in leading / inner / trailing position.
pub fn hostile_string(r: &mut Rng, nonempty: bool) -> String {
    let mut s = String::new();
    match r.weighted(&[5, 5, 2, 3, 3]) {
        0 => return wild_string(r, nonempty),
        1 => {
            for _ in 0..r.range(1, 10) {
                match r.below(3) {
                    0 => s.push_str(r.pick_str(WORDS)),
                    _ => s.push(hostile_char(r)),
                }
            }
        }
        2 => {
            for _ in 0..r.range(1, 8) {
                s.push(hostile_char(r));
            }
        }
        3 => {
            let ident: Vec<char> = "abcxyzABZ019_:".chars().collect();
            let len = r.range(50, 300);
            let mut cs: Vec<char> = (0..len).map(|_| *r.pick(&ident)).collect();
            for _ in 0..r.range(1, 6) {
                let pos = match r.below(4) {
                    0 => len - 1,
                    1 => r.below(len),
                    _ => 64.min(len - 1) + r.below(len - 64.min(len - 1)),
                };
                cs[pos] = match r.below(4) {
                    0 => *r.pick(&['\\', '"', '\n']),
                    _ => hostile_char(r),
                };
            }
            s = cs.into_iter().collect();
        }
        _ => {
            if r.chance(1, 2) {
                s.push_str(r.pick_str(WORDS));
            }
            s.push(hostile_char(r));
            if r.chance(1, 2) {
                s.push_str(r.pick_str(WORDS));
            }
        }
    }
    if nonempty && s.is_empty() {
        s.push_str(r.pick_str(WORDS));
    }
    s
}

fn unescape(s: &str, is_desc: bool) -> Option<String> {
    let mut o = String::new();
    let mut it = s.chars();
    while let Some(c) = it.next() {
        match c {
            '\\' => match it.next() {
                Some('\\') => o.push('\\'),
                Some('n') => o.push('\n'),
                Some('"') if !is_desc => o.push('"'),
                _ => return None,
            },
            '\n' => return None,
            '"' if !is_desc => return None,
            c => o.push(c),
        }
    }
    Some(o)
}

/// Exhaustive over single characters: EVERY Unicode scalar value in leading, inner and trailing position
/// through the two name sanitizers and the escaper (implementation-side oracles; at most 3 reports per
/// oracle), and contiguous blocks through the model (`quick`: U+0000–U+2FFF, the full-width forms, the
/// mathematical digits, the Aegean numbers; `thorough`: all 17 planes).
fn sweep(cfg: &Cfg, out: &mut Out) {
    out.case("sweep all scalar values");
    let mut reported: std::collections::BTreeMap<&'static str, u32> = Default::default();
    let mut fail = |out: &mut Out, what: &'static str, detail: String| {
        let n = reported.entry(what).or_insert(0);
        *n += 1;
        if *n <= 3 {
            out.oracle_fail(what, &detail);
        }
    };
    let mut n = 0u64;
    for cp in 0..0x11_0000u32 {
        let Some(c) = char::from_u32(cp) else { continue };
        n += 1;
        let ok_name = |c: char, first: bool| c == '_' || c == ':' || c.is_ascii_alphabetic() || (!first && c.is_ascii_digit());
        let ok_label = |c: char, first: bool| c == '_' || c.is_ascii_alphabetic() || (!first && c.is_ascii_digit());
        for (s, pos) in [(format!("{c}"), 0usize), (format!("a{c}b"), 1), (format!("ab{c}"), 2)] {
            let m = f::sanitize_metric_name(&s);
            let l = f::sanitize_label_key(&s);
            if !crate::expo::is_metric_name(&m) {
                fail(out, "sanitize_metric_name: not a metric name", format!("input {:?} (U+{:04X} at {}) -> {:?}", s, cp, pos, m));
            }
            if !crate::expo::is_label_name(&l) {
                fail(out, "sanitize_label_key: not a label name", format!("input {:?} (U+{:04X} at {}) -> {:?}", s, cp, pos, l));
            }
            // a character the grammar allows at its position is kept, any other becomes `_`, nothing is added or dropped
            let want_m: String = s.chars().enumerate().map(|(i, x)| if ok_name(x, i == 0) { x } else { '_' }).collect();
            let want_l: String = s.chars().enumerate().map(|(i, x)| if ok_label(x, i == 0) { x } else { '_' }).collect();
            if m != want_m {
                fail(out, "sanitize_metric_name: not 'keep valid characters, replace the others by _'", format!("input {:?} (U+{:04X}) -> {:?}", s, cp, m));
            }
            if l != want_l {
                fail(out, "sanitize_label_key: not 'keep valid characters, replace the others by _'", format!("input {:?} (U+{:04X}) -> {:?}", s, cp, l));
            }
            let v = f::sanitize_label_value(&s);
            match crate::expo::parse_line(&format!("m{{k=\"{}\"}} 1", v)) {
                Ok(crate::expo::PLine::Sample { ref labels, .. }) if labels.len() == 1 && labels[0].1 == v => {}
                other => fail(out, "sanitize_label_value: value escapes its quotes", format!("input {:?} (U+{:04X}) -> {:?} :: {:?}", s, cp, v, other)),
            }
            if unescape(&v, false).as_deref() != Some(s.as_str()) {
                fail(out, "sanitize_label_value: does not unescape to the input", format!("input {:?} (U+{:04X}) -> {:?}", s, cp, v));
            }
            let d = f::sanitize_description(&s);
            match crate::expo::parse_line(&format!("# HELP m {}", d)) {
                Ok(crate::expo::PLine::Help { ref doc, .. }) if *doc == d => {}
                other => fail(out, "sanitize_description: docstring leaves its line", format!("input {:?} (U+{:04X}) -> {:?} :: {:?}", s, cp, d, other)),
            }
            if unescape(&d, true).as_deref() != Some(s.as_str()) {
                fail(out, "sanitize_description: does not unescape to the input", format!("input {:?} (U+{:04X}) -> {:?}", s, cp, d));
            }
        }
    }
    out.count_n("sweep.scalars", n);
    let ranges: &[(u32, u32)] = if cfg.thorough {
        &[(0, 0x11_0000)]
    } else {
        &[(0, 0x3000), (0xff00, 0xfff0), (0x1d7c0, 0x1d800), (0x10100, 0x10140), (0x10_ff00, 0x11_0000)]
    };
    for (lo, hi) in ranges {
        let mut cp = *lo;
        while cp < *hi {
            let chunk: String = (cp..(cp + 256).min(*hi)).filter_map(char::from_u32).collect();
            cp += 256;
            if chunk.is_empty() {
                continue;
            }
            // non-leading position for every character of the block
            let s = format!("a{}", chunk);
            out.op(&format!("c08 name {}", hexs(&s)), &hexs(&f::sanitize_metric_name(&s)));
            out.op(&format!("c08 lkey {}", hexs(&s)), &hexs(&f::sanitize_label_key(&s)));
            out.op(&format!("c08 lval {}", hexs(&s)), &hexs(&f::sanitize_label_value(&s)));
            out.op(&format!("c08 desc {}", hexs(&s)), &hexs(&f::sanitize_description(&s)));
            out.count("sweep.model_blocks");
        }
    }
    out.nontrivial();
}

pub fn run(cfg: &Cfg, out: &mut Out) {
    let root = Rng::new(cfg.seed);
    // corpus first: past findings and the hand-picked nasty inputs
    let corpus: &[&str] = &[
        "",
        "\\",
        "\\\\",
        "\\\n",
        "\\\"",
        "\"",
        "\n",
        "a\\\nb\\",
        "x\"} 1\n# TYPE evil counter\nevil 1\n",
        "9abc",
        ":ok",
        "é",
        "a\u{0}b",
        "\\\\\\",
        "\\n",
        "\\\\n\"",
        // non-ASCII numerics / letters / white space in non-leading position (seed C08-4 and its class)
        "x²",
        "a½b٣c５dⅧ",
        "²x",
        "k\u{212a}ſ",
        "a\u{2029}b\u{b}c\u{c}d\u{85}e",
        "it's $5 (50%) <b>&amp;</b> [x] ^~`!*+;?",
        "＂＼ｎ",
    ];
    out.case("corpus");
    for s in corpus {
        emit_fn_ops(out, s);
    }
    // a long string: hostile characters beyond position 64 and at the very end
    let long: String = format!("{}\\\"\n²{}\\", "a".repeat(70), "b9".repeat(100));
    emit_fn_ops(out, &long);
    sweep(cfg, out);
    let floats: Vec<String> = [
        f64::INFINITY, f64::NEG_INFINITY, f64::NAN, -0.0, f64::MAX, f64::MIN_POSITIVE, 5e-324, 0.1, 1e21, 1e-7, 0.005,
        123456789.123456789,
    ]
    .iter()
    .map(|x| x.to_string())
    .collect();
    for i in 0..cfg.cases {
        let mut r = root.fork(i as u64);
        out.case(&format!("seed={} i={}", cfg.seed, i));
        let s = hostile_string(&mut r, false);
        out.count(&format!("strclass.{}", class_of(&s)));
        out.count(&format!("strlen.{}", match s.chars().count() { 0 => "0", 1..=8 => "1-8", 9..=63 => "9-63", _ => "64+" }));
        if s.chars().any(|c| !c.is_ascii() && c.is_numeric()) {
            out.count("strhas.nonascii_numeric");
        }
        if class_of(&s) != "plain" && class_of(&s) != "empty" {
            out.nontrivial();
        }
        emit_fn_ops(out, &s);
        // write_type_line
        let name = f::sanitize_metric_name(&hostile_string(&mut r, true));
        let ty = *r.pick(&["counter", "gauge", "histogram", "summary", "untyped"]);
        let mut tb = String::new();
        f::write_type_line(&mut tb, &name, ty);
        out.op(&format!("c08 type {} {}", hexs(&name), hexs(ty)), &hexs(&tb));
        match crate::expo::parse_line(tb.strip_suffix('\n').unwrap_or("\n")) {
            Ok(crate::expo::PLine::Type { name: ref n, ty: ref t }) if *n == name && t == ty => {}
            other => out.oracle_fail("write_type_line: not the TYPE line meant", &format!("{:?} :: {:?}", other, tb)),
        }
        // write_metric_line with all parts (up to 9 labels: the comma / `first` logic)
        let suffix: Option<&'static str> = *r.pick(&[None, Some("bucket"), Some("sum"), Some("count")]);
        let nlabels = r.weighted(&[3, 3, 3, 3, 1, 1, 1, 1, 1, 1]);
        let labels: Vec<String> = (0..nlabels)
            .map(|_| {
                let k = hostile_string(&mut r, true);
                let v = hostile_string(&mut r, false);
                format!("{}=\"{}\"", f::sanitize_label_key(&k), f::sanitize_label_value(&v))
            })
            .collect();
        let extra: Option<(&'static str, String)> = match r.below(4) {
            0 => None,
            1 => Some(("le", r.pick(&["0.5", "1", "+Inf", "0.005"]).to_string())),
            2 => Some(("quantile", r.pick(&["0", "0.5", "0.99", "1"]).to_string())),
            // `Display for f64` of non-finite / extreme bounds (what `set_buckets(&[f64::INFINITY])` leads to)
            _ => Some((*r.pick(&["le", "quantile"]), r.pick(&floats).clone())),
        };
        let value = r.pick(&["0", "1", "18446744073709551615", "0.25", "NaN", "inf", "-inf", "1e-7"]).to_string();
        let unit: Option<Unit> = if r.chance(1, 3) { None } else { Some(*r.pick(&UNITS)) };
        out.count(&format!("line.labels={} extra={} unit={}", nlabels, extra.is_some(), unit.is_some()));
        let mut buf = String::new();
        f::write_metric_line(&mut buf, &name, suffix, &labels, extra.clone(), value.as_str(), unit);
        out.op(
            &format!(
                "c08 line {} {} {} {} {} {}",
                hexs(&name),
                opt_hexs(suffix),
                list(labels.iter().map(|l| hexs(l))),
                match &extra {
                    Some((k, v)) => format!("{}:{}", hexs(k), hexs(v)),
                    None => "~".into(),
                },
                hexs(&value),
                unit_tok(unit)
            ),
            &hexs(&buf),
        );
        // the line must read back as one sample (implementation-side oracle): same labels in order, same value
        match crate::expo::parse_line(buf.strip_suffix('\n').unwrap_or(&buf)) {
            Ok(crate::expo::PLine::Sample { labels: pl, value: pv, .. }) => {
                let mut want: Vec<String> = labels.clone();
                if let Some((k, v)) = &extra {
                    want.push(format!("{}=\"{}\"", k, v));
                }
                let got: Vec<String> = pl.iter().map(|(k, v)| format!("{}=\"{}\"", k, v)).collect();
                if got != want || pv != value || !buf.ends_with('\n') {
                    out.oracle_fail("write_metric_line: sample read back differently", &buf);
                }
                if let Some((_, v)) = pl.last().filter(|_| extra.is_some()) {
                    if v.parse::<f64>().is_err() {
                        out.oracle_fail("write_metric_line: le/quantile value is not a float", &buf);
                    }
                }
            }
            other => out.oracle_fail("write_metric_line: not a sample line", &format!("{:?} :: {:?}", other, buf)),
        }
        // key_to_parts
        let kname = hostile_string(&mut r, true);
        let klabels: Vec<(String, String)> =
            (0..r.below(4)).map(|_| (hostile_string(&mut r, true), hostile_string(&mut r, false))).collect();
        let mut globals: Vec<(String, String)> = vec![];
        for _ in 0..r.below(3) {
            // sometimes the same name as a key label, so that the override path is taken
            let k = if !klabels.is_empty() && r.chance(1, 2) {
                klabels[r.below(klabels.len())].0.clone()
            } else {
                hostile_string(&mut r, true)
            };
            if !globals.iter().any(|(g, _)| *g == k) {
                globals.push((k, hostile_string(&mut r, false)));
            }
        }
        let key = metrics::Key::from_parts(
            kname.clone(),
            klabels.iter().map(|(k, v)| metrics::Label::new(k.clone(), v.clone())).collect::<Vec<_>>(),
        );
        let gl: indexmap::IndexMap<String, String> = globals.iter().cloned().collect();
        // `None` and an empty map of default labels are the same thing
        let use_none = globals.is_empty() && r.chance(1, 2);
        let (pn, pl) = if use_none { f::key_to_parts(&key, None) } else { f::key_to_parts(&key, Some(&gl)) };
        out.count(if use_none { "parts.globals=None" } else { "parts.globals=Some" });
        out.op(
            &format!("c08 parts {} {} {}", hexs(&kname), pairs(&klabels), pairs(&globals)),
            &format!("{} {}", hexs(&pn), list(pl.iter().map(|l| hexs(l)))),
        );
        // every part is grammar-conforming on its own
        if !crate::expo::is_metric_name(&pn) {
            out.oracle_fail("key_to_parts: not a metric name", &pn);
        }
        match crate::expo::parse_line(&format!("m{{{}}} 1", pl.join(","))) {
            Ok(crate::expo::PLine::Sample { ref labels, .. }) if labels.len() == pl.len() => {}
            Ok(_) if pl.is_empty() => {}
            other => out.oracle_fail("key_to_parts: labels do not read back one by one", &format!("{:?} :: {:?}", other, pl)),
        }
    }
}

/// stream B: whole sessions with hostile strings everywhere
pub fn run_sessions(cfg: &Cfg, out: &mut Out) {
    let root = Rng::new(cfg.seed ^ 0xC08);
    for i in 0..cfg.cases / 2 {
        let mut r = root.fork(i as u64);
        out.case(&format!("render seed={} i={}", cfg.seed, i));
        crate::prom::session(&mut r, out, crate::prom::Flavour::Strings);
    }
    run_adjacent(cfg, out);
}

// ---------------------------------------------------------------------------------------------
// stream C: families whose names are `_`-extensions of one another (unit / type suffixes)

fn unit_sfx(u: Option<Unit>) -> String {
    match u {
        None | Some(Unit::Count) => String::new(),
        Some(Unit::Percent) => "_ratio".into(),
        Some(u) => format!("_{}", u.as_str()),
    }
}

/// names a family occupies in the exposition: its own and the sample names its type adds
fn occupied(fam: &str, ty: &str) -> Vec<String> {
    match ty {
        "histogram" => vec![fam.to_string(), format!("{fam}_bucket"), format!("{fam}_sum"), format!("{fam}_count")],
        "summary" => vec![fam.to_string(), format!("{fam}_sum"), format!("{fam}_count")],
        _ => vec![fam.to_string()],
    }
}

struct AdjMetric {
    raw: String,
    kind: u8, // 0 counter 1 gauge 2 distribution
    desc: Option<(String, Option<Unit>)>,
    labelled: bool,
}

/// One session over a fixed list of metrics: describe, update, render. The sanitised names are pairwise
/// distinct (the property's precondition). Returns whether two families collide (share a name).
fn adjacent_session(out: &mut Out, unit_suffix: bool, hist: bool, ms: &[AdjMetric]) -> bool {
    static META: metrics::Metadata<'static> = metrics::Metadata::new("mv", metrics::Level::INFO, None);
    use metrics::Recorder;
    let mut b = metrics_exporter_prometheus::PrometheusBuilder::new().set_enable_unit_suffix(unit_suffix);
    if hist {
        b = b.set_buckets(&[0.0, 1.0]).unwrap();
    }
    let rec = b.build_recorder();
    let handle = rec.handle();
    let qtexts = ["0", "0.5", "0.9", "0.95", "0.99", "0.999", "1"];
    out.op(
        &format!(
            "prom new {} . {} . {}",
            unit_suffix as u8,
            if hist { "0+1024" } else { "~" },
            list(qtexts.iter().map(|q| hexs(q)))
        ),
        "ok",
    );
    let dist_ty = if hist { "histogram" } else { "summary" };
    let mut fams: Vec<(String, &str, Option<String>)> = vec![]; // (family name, type, HELP text)
    for m in ms {
        let san = f::sanitize_metric_name(&m.raw);
        let kn = metrics::KeyName::from(m.raw.clone());
        if let Some((d, u)) = &m.desc {
            match m.kind {
                0 => rec.describe_counter(kn, *u, d.clone().into()),
                1 => rec.describe_gauge(kn, *u, d.clone().into()),
                _ => rec.describe_histogram(kn, *u, d.clone().into()),
            }
            out.op(&format!("prom describe {} {} {}", hexs(&m.raw), unit_tok(*u), hexs(d)), "ok");
        }
        let unit = m.desc.as_ref().and_then(|d| d.1).filter(|_| unit_suffix);
        fams.push((
            format!("{}{}", san, unit_sfx(unit)),
            ["counter", "gauge", dist_ty][m.kind as usize],
            m.desc.as_ref().map(|d| f::sanitize_description(&d.0)),
        ));
        let labels: Vec<(String, String)> = if m.labelled { vec![("k".into(), "v".into())] } else { vec![] };
        let key = metrics::Key::from_parts(
            m.raw.clone(),
            labels.iter().map(|(k, v)| metrics::Label::new(k.clone(), v.clone())).collect::<Vec<_>>(),
        );
        let kt = format!("{} {}", hexs(&m.raw), pairs(&labels));
        match m.kind {
            0 => {
                rec.register_counter(&key, &META).increment(3);
                out.op(&format!("prom cinc {} 3", kt), "ok");
            }
            1 => {
                rec.register_gauge(&key, &META).set(crate::prom::dy(512));
                out.op(&format!("prom gset {} d512", kt), "ok");
            }
            _ => {
                rec.register_histogram(&key, &META).record(crate::prom::dy(1024));
                out.op(&format!("prom hrec {} 1024", kt), "ok");
            }
        }
    }
    let mut collide = false;
    for i in 0..fams.len() {
        for j in 0..i {
            let (a, b) = (occupied(&fams[i].0, fams[i].1), occupied(&fams[j].0, fams[j].1));
            if a.iter().any(|x| b.contains(x)) {
                collide = true;
            }
        }
    }
    let text = handle.render();
    out.op("prom render", &crate::prom::canonical(&text));
    out.nontrivial();
    if !collide {
        match crate::expo::check_exposition(&text) {
            Ok(parsed) => {
                for (fam, ty, help) in &fams {
                    if parsed.iter().filter(|p| p.name == *fam && p.ty == *ty && !p.samples.is_empty() && p.help == *help).count() != 1 {
                        out.oracle_fail(
                            "render(): a family is not announced once under its name (sanitised name + unit suffix), type and own description",
                            &format!("family {} ({}) help {:?} :: {:?}", fam, ty, help, text),
                        );
                    }
                }
            }
            Err(e) => out.oracle_fail("render(): not well-formed exposition text", &format!("{} :: {:?}", e, text)),
        }
    }
    collide
}

/// The witness of the Lean theorem `C08.type_lines_unique_false` and random sessions over names that are
/// `_`-extensions of one another. Sessions in which two families really share a name (a unit suffix or a
/// type suffix makes one family's name equal to a name of another family — the recorder does not prevent
/// this, see REPORT / `type_lines_unique_false`) are only compared with the model, which reproduces the
/// behaviour; all others go through the strict reader as well.
pub fn run_adjacent(cfg: &Cfg, out: &mut Out) {
    out.case("adjacent witness: counter a described with Unit::Bytes + counter a_bytes, unit suffix on");
    let w = [
        AdjMetric { raw: "a".into(), kind: 0, desc: Some(("d".into(), Some(Unit::Bytes))), labelled: false },
        AdjMetric { raw: "a_bytes".into(), kind: 0, desc: None, labelled: false },
    ];
    let c = adjacent_session(out, true, false, &w);
    assert!(c, "witness must be classified as a collision");
    // genuine defect, recorded as a known finding (known_findings.json: K-C08-family-collision): reported on every run
    out.oracle_fail(
        "K-C08-family-collision: two families share one name, so the text has two TYPE lines for it and a duplicate series",
        "unit suffix on: counter `a` described with Unit::Bytes and counter `a_bytes` both render as family a_bytes (Lean: C08.type_lines_unique_false); same for summary `a` + gauge `a_sum`",
    );
    out.case("adjacent witness 2: summary a + gauge a_sum");
    let w2 = [
        AdjMetric { raw: "a".into(), kind: 2, desc: None, labelled: false },
        AdjMetric { raw: "a_sum".into(), kind: 1, desc: None, labelled: true },
    ];
    adjacent_session(out, false, false, &w2);
    let root = Rng::new(cfg.seed ^ 0xAD7A);
    let tails = [
        "", "_bytes", "_seconds", "_ratio", "_count", "_sum", "_bucket", "_total", "_bytes_sum", "_seconds_count",
        "_seconds_bucket", ".bytes", "-sum", "_", "__sum", "_percent", "_bytes_bytes", "²bytes",
    ];
    let units = [Some(Unit::Bytes), Some(Unit::Seconds), Some(Unit::Percent), Some(Unit::Count), None];
    for i in 0..cfg.cases / 2 {
        let mut r = root.fork(i as u64);
        out.case(&format!("adjacent seed={} i={}", cfg.seed, i));
        let base = r.pick_str(&["a", "lat", "x:y", "9"]);
        let mut ms: Vec<AdjMetric> = vec![];
        let mut tries = 0;
        let want = r.range(2, 4);
        while ms.len() < want && tries < 20 {
            tries += 1;
            let raw = format!("{}{}", base, r.pick_str(&tails));
            let san = f::sanitize_metric_name(&raw);
            if ms.iter().any(|m| f::sanitize_metric_name(&m.raw) == san) {
                continue;
            }
            let desc = if r.chance(2, 3) { Some((hostile_string(&mut r, false), *r.pick(&units))) } else { None };
            ms.push(AdjMetric { raw, kind: r.below(3) as u8, desc, labelled: r.chance(1, 3) });
        }
        let collide = adjacent_session(out, r.chance(3, 4), r.chance(1, 2), &ms);
        out.count(if collide { "adjacent.colliding (model diff only)" } else { "adjacent.disjoint (strict reader)" });
    }
}

fn emit_fn_ops(out: &mut Out, s: &str) {
    out.op(&format!("c08 name {}", hexs(s)), &hexs(&f::sanitize_metric_name(s)));
    out.op(&format!("c08 lkey {}", hexs(s)), &hexs(&f::sanitize_label_key(s)));
    out.op(&format!("c08 lval {}", hexs(s)), &hexs(&f::sanitize_label_value(s)));
    out.op(&format!("c08 desc {}", hexs(s)), &hexs(&f::sanitize_description(s)));
    let mut b = String::new();
    f::write_help_line(&mut b, "fam", s);
    out.op(&format!("c08 help {} {}", hexs("fam"), hexs(s)), &hexs(&b));
    if !matches!(crate::expo::parse_line(b.strip_suffix('\n').unwrap_or("\n")), Ok(crate::expo::PLine::Help { .. })) {
        out.oracle_fail("write_help_line: not a HELP line", &b);
    }
    // a label value must stay inside its quotes
    let line = format!("m{{k=\"{}\"}} 1", f::sanitize_label_value(s));
    match crate::expo::parse_line(&line) {
        Ok(crate::expo::PLine::Sample { ref labels, .. }) if labels.len() == 1 => {}
        other => out.oracle_fail("sanitize_label_value: value escapes its quotes", &format!("{:?} :: {:?}", other, line)),
    }
    if !s.is_empty() {
        if !crate::expo::is_metric_name(&f::sanitize_metric_name(s)) {
            out.oracle_fail("sanitize_metric_name: not a metric name", s);
        }
        if !crate::expo::is_label_name(&f::sanitize_label_key(s)) {
            out.oracle_fail("sanitize_label_key: not a label name", s);
        }
    }
}
