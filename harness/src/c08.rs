//! C08 — Prometheus output is well-formed exposition text for any input strings.
//!
//! Stream A (correspondence): the public `formatting` functions on hostile strings, byte-for-byte
//! against the Lean model (`c08 …` ops).
//! Stream B (implementation-side oracle + correspondence through the `prom` model, see prom.rs):
//! whole `render()` outputs read by the strict exposition reader in expo.rs.

use crate::util::*;
use metrics::Unit;
use metrics_exporter_prometheus::formatting as f;

pub const UNITS: [Unit; 17] = [
    Unit::Count,
    Unit::Percent,
    Unit::Seconds,
    Unit::Milliseconds,
    Unit::Microseconds,
    Unit::Nanoseconds,
    Unit::Tebibytes,
    Unit::Gibibytes,
    Unit::Mebibytes,
    Unit::Kibibytes,
    Unit::Bytes,
    Unit::TerabitsPerSecond,
    Unit::GigabitsPerSecond,
    Unit::MegabitsPerSecond,
    Unit::KilobitsPerSecond,
    Unit::BitsPerSecond,
    Unit::CountPerSecond,
];

pub fn unit_tok(u: Option<Unit>) -> String {
    match u {
        Some(u) => u.as_str().to_string(),
        None => "~".to_string(),
    }
}

fn class_of(s: &str) -> &'static str {
    if s.is_empty() {
        "empty"
    } else if s.contains('\n') {
        "newline"
    } else if s.contains('\\') {
        "backslash"
    } else if s.contains('"') {
        "quote"
    } else if !s.is_ascii() {
        "nonascii"
    } else {
        "plain"
    }
}

pub fn run(cfg: &Cfg, out: &mut Out) {
    let root = Rng::new(cfg.seed);
    // corpus first: past findings and the hand-picked nasty inputs
    let corpus: &[&str] = &[
        "",
        "\\",
        "\\\\",
        "\\\n",
        "\\\"",
        "\"",
        "\n",
        "a\\\nb\\",
        "x\"} 1\n# TYPE evil counter\nevil 1\n",
        "9abc",
        ":ok",
        "é",
        "a\u{0}b",
        "\\\\\\",
        "\\n",
        "\\\\n\"",
    ];
    out.case("corpus");
    for s in corpus {
        emit_fn_ops(out, s);
    }
    for i in 0..cfg.cases {
        let mut r = root.fork(i as u64);
        out.case(&format!("seed={} i={}", cfg.seed, i));
        let s = wild_string(&mut r, false);
        out.count(&format!("strclass.{}", class_of(&s)));
        if class_of(&s) != "plain" && class_of(&s) != "empty" {
            out.nontrivial();
        }
        emit_fn_ops(out, &s);
        // write_metric_line with all parts
        let name = f::sanitize_metric_name(&wild_string(&mut r, true));
        let suffix: Option<&'static str> = *r.pick(&[None, Some("bucket"), Some("sum"), Some("count")]);
        let nlabels = r.below(4);
        let labels: Vec<String> = (0..nlabels)
            .map(|_| {
                let k = wild_string(&mut r, true);
                let v = wild_string(&mut r, false);
                format!("{}=\"{}\"", f::sanitize_label_key(&k), f::sanitize_label_value(&v))
            })
            .collect();
        let extra: Option<(&'static str, String)> = match r.below(3) {
            0 => None,
            1 => Some(("le", r.pick(&["0.5", "1", "+Inf", "0.005"]).to_string())),
            _ => Some(("quantile", r.pick(&["0", "0.5", "0.99", "1"]).to_string())),
        };
        let value = r.pick(&["0", "1", "18446744073709551615", "0.25", "NaN", "inf", "-inf", "1e-7"]).to_string();
        let unit: Option<Unit> = if r.chance(1, 3) { None } else { Some(*r.pick(&UNITS)) };
        out.count(&format!("line.labels={} extra={} unit={}", nlabels, extra.is_some(), unit.is_some()));
        let mut buf = String::new();
        f::write_metric_line(&mut buf, &name, suffix, &labels, extra.clone(), value.as_str(), unit);
        out.op(
            &format!(
                "c08 line {} {} {} {} {} {}",
                hexs(&name),
                opt_hexs(suffix),
                list(labels.iter().map(|l| hexs(l))),
                match &extra {
                    Some((k, v)) => format!("{}:{}", hexs(k), hexs(v)),
                    None => "~".into(),
                },
                hexs(&value),
                unit_tok(unit)
            ),
            &hexs(&buf),
        );
        // the line must read back as one sample (implementation-side oracle)
        match crate::expo::parse_line(buf.strip_suffix('\n').unwrap_or(&buf)) {
            Ok(crate::expo::PLine::Sample { labels: pl, value: pv, .. }) => {
                if pl.len() != labels.len() + extra.is_some() as usize || pv != value || !buf.ends_with('\n') {
                    out.oracle_fail("write_metric_line: sample read back differently", &buf);
                }
            }
            other => out.oracle_fail("write_metric_line: not a sample line", &format!("{:?} :: {:?}", other, buf)),
        }
        // key_to_parts
        let kname = wild_string(&mut r, true);
        let klabels: Vec<(String, String)> =
            (0..r.below(4)).map(|_| (wild_string(&mut r, true), wild_string(&mut r, false))).collect();
        let mut globals: Vec<(String, String)> = vec![];
        for _ in 0..r.below(3) {
            // sometimes the same name as a key label, so that the override path is taken
            let k = if !klabels.is_empty() && r.chance(1, 2) {
                klabels[r.below(klabels.len())].0.clone()
            } else {
                wild_string(&mut r, true)
            };
            if !globals.iter().any(|(g, _)| *g == k) {
                globals.push((k, wild_string(&mut r, false)));
            }
        }
        let key = metrics::Key::from_parts(
            kname.clone(),
            klabels.iter().map(|(k, v)| metrics::Label::new(k.clone(), v.clone())).collect::<Vec<_>>(),
        );
        let gl: indexmap::IndexMap<String, String> = globals.iter().cloned().collect();
        let (pn, pl) = f::key_to_parts(&key, Some(&gl));
        out.op(
            &format!("c08 parts {} {} {}", hexs(&kname), pairs(&klabels), pairs(&globals)),
            &format!("{} {}", hexs(&pn), list(pl.iter().map(|l| hexs(l)))),
        );
    }
}

/// stream B: whole sessions with hostile strings everywhere
pub fn run_sessions(cfg: &Cfg, out: &mut Out) {
    let root = Rng::new(cfg.seed ^ 0xC08);
    for i in 0..cfg.cases / 2 {
        let mut r = root.fork(i as u64);
        out.case(&format!("render seed={} i={}", cfg.seed, i));
        crate::prom::session(&mut r, out, crate::prom::Flavour::Strings);
    }
}

fn emit_fn_ops(out: &mut Out, s: &str) {
    out.op(&format!("c08 name {}", hexs(s)), &hexs(&f::sanitize_metric_name(s)));
    out.op(&format!("c08 lkey {}", hexs(s)), &hexs(&f::sanitize_label_key(s)));
    out.op(&format!("c08 lval {}", hexs(s)), &hexs(&f::sanitize_label_value(s)));
    out.op(&format!("c08 desc {}", hexs(s)), &hexs(&f::sanitize_description(s)));
    let mut b = String::new();
    f::write_help_line(&mut b, "fam", s);
    out.op(&format!("c08 help {} {}", hexs("fam"), hexs(s)), &hexs(&b));
    if !matches!(crate::expo::parse_line(b.strip_suffix('\n').unwrap_or("\n")), Ok(crate::expo::PLine::Help { .. })) {
        out.oracle_fail("write_help_line: not a HELP line", &b);
    }
    // a label value must stay inside its quotes
    let line = format!("m{{k=\"{}\"}} 1", f::sanitize_label_value(s));
    match crate::expo::parse_line(&line) {
        Ok(crate::expo::PLine::Sample { ref labels, .. }) if labels.len() == 1 => {}
        other => out.oracle_fail("sanitize_label_value: value escapes its quotes", &format!("{:?} :: {:?}", other, line)),
    }
    if !s.is_empty() {
        if !crate::expo::is_metric_name(&f::sanitize_metric_name(s)) {
            out.oracle_fail("sanitize_metric_name: not a metric name", s);
        }
        if !crate::expo::is_label_name(&f::sanitize_label_key(s)) {
            out.oracle_fail("sanitize_label_key: not a label name", s);
        }
    }
}
