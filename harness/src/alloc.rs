//! Tracking global allocator for C14 (ownership of `metrics::Cow`).
//!
//! A thin wrapper over `std::alloc::System`.  Until `install()` has been called it is a pure pass-through
//! (one relaxed atomic load per call), so the other properties' streams are unaffected.
//!
//! After `install()` EVERY allocation of the process is recorded in a fixed-size static table (no heap use
//! inside the allocator, one spin lock), each entry flagged either
//!   * tracked(epoch)  — made inside `alloc::track(|| ..)` on the calling thread while a case is started, or
//!   * untracked       — everything else (harness bookkeeping, thread spawn, output buffers).
//! `live()` = number of tracked entries of the CURRENT epoch (= case) that are not freed yet.  A free of a
//! tracked entry decrements it wherever and whenever it happens (other thread, outside a `track` window);
//! a free of an untracked entry never changes it.
//!
//! Fault rule (documented here because soundness of the oracle rests on it):
//!   * double free           — the pointer is in the table in state FREED (kept as a tombstone until the
//!                             address is handed out again by System, or the table is compacted);
//!   * free of unknown pointer — the pointer is not in the table AND the free happens inside a `track`
//!                             window.  Sound because everything the code under test may free inside such a
//!                             window was allocated after `install()` (all of it happens inside `c14::run`).
//!                             An unknown pointer freed OUTSIDE a window is a pre-`install()` allocation and
//!                             is forwarded silently;
//!   * bad layout            — the pointer is live in the table but `layout.size()` is not the recorded size.
//! A faulty free is NOT forwarded to System (the heap stays intact, the harness survives to report it).
//!
//! Use-after-free: a tracked block that is freed is first filled with 0xDD and parked in a small quarantine
//! ring before it really goes back to System, so a later read through a dangling pointer shows up in the
//! content oracle as changed content, and the address is not reused at once (double frees stay visible).
#![allow(dead_code)]

use std::alloc::{GlobalAlloc, Layout, System};
use std::cell::Cell;
use std::sync::atomic::{AtomicBool, AtomicIsize, AtomicUsize, Ordering};

pub struct Tracking;

static INSTALLED: AtomicBool = AtomicBool::new(false);
/// a case is running (between `start()` and `stop()`)
static ACTIVE: AtomicBool = AtomicBool::new(false);
static EPOCH: AtomicUsize = AtomicUsize::new(0);
static LIVE: AtomicIsize = AtomicIsize::new(0);
static LOCK: AtomicBool = AtomicBool::new(false);
/// byte written over a freed tracked block (0xDD for byte strings; 0x00 for slices whose elements contain
/// pointers, so that a read through a dangling pointer sees empty values instead of wild pointers)
static POISON: std::sync::atomic::AtomicU8 = std::sync::atomic::AtomicU8::new(0xDD);
pub fn set_poison(b: u8) {
    POISON.store(b, Ordering::Relaxed);
}

thread_local! {
    /// threads are untracked by default; `track(|| ..)` opts the calling thread in for the closure
    static TRACKED: Cell<bool> = const { Cell::new(false) };
}

const BITS: usize = 17;
const SLOTS: usize = 1 << BITS;
const EMPTY: usize = 0;
const ST_LIVE: usize = 1;
const ST_FREED: usize = 2;

#[derive(Clone, Copy)]
struct Slot {
    ptr: usize,
    size: usize,
    /// 0 = untracked, else the epoch in which the tracked allocation was made
    epoch: usize,
    state: usize,
}
const SLOT0: Slot = Slot { ptr: 0, size: 0, epoch: 0, state: EMPTY };

#[derive(Clone, Copy)]
struct Fault {
    kind: u8,
    ptr: usize,
    size: usize,
    recorded: usize,
}
const MAX_FAULTS: usize = 32;
const QUAR: usize = 512;

struct Tables {
    active: usize,
    used: [usize; 2],
    tab: [[Slot; SLOTS]; 2],
    nfaults: usize,
    total_faults: usize,
    faults: [Fault; MAX_FAULTS],
    qpos: usize,
    quar: [(usize, usize, usize); QUAR],
}

static mut T: Tables = Tables {
    active: 0,
    used: [0, 0],
    tab: [[SLOT0; SLOTS]; 2],
    nfaults: 0,
    total_faults: 0,
    faults: [Fault { kind: 0, ptr: 0, size: 0, recorded: 0 }; MAX_FAULTS],
    qpos: 0,
    quar: [(0, 0, 0); QUAR],
};

struct Guard;
fn lock() -> Guard {
    while LOCK.compare_exchange_weak(false, true, Ordering::Acquire, Ordering::Relaxed).is_err() {
        std::hint::spin_loop();
    }
    Guard
}
impl Drop for Guard {
    fn drop(&mut self) {
        LOCK.store(false, Ordering::Release);
    }
}

#[inline]
fn hash(p: usize) -> usize {
    ((p >> 3).wrapping_mul(0x9E37_79B9_7F4A_7C15) >> (64 - BITS)) & (SLOTS - 1)
}

#[inline]
fn thread_tracked() -> bool {
    ACTIVE.load(Ordering::Relaxed) && TRACKED.try_with(|t| t.get()).unwrap_or(false)
}

impl Tables {
    /// index of the slot holding `p` (live or freed)
    fn find(&self, p: usize) -> Option<usize> {
        let tab = &self.tab[self.active];
        let mut i = hash(p);
        for _ in 0..SLOTS {
            let s = &tab[i];
            if s.state == EMPTY {
                return None;
            }
            if s.ptr == p {
                return Some(i);
            }
            i = (i + 1) & (SLOTS - 1);
        }
        None
    }

    fn insert_raw(&mut self, which: usize, slot: Slot) {
        let tab = &mut self.tab[which];
        let mut i = hash(slot.ptr);
        loop {
            if tab[i].state == EMPTY {
                tab[i] = slot;
                self.used[which] += 1;
                return;
            }
            if tab[i].ptr == slot.ptr {
                tab[i] = slot;
                return;
            }
            i = (i + 1) & (SLOTS - 1);
        }
    }

    /// drop all FREED tombstones by rebuilding into the other table
    fn compact(&mut self) {
        let from = self.active;
        let to = 1 - from;
        for s in self.tab[to].iter_mut() {
            *s = SLOT0;
        }
        self.used[to] = 0;
        for i in 0..SLOTS {
            let s = self.tab[from][i];
            if s.state == ST_LIVE {
                self.insert_raw(to, s);
            }
        }
        self.active = to;
    }

    fn record(&mut self, p: usize, size: usize, epoch: usize) {
        if self.used[self.active] > SLOTS / 2 {
            self.compact();
            if self.used[self.active] > SLOTS * 3 / 4 {
                // more than 98 000 live allocations: not a situation this harness creates
                std::process::abort();
            }
        }
        let a = self.active;
        self.insert_raw(a, Slot { ptr: p, size, epoch, state: ST_LIVE });
    }

    fn fault(&mut self, kind: u8, ptr: usize, size: usize, recorded: usize) {
        self.total_faults += 1;
        if self.nfaults < MAX_FAULTS {
            self.faults[self.nfaults] = Fault { kind, ptr, size, recorded };
            self.nfaults += 1;
        }
    }
}

const F_DOUBLE: u8 = 1;
const F_UNKNOWN: u8 = 2;
const F_LAYOUT: u8 = 3;
const F_REALLOC_FREED: u8 = 4;
const F_REALLOC_UNKNOWN: u8 = 5;

unsafe fn on_alloc(p: *mut u8, size: usize) {
    if p.is_null() {
        return;
    }
    let epoch = if thread_tracked() { EPOCH.load(Ordering::Relaxed) } else { 0 };
    let _g = lock();
    let t = &mut *std::ptr::addr_of_mut!(T);
    t.record(p as usize, size, epoch);
    if epoch != 0 {
        LIVE.fetch_add(1, Ordering::Relaxed);
    }
}

/// what `dealloc` has to do with the block after the bookkeeping
enum Free {
    Forward,
    Skip,
    /// forward this older quarantined block instead (ptr, size, align); `None` = nothing to forward yet
    Quarantined(Option<(usize, usize, usize)>),
}

unsafe fn on_dealloc(p: *mut u8, layout: Layout) -> Free {
    let tracked_now = thread_tracked();
    let _g = lock();
    let t = &mut *std::ptr::addr_of_mut!(T);
    match t.find(p as usize) {
        None => {
            if tracked_now {
                t.fault(F_UNKNOWN, p as usize, layout.size(), 0);
                Free::Skip
            } else {
                Free::Forward
            }
        }
        Some(i) => {
            let a = t.active;
            let s = t.tab[a][i];
            if s.state == ST_FREED {
                t.fault(F_DOUBLE, p as usize, layout.size(), s.size);
                return Free::Skip;
            }
            if s.size != layout.size() {
                t.fault(F_LAYOUT, p as usize, layout.size(), s.size);
                // whose block this is cannot be known (the address may have been handed out again after a
                // move by `realloc`): it is not released, the entry stays live (a leak instead of a corruption)
                return Free::Skip;
            }
            t.tab[a][i].state = ST_FREED;
            if s.epoch != 0 {
                if s.epoch == EPOCH.load(Ordering::Relaxed) {
                    LIVE.fetch_sub(1, Ordering::Relaxed);
                }
                // poison + quarantine
                std::ptr::write_bytes(p, POISON.load(Ordering::Relaxed), s.size);
                let q = t.qpos;
                let old = t.quar[q];
                t.quar[q] = (p as usize, s.size, layout.align());
                t.qpos = (q + 1) % QUAR;
                Free::Quarantined(if old.0 != 0 { Some(old) } else { None })
            } else {
                Free::Forward
            }
        }
    }
}

// ---------------------------------------------------------------------------------------------
// allocation trap (C11): a thread may ask to be handed to a callback at its next allocation of one
// exact size — a yield point inside code that cannot carry a hook (e.g. `Key::clone()` between the
// gate load and `try_send` of the TCP exporter's `push_metric`). Off by default (one relaxed load).
static TRAP_ON: AtomicBool = AtomicBool::new(false);
static TRAP_FN: AtomicUsize = AtomicUsize::new(0);
thread_local! {
    static TRAP_SIZE: Cell<usize> = const { Cell::new(0) };
}

/// installs (or removes) the process-wide trap callback
pub fn set_trap_fn(f: Option<fn()>) {
    TRAP_FN.store(f.map_or(0, |f| f as usize), Ordering::SeqCst);
    TRAP_ON.store(f.is_some(), Ordering::SeqCst);
}

/// the calling thread's next allocation of exactly `size` bytes calls the trap callback (one shot)
pub fn arm_trap(size: usize) {
    TRAP_SIZE.with(|c| c.set(size));
}

/// returns whether the trap was still armed (i.e. did not fire)
pub fn disarm_trap() -> bool {
    TRAP_SIZE.with(|c| c.replace(0) != 0)
}

#[inline]
fn trap_check(size: usize) {
    if size == 0 {
        return;
    }
    let hit = TRAP_SIZE.try_with(|c| if c.get() == size { c.set(0); true } else { false }).unwrap_or(false);
    if hit {
        let raw = TRAP_FN.load(Ordering::SeqCst);
        if raw != 0 {
            // SAFETY: only `fn()` pointers are ever stored
            let f: fn() = unsafe { std::mem::transmute(raw) };
            f();
        }
    }
}

unsafe impl GlobalAlloc for Tracking {
    unsafe fn alloc(&self, layout: Layout) -> *mut u8 {
        let p = System.alloc(layout);
        if TRAP_ON.load(Ordering::Relaxed) {
            trap_check(layout.size());
        }
        if INSTALLED.load(Ordering::Relaxed) {
            on_alloc(p, layout.size());
        }
        p
    }

    unsafe fn alloc_zeroed(&self, layout: Layout) -> *mut u8 {
        let p = System.alloc_zeroed(layout);
        if INSTALLED.load(Ordering::Relaxed) {
            on_alloc(p, layout.size());
        }
        p
    }

    unsafe fn dealloc(&self, p: *mut u8, layout: Layout) {
        if !INSTALLED.load(Ordering::Relaxed) {
            return System.dealloc(p, layout);
        }
        match on_dealloc(p, layout) {
            Free::Forward => System.dealloc(p, layout),
            Free::Skip => {}
            Free::Quarantined(None) => {}
            Free::Quarantined(Some((q, size, align))) => {
                System.dealloc(q as *mut u8, Layout::from_size_align_unchecked(size, align))
            }
        }
    }

    /// bookkeeping: the entry moves to the new address and size, its tracked/untracked flag and the live
    /// count are unchanged
    unsafe fn realloc(&self, p: *mut u8, layout: Layout, new_size: usize) -> *mut u8 {
        if !INSTALLED.load(Ordering::Relaxed) {
            return System.realloc(p, layout, new_size);
        }
        let tracked_now = thread_tracked();
        // look the entry up first
        let found = {
            let _g = lock();
            let t = &mut *std::ptr::addr_of_mut!(T);
            match t.find(p as usize) {
                None => {
                    if tracked_now {
                        t.fault(F_REALLOC_UNKNOWN, p as usize, layout.size(), 0);
                        Err(true)
                    } else {
                        Err(false) // pre-install allocation
                    }
                }
                Some(i) => {
                    let a = t.active;
                    let s = t.tab[a][i];
                    if s.state == ST_FREED {
                        t.fault(F_REALLOC_FREED, p as usize, layout.size(), s.size);
                        Err(true)
                    } else {
                        if s.size != layout.size() {
                            t.fault(F_LAYOUT, p as usize, layout.size(), s.size);
                        }
                        // the old address is given up before System may hand it to another thread
                        t.tab[a][i].state = ST_FREED;
                        Ok((s.epoch, s.size))
                    }
                }
            }
        };
        match found {
            Err(true) => {
                // faulty: do not touch the old block; hand out a fresh one so the caller can go on
                let np = System.alloc(Layout::from_size_align_unchecked(new_size, layout.align()));
                if !np.is_null() {
                    std::ptr::write_bytes(np, POISON.load(Ordering::Relaxed), new_size);
                    let _g = lock();
                    let t = &mut *std::ptr::addr_of_mut!(T);
                    t.record(np as usize, new_size, 0);
                }
                np
            }
            Err(false) => {
                let np = System.realloc(p, layout, new_size);
                if !np.is_null() {
                    let _g = lock();
                    let t = &mut *std::ptr::addr_of_mut!(T);
                    t.record(np as usize, new_size, 0);
                }
                np
            }
            Ok((epoch, old_size)) if epoch != 0 => {
                // a tracked block moves: always to a fresh address, and the old one goes through the
                // quarantine like any freed tracked block, so that a stale alias of the old buffer neither
                // reads reused memory nor frees somebody else's block
                let np = System.alloc(Layout::from_size_align_unchecked(new_size, layout.align()));
                if np.is_null() {
                    let _g = lock();
                    let t = &mut *std::ptr::addr_of_mut!(T);
                    t.record(p as usize, old_size, epoch);
                    return np;
                }
                std::ptr::copy_nonoverlapping(p, np, old_size.min(new_size));
                let old = {
                    let _g = lock();
                    let t = &mut *std::ptr::addr_of_mut!(T);
                    t.record(np as usize, new_size, epoch);
                    std::ptr::write_bytes(p, POISON.load(Ordering::Relaxed), old_size);
                    let q = t.qpos;
                    let old = t.quar[q];
                    t.quar[q] = (p as usize, old_size, layout.align());
                    t.qpos = (q + 1) % QUAR;
                    old
                };
                if old.0 != 0 {
                    System.dealloc(old.0 as *mut u8, Layout::from_size_align_unchecked(old.1, old.2));
                }
                np
            }
            Ok((epoch, old_size)) => {
                let np = System.realloc(p, layout, new_size);
                let _g = lock();
                let t = &mut *std::ptr::addr_of_mut!(T);
                if !np.is_null() {
                    t.record(np as usize, new_size, epoch);
                } else {
                    t.record(p as usize, old_size, epoch); // failed: the old block is still the caller's
                }
                np
            }
        }
    }
}

// ---------------------------------------------------------------------------------------------
// control surface (called from c14.rs only)

/// from now on every allocation of the process is recorded
pub fn install() {
    INSTALLED.store(true, Ordering::SeqCst);
}

/// start of a case: new epoch, live count 0, fault list cleared
pub fn start() {
    let _g = lock();
    unsafe {
        let t = &mut *std::ptr::addr_of_mut!(T);
        t.nfaults = 0;
        t.total_faults = 0;
    }
    EPOCH.fetch_add(1, Ordering::SeqCst);
    LIVE.store(0, Ordering::SeqCst);
    ACTIVE.store(true, Ordering::SeqCst);
}

pub fn stop() {
    ACTIVE.store(false, Ordering::SeqCst);
}

/// number of live tracked allocations of the current case
pub fn live() -> isize {
    LIVE.load(Ordering::SeqCst)
}

pub fn has_faults() -> bool {
    let _g = lock();
    unsafe { (*std::ptr::addr_of!(T)).total_faults != 0 }
}

/// faults since the last call / `start()`, as text
pub fn take_faults() -> Vec<String> {
    let (fs, n, total) = {
        let _g = lock();
        unsafe {
            let t = &mut *std::ptr::addr_of_mut!(T);
            let r = (t.faults, t.nfaults, t.total_faults);
            t.nfaults = 0;
            t.total_faults = 0;
            r
        }
    };
    let mut v = Vec::new();
    for f in &fs[..n] {
        let kind = match f.kind {
            F_DOUBLE => "double free",
            F_UNKNOWN => "free of unknown pointer",
            F_LAYOUT => "bad layout",
            F_REALLOC_FREED => "realloc of freed pointer",
            _ => "realloc of unknown pointer",
        };
        // no addresses in the text (they differ from run to run)
        v.push(format!("{}: size given {} size recorded {}", kind, f.size, f.recorded));
    }
    if total > n {
        v.push(format!("... and {} more faults", total - n));
    }
    v
}

/// size recorded for the LIVE block that starts at `p` (None: not the start of a live block) — lets an oracle
/// compare the capacity a `String`/`Vec` claims with what was really allocated for it
pub fn block_size(p: usize) -> Option<usize> {
    let _g = lock();
    unsafe {
        let t = &*std::ptr::addr_of!(T);
        t.find(p).and_then(|i| {
            let s = t.tab[t.active][i];
            if s.state == ST_LIVE {
                Some(s.size)
            } else {
                None
            }
        })
    }
}

struct Restore(bool);
impl Drop for Restore {
    fn drop(&mut self) {
        let _ = TRACKED.try_with(|t| t.set(self.0));
    }
}

/// run `f` with allocation tracking on for the calling thread: ONLY code inside such a closure counts
pub fn track<R>(f: impl FnOnce() -> R) -> R {
    let prev = TRACKED.try_with(|t| t.replace(true)).unwrap_or(false);
    let _r = Restore(prev);
    f()
}

/// run `f` untracked (harness bookkeeping nested inside a tracked region)
pub fn untracked<R>(f: impl FnOnce() -> R) -> R {
    let prev = TRACKED.try_with(|t| t.replace(false)).unwrap_or(false);
    let _r = Restore(prev);
    f()
}
