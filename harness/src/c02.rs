//! C02 — the global recorder is installed at most once and is seen whole by everyone.
//!
//! Real `RecorderOnceCell`s (fresh per run, via `metrics::verif::RecorderCell`) raced by installer and
//! loader threads under the deterministic scheduler; the granted schedule is replayed on the Lean step
//! machine (`cell run …`), which must take the same steps (same point ids) and produce the same results.
//! A subprocess-free test of the real `GLOBAL_RECORDER` is part of C01's stream.

use crate::sched;
use crate::util::*;
use metrics::{Counter, Gauge, Histogram, Key, KeyName, Metadata, Recorder, SharedString, Unit};
use std::sync::atomic::{AtomicUsize, Ordering};
use std::sync::{Arc, Mutex};

/// id of the recorder double that was last called (only one managed thread runs at a time)
static LAST_CALLED: AtomicUsize = AtomicUsize::new(usize::MAX);

struct Rec {
    id: usize,
    drops: Arc<Vec<AtomicUsize>>,
    whole: u64, // set last in the constructor; a recorder seen "whole" has the magic value
}
impl Drop for Rec {
    fn drop(&mut self) {
        self.drops[self.id].fetch_add(1, Ordering::SeqCst);
    }
}
impl Recorder for Rec {
    fn describe_counter(&self, _: KeyName, _: Option<Unit>, _: SharedString) {
        let v = if self.whole == 0xC0FFEE { self.id } else { 9999 };
        LAST_CALLED.store(v, Ordering::SeqCst);
    }
    fn describe_gauge(&self, _: KeyName, _: Option<Unit>, _: SharedString) {}
    fn describe_histogram(&self, _: KeyName, _: Option<Unit>, _: SharedString) {}
    fn register_counter(&self, _: &Key, _: &Metadata<'_>) -> Counter {
        Counter::noop()
    }
    fn register_gauge(&self, _: &Key, _: &Metadata<'_>) -> Gauge {
        Gauge::noop()
    }
    fn register_histogram(&self, _: &Key, _: &Metadata<'_>) -> Histogram {
        Histogram::noop()
    }
}

#[derive(Clone, Copy, Debug)]
enum Call {
    Set(usize),
    Load,
}

fn prog_tok(p: &[Call]) -> String {
    if p.is_empty() {
        return "-".into();
    }
    p.iter()
        .map(|c| match c {
            Call::Set(r) => format!("s{}", r),
            Call::Load => "l".to_string(),
        })
        .collect::<Vec<_>>()
        .join("+")
}

struct Outcome {
    results: Vec<Vec<String>>,
    final_cell: Option<usize>,
    drops: Vec<usize>,
    run: sched::RunResult,
}

fn execute(progs: &[Vec<Call>], schedule: &[usize]) -> Outcome {
    let cell = Arc::new(metrics::verif::RecorderCell::new());
    let nrec = 16;
    let drops: Arc<Vec<AtomicUsize>> = Arc::new((0..nrec).map(|_| AtomicUsize::new(0)).collect());
    let results: Arc<Mutex<Vec<Vec<String>>>> = Arc::new(Mutex::new(vec![vec![]; progs.len()]));
    let mut bodies: Vec<Box<dyn FnOnce() + Send + 'static>> = vec![];
    for (t, prog) in progs.iter().enumerate() {
        let prog = prog.clone();
        let cell = cell.clone();
        let drops = drops.clone();
        let results = results.clone();
        bodies.push(Box::new(move || {
            for c in prog {
                let r = match c {
                    Call::Set(id) => {
                        let rec = Rec { id, drops: drops.clone(), whole: 0xC0FFEE };
                        match cell.set(rec) {
                            Ok(()) => "ok".to_string(),
                            Err(e) => {
                                let back = e.into_inner();
                                let s = format!("err{}", back.id);
                                drop(back);
                                s
                            }
                        }
                    }
                    Call::Load => match cell.try_load() {
                        Some(r) => {
                            // dispatch an emission to it, as `with_recorder` would
                            LAST_CALLED.store(usize::MAX, Ordering::SeqCst);
                            r.describe_counter(KeyName::from_const_str("probe"), None, SharedString::const_str(""));
                            format!("some{}", LAST_CALLED.load(Ordering::SeqCst))
                        }
                        None => "none".to_string(),
                    },
                };
                results.lock().unwrap()[t].push(r);
            }
        }));
    }
    let run = sched::run(bodies, schedule);
    let res = results.lock().unwrap().clone();
    // winner = the thread whose set returned ok
    let mut winner = None;
    for (t, prog) in progs.iter().enumerate() {
        for (i, c) in prog.iter().enumerate() {
            if let (Call::Set(id), Some(r)) = (c, res[t].get(i)) {
                if r == "ok" {
                    winner = Some(*id);
                }
            }
        }
    }
    let _ = winner;
    let final_cell = cell.try_load().map(|r| {
        LAST_CALLED.store(usize::MAX, Ordering::SeqCst);
        r.describe_counter(KeyName::from_const_str("probe"), None, SharedString::const_str(""));
        LAST_CALLED.load(Ordering::SeqCst)
    });
    Outcome { results: res, final_cell, drops: drops.iter().map(|d| d.load(Ordering::SeqCst)).collect(), run }
}

fn answer(o: &Outcome) -> String {
    let labels: Vec<&str> = o.run.trace.iter().map(|(_, id)| *id).collect();
    let res = list(o.results.iter().map(|r| if r.is_empty() { ".".to_string() } else { r.join("+") }));
    format!(
        "{} | {} | cell={}",
        labels.join("."),
        res,
        match o.final_cell {
            Some(r) => r.to_string(),
            None => "~".into(),
        }
    )
}

fn oracle(out: &mut Out, progs: &[Vec<Call>], o: &Outcome) {
    if o.run.deadlock || o.run.timed_out || !o.run.panicked.is_empty() {
        out.oracle_fail("install/lookup race: deadlock, timeout or panic", &format!("{:?}", o.run));
        return;
    }
    let mut oks = 0;
    let mut winner = None;
    for (t, prog) in progs.iter().enumerate() {
        for (i, c) in prog.iter().enumerate() {
            let r = &o.results[t][i];
            match c {
                Call::Set(id) => {
                    if r == "ok" {
                        oks += 1;
                        winner = Some(*id);
                        if o.drops[*id] != 0 {
                            out.oracle_fail("installed recorder was dropped by the library", &format!("id {}", id));
                        }
                    } else if *r != format!("err{}", id) {
                        out.oracle_fail("rejected installation did not hand back the caller's own recorder", r);
                    } else if o.drops[*id] != 1 {
                        out.oracle_fail(
                            "rejected recorder dropped or leaked by the library (drop count != 1 after the caller dropped it)",
                            &format!("id {} drops {}", id, o.drops[*id]),
                        );
                    }
                }
                Call::Load => {}
            }
        }
    }
    if oks > 1 {
        out.oracle_fail("more than one global-recorder installation succeeded", &format!("{:?}", o.results));
    }
    // every Some is the winner, fully constructed
    for r in o.results.iter().flatten() {
        if let Some(x) = r.strip_prefix("some") {
            if Some(x.to_string()) != winner.map(|w| w.to_string()) {
                out.oracle_fail("a lookup returned something other than the installed recorder", r);
            }
        }
    }
    // once any lookup has seen the recorder, every lookup that starts later sees it too
    let first_seen = o.run.trace.iter().position(|(_, id)| *id == "cell.load.read");
    if let Some(fs) = first_seen {
        // completion of that lookup is the step itself; lookups whose state load is granted later must be Some
        let mut per_thread_load_idx = vec![0usize; progs.len()];
        for (gi, (t, id)) in o.run.trace.iter().enumerate() {
            if *id == "cell.load.state" {
                let k = per_thread_load_idx[*t];
                per_thread_load_idx[*t] += 1;
                if gi > fs {
                    // k-th load of thread t
                    let idx = progs[*t].iter().enumerate().filter(|(_, c)| matches!(c, Call::Load)).nth(k).map(|x| x.0);
                    if let Some(i) = idx {
                        if !o.results[*t][i].starts_with("some") {
                            out.oracle_fail(
                                "a lookup that started after another lookup had seen the recorder returned None",
                                &format!("thread {} call {} trace {:?}", t, i, o.run.trace),
                            );
                        }
                    }
                }
            }
        }
    }
}

fn gen_progs(r: &mut Rng) -> Vec<Vec<Call>> {
    let n = r.range(2, 4);
    let mut next_id = 1;
    let mut progs = vec![];
    for t in 0..n {
        let mut p = vec![];
        let k = r.range(1, 3);
        for _ in 0..k {
            if (t < 2 && p.is_empty()) || r.chance(1, 3) {
                p.push(Call::Set(next_id));
                next_id += 1;
            } else {
                p.push(Call::Load);
            }
        }
        progs.push(p);
    }
    progs
}

pub fn run(cfg: &Cfg, out: &mut Out) {
    let root = Rng::new(cfg.seed);
    // corpus: the classic shapes
    let corpus: Vec<(Vec<Vec<Call>>, Vec<usize>)> = vec![
        (vec![vec![Call::Set(1)], vec![Call::Set(2)], vec![Call::Load, Call::Load], vec![Call::Load]],
         vec![0, 1, 2, 3, 1, 0, 2, 1, 1, 2, 2, 3, 3]),
        (vec![vec![Call::Set(1)], vec![Call::Load]], vec![0, 1, 0, 0, 1, 0, 1]),
        (vec![vec![Call::Set(1), Call::Set(2)], vec![Call::Set(3), Call::Load]], vec![1, 0, 0, 1, 1, 0, 1]),
    ];
    for (progs, sch) in corpus {
        out.case("corpus");
        one(out, &progs, &sch);
    }
    for i in 0..cfg.cases {
        let mut r = root.fork(i as u64);
        out.case(&format!("seed={} i={}", cfg.seed, i));
        let progs = gen_progs(&mut r);
        // random schedule with bursts (a thread keeps the token for a while, then a switch)
        let mut sch = vec![];
        let mut cur = r.below(progs.len());
        for _ in 0..40 {
            if r.chance(1, 2) {
                cur = r.below(progs.len());
            }
            sch.push(cur);
        }
        out.count(&format!("threads={}", progs.len()));
        one(out, &progs, &sch);
    }
    if cfg.thorough {
        // exhaustive: all schedules of small configurations, each replayed on the model
        let configs: Vec<Vec<Vec<Call>>> = vec![
            vec![vec![Call::Set(1)], vec![Call::Set(2)], vec![Call::Load, Call::Load]],
            vec![vec![Call::Set(1)], vec![Call::Set(2), Call::Load], vec![Call::Load]],
            vec![vec![Call::Set(1), Call::Load], vec![Call::Load, Call::Set(2)]],
        ];
        for progs in configs {
            let mut all: Vec<(Vec<usize>, Outcome)> = vec![];
            let p2 = progs.clone();
            let (runs, exhausted) = {
                let mut prefix: Vec<usize> = vec![];
                let mut runs = 0usize;
                let mut exhausted = false;
                loop {
                    let o = execute(&p2, &prefix);
                    runs += 1;
                    let taken: Vec<usize> = o.run.trace.iter().map(|(t, _)| *t).collect();
                    let choices = o.run.choices.clone();
                    all.push((taken.clone(), o));
                    if runs >= 20000 {
                        break;
                    }
                    let mut i = taken.len();
                    let mut next = None;
                    while i > 0 {
                        i -= 1;
                        if let Some(alt) = choices[i].iter().copied().filter(|c| *c > taken[i]).min() {
                            next = Some((i, alt));
                            break;
                        }
                    }
                    match next {
                        None => {
                            exhausted = true;
                            break;
                        }
                        Some((i, alt)) => {
                            prefix = taken[..i].to_vec();
                            prefix.push(alt);
                        }
                    }
                }
                (runs, exhausted)
            };
            out.count_n(&format!("exhaustive.runs.{}", list(progs.iter().map(|p| prog_tok(p)))), runs as u64);
            out.count(&format!("exhaustive.complete={}", exhausted));
            out.case(&format!("exhaustive {}", list(progs.iter().map(|p| prog_tok(p)))));
            for (taken, o) in all {
                out.op(
                    &format!("cell run {} {}", list(progs.iter().map(|p| prog_tok(p))), sched::sched_tok(&taken)),
                    &answer(&o),
                );
                oracle(out, &progs, &o);
            }
            out.nontrivial();
        }
    }
}

fn one(out: &mut Out, progs: &[Vec<Call>], sch: &[usize]) {
    let o = execute(progs, sch);
    let taken: Vec<usize> = o.run.trace.iter().map(|(t, _)| *t).collect();
    out.op(
        &format!("cell run {} {}", list(progs.iter().map(|p| prog_tok(p))), sched::sched_tok(&taken)),
        &answer(&o),
    );
    // non-trivial: at least one context switch between the winner's CAS and its publishing store
    let cas = o.run.trace.iter().position(|(_, id)| *id == "cell.set.write");
    let st = o.run.trace.iter().position(|(_, id)| *id == "cell.set.store");
    if let (Some(a), Some(b)) = (cas, st) {
        if b > a + 1 {
            out.nontrivial();
            out.count("interleaved.inside.set");
        }
    }
    oracle(out, progs, &o);
}
